/-
C10 helper, session level: while a source is being built — tokens compiled by the flow-stack compiler,
meta blocks opened, run and closed, constants defined — the session stays an *extension* of the session
it was submitted to: everything that session had is still there, underneath what has been added.
`build_unwind` cuts the additions off again.
-/
import XehModel.Model.Session
import XehModel.Proofs.VMSeal
import XehModel.Proofs.CompileUnwind

set_option linter.unusedSimpArgs false
set_option linter.unusedVariables false

namespace Xeh.Session
open Xeh Xeh.Mach Xeh.Compile Sess

/-! ### replaced constants -/

/-- restore one replaced constant in the part of the dictionary that existed at the mark
    (`o` = the `o.length` oldest entries, newest first) -/
def undoOld (o : List (String × Entry)) (u : Nat × Cell) : List (String × Entry) :=
  if u.1 < o.length then
    match o[o.length - 1 - u.1]? with
    | some (n, .const _) => o.set (o.length - 1 - u.1) (n, .const u.2)
    | _ => o
  else o

theorem undoOld_length (o : List (String × Entry)) (u : Nat × Cell) : (undoOld o u).length = o.length := by
  unfold undoOld; split
  · split <;> simp
  · rfl

theorem undoConst_length (d : List (String × Entry)) (u : Nat × Cell) : (undoConst d u).length = d.length := by
  unfold undoConst; simp only; split
  · split <;> simp
  · rfl

theorem hidOf_length (l : List α) (n : Nat) (h : n ≤ l.length) : (hidOf l n).length = n := by
  simp [hidOf]; omega

theorem hidOf_append (a b : List α) : hidOf (a ++ b) b.length = b := by
  simp [hidOf]

theorem hidOf_append_ge (a b : List α) (n : Nat) (h : n ≤ b.length) : hidOf (a ++ b) n = hidOf b n := by
  simp only [hidOf, List.length_append]
  have : a.length + b.length - n = a.length + (b.length - n) := by omega
  rw [this, List.drop_append]
  simp

theorem hidOf_set_lt (l : List α) (n i : Nat) (x : α) (h : i < l.length - n) : hidOf (l.set i x) n = hidOf l n := by
  simp only [hidOf, List.length_set]
  rw [List.drop_set_of_lt h]

theorem hidOf_set_ge (l : List α) (n i : Nat) (x : α) (h : l.length - n ≤ i) :
    hidOf (l.set i x) n = (hidOf l n).set (i - (l.length - n)) x := by
  simp only [hidOf, List.length_set]
  rw [List.drop_set]
  simp [Nat.not_lt.mpr h]

theorem undoConst_old (n : Nat) (d : List (String × Entry)) (u : Nat × Cell) (h : n ≤ d.length) :
    hidOf (undoConst d u) n = undoOld (hidOf d n) u := by
  have hl := hidOf_length d n h
  unfold undoConst undoOld
  simp only [hl]
  by_cases h1 : u.1 < d.length
  · simp only [h1, if_true]
    by_cases h2 : u.1 < n
    · simp only [h2, if_true]
      have hi : d.length - n ≤ d.length - 1 - u.1 := by omega
      have hget : (hidOf d n)[n - 1 - u.1]? = d[d.length - 1 - u.1]? := by
        simp only [hidOf, List.getElem?_drop]
        congr 1; omega
      rw [hget]
      rcases hd : d[d.length - 1 - u.1]? with _ | ⟨nm, e⟩
      · rfl
      · cases e <;> simp only []
        rw [hidOf_set_ge _ _ _ _ hi]
        congr 1; omega
    · simp only [h2, if_false]
      rcases hd : d[d.length - 1 - u.1]? with _ | ⟨nm, e⟩
      · rfl
      · cases e <;> simp only []
        rw [hidOf_set_lt]; omega
  · simp only [h1, if_false]
    have : ¬ u.1 < n := by omega
    simp [this]

theorem foldl_undoConst_old (n : Nat) (us : List (Nat × Cell)) : ∀ (d : List (String × Entry)), n ≤ d.length →
    hidOf (us.foldl undoConst d) n = us.foldl undoOld (hidOf d n) ∧ (us.foldl undoConst d).length = d.length := by
  induction us with
  | nil => intro d _; exact ⟨rfl, rfl⟩
  | cons u rest ih =>
    intro d h
    simp only [List.foldl_cons]
    have hl := undoConst_length d u
    obtain ⟨a, b⟩ := ih (undoConst d u) (by rw [hl]; exact h)
    exact ⟨by rw [a, undoConst_old n d u h], by rw [b, hl]⟩

/-! ### the invariant -/

/-- `s` still contains everything `s0` had (what `unwind` relies on) -/
structure Ext0 (s0 s : Sess) : Prop where
  code : s.m.code.take s0.m.code.length = s0.m.code
  dmap : s.dmap.take s0.dmap.length = s0.dmap
  dictLen : s0.m.dict.length ≤ s.m.dict.length
  undo : ∃ us, s.constUndo = us ++ s0.constUndo ∧ us.foldl undoOld (hidOf s.m.dict s0.m.dict.length) = s0.m.dict
  heap : s.m.heap.take s0.m.heap.length = s0.m.heap
  ds : hidOf s.m.ds s0.m.ds.length = s0.m.ds
  rs : hidOf s.m.rs s0.m.rs.length = s0.m.rs
  loops : hidOf s.m.loops s0.m.loops.length = s0.m.loops
  special : hidOf s.m.special s0.m.special.length = s0.m.special
  flows : hidOf s.flows s0.flows.length = s0.flows
  nested : hidOf s.nested s0.nested.length = s0.nested
  nolog : s0.m.log = none → s.m.log = none
  log : ∀ ℓ, s0.m.log = some ℓ → ∃ seg, s.m.log = some (seg ++ ℓ)
  limits : s.m.insnLimit = s0.m.insnLimit ∧ s.m.stackLimit = s0.m.stackLimit ∧ s.m.heapLimit = s0.m.heapLimit

/-- the unwound session is the one the source was submitted to; only the instruction meter, the
    captured output (a meta block may have printed), the stop flag and the last-token marker remain -/
theorem unwind_restores {s0 s : Sess} (h : Ext0 s0 s) (hdm : s0.dmap.length = s0.m.code.length) :
    unwind s0 s = { s0 with m := { s0.m with meter := s.m.meter, out := s.m.out, aboutToStop := s.m.aboutToStop },
                            lastTok := s.lastTok } := by
  obtain ⟨us, hu, hfold⟩ := h.undo
  have hn : s.constUndo.length - s0.constUndo.length = us.length := by rw [hu]; simp
  have htake : s.constUndo.take us.length = us := by rw [hu]; simp
  have hdrop : s.constUndo.drop us.length = s0.constUndo := by rw [hu]; simp
  obtain ⟨hd1, hd2⟩ := foldl_undoConst_old s0.m.dict.length us s.m.dict h.dictLen
  have hlog : (s.m.log.map fun l => l.drop (l.length - (s0.m.log.map List.length).getD 0)) = s0.m.log := by
    cases h0 : s0.m.log with
    | none => rw [h.nolog h0]; rfl
    | some ℓ =>
      obtain ⟨seg, e⟩ := h.log ℓ h0
      rw [e]; simp
  rcases s0 with ⟨m0, dmap0, flows0, nested0, cu0, lt0⟩
  rcases m0 with ⟨code0, heap0, ds0, rs0, loops0, special0, ctx0, meter0, il0, sl0, hl0, log0, out0, ats0, dict0⟩
  simp only [unwind, hn, htake, hdrop, Sess.mk.injEq, Mach.mk.injEq]
  simp only at hd1 hd2 hfold hlog
  have := h.code; have := hdm ▸ h.dmap; have := h.heap; have := h.ds; have := h.rs; have := h.loops; have := h.special
  have := h.flows; have := h.nested; have hlim := h.limits
  simp only [hidOf] at *
  refine ⟨⟨by assumption, by assumption, by assumption, by assumption, by assumption, by assumption, trivial, trivial,
    hlim.1, hlim.2.1, hlim.2.2, hlog, trivial, trivial, ?_⟩, by assumption, by assumption, by assumption, trivial, trivial⟩
  rw [hd1]; exact hfold

/-! ### list facts -/

theorem hidOf_len_le {l x : List α} {n : Nat} (h : hidOf l n = x) (hx : x.length = n) : n ≤ l.length := by
  have := congrArg List.length h
  simp only [hidOf, List.length_drop] at this
  omega

theorem hidOf_hidOf (l : List α) (n k : Nat) (h1 : n ≤ k) (h2 : k ≤ l.length) : hidOf (hidOf l k) n = hidOf l n := by
  simp only [hidOf, List.length_drop, List.drop_drop]
  congr 1; omega

theorem hidOf_congr {l l' : List α} {k : Nat} (n : Nat) (h : hidOf l' k = hidOf l k) (h1 : n ≤ k)
    (h2 : k ≤ l.length) (h3 : k ≤ l'.length) : hidOf l' n = hidOf l n := by
  rw [← hidOf_hidOf l' n k h1 h3, h, hidOf_hidOf l n k h1 h2]

theorem take_len_le {l x : List α} {n : Nat} (h : l.take n = x) (hx : x.length = n) : n ≤ l.length := by
  have := congrArg List.length h
  simp only [List.length_take] at this
  omega

/-! ### the strong invariant (states from which the build continues) -/

/-- the marks of a context opened since `s0` lie above everything `s0` had -/
structure CtxOK (s0 : Sess) (c : Ctx) : Prop where
  cs : s0.m.code.length ≤ c.csLen
  fs : s0.flows.length ≤ c.fsLen
  di : s0.m.dict.length ≤ c.diLen
  rs : s0.m.rs.length ≤ c.rsLen
  ls : s0.m.loops.length ≤ c.lsLen
  ss : s0.m.special.length ≤ c.ssPtr
  ds : c.mode = .metaEval → s0.m.ds.length ≤ c.dsLen

/-- marks never decrease from an enclosing context to the one opened inside it -/
structure MarksLe (c c' : Ctx) : Prop where
  ds : c.dsLen ≤ c'.dsLen
  rs : c.rsLen ≤ c'.rsLen
  ls : c.lsLen ≤ c'.lsLen
  ss : c.ssPtr ≤ c'.ssPtr
  fs : c.fsLen ≤ c'.fsLen

/-- the marks of the context a source (or a meta block) was opened with: everything `s0` had, exactly -/
structure BaseMarks (s0 : Sess) (c : Ctx) : Prop where
  cs : c.csLen = s0.m.code.length
  fs : c.fsLen = s0.flows.length
  di : c.diLen = s0.m.dict.length
  rs : c.rsLen = s0.m.rs.length
  ls : c.lsLen = s0.m.loops.length
  ss : c.ssPtr = s0.m.special.length
  dsOpen : c.dsOpen = s0.m.ds.length
  ds : c.mode ≠ s0.m.ctx.mode → c.dsLen = s0.m.ds.length

/-- the current context and the saved ones: the context the source was opened in (not a meta block),
    then only meta blocks, each above `s0`'s marks -/
inductive Chain (s0 : Sess) (bm : Mode) : Ctx → List Ctx → Prop
  | base (c : Ctx) : CtxOK s0 c → c.mode = bm → BaseMarks s0 c → Chain s0 bm c (s0.m.ctx :: s0.nested)
  | inner (c c' : Ctx) (rest : List Ctx) : Chain s0 bm c rest → CtxOK s0 c' → c'.mode = .metaEval → MarksLe c c' →
      Chain s0 bm c' (c :: rest)

theorem Chain.ok {s0 : Sess} {bm : Mode} {c : Ctx} {l : List Ctx} (h : Chain s0 bm c l) : CtxOK s0 c := by
  cases h with
  | base _ h _ _ => exact h
  | inner _ _ _ _ h _ _ => exact h

theorem Chain.nested {s0 : Sess} {bm : Mode} {c : Ctx} {l : List Ctx} (h : Chain s0 bm c l) :
    hidOf l s0.nested.length = s0.nested ∧ s0.nested.length < l.length := by
  induction h with
  | base c _ _ _ => exact ⟨by rw [hidOf_cons _ _ _ (Nat.le_refl _), hidOf_all], by simp⟩
  | inner c c' rest _ _ _ _ ih =>
    exact ⟨by rw [hidOf_cons _ _ _ (by omega)]; exact ih.1, by simp; omega⟩

/-- with exactly one saved context above `s0`'s, the current context is the one the source was opened in -/
theorem Chain.base_of_len {s0 : Sess} {bm : Mode} {c : Ctx} {l : List Ctx} (h : Chain s0 bm c l)
    (hl : l.length = s0.nested.length + 1) : c.mode = bm ∧ l = s0.m.ctx :: s0.nested := by
  cases h with
  | base _ _ hb _ => exact ⟨hb, rfl⟩
  | inner c1 _ rest hc _ _ _ =>
    have := hc.nested.2
    simp at hl; omega

/-- the instruction pointer plays no role -/
theorem Chain.setIp {s0 : Sess} {bm : Mode} {c : Ctx} {l : List Ctx} (h : Chain s0 bm c l) (c' : Ctx) (e : c'.marks = c.marks) :
    Chain s0 bm c' l := by
  have hf : ∀ (f : Ctx → Nat), (∀ x : Ctx, f x = f x.marks) → f c' = f c := fun f hf => by rw [hf c', hf c, e]
  have hm : c'.mode = c.mode := by have := congrArg Ctx.mode e; simpa [Ctx.marks] using this
  have ok : CtxOK s0 c → CtxOK s0 c' := fun o =>
    ⟨by rw [hf Ctx.csLen (fun _ => rfl)]; exact o.cs, by rw [hf Ctx.fsLen (fun _ => rfl)]; exact o.fs,
     by rw [hf Ctx.diLen (fun _ => rfl)]; exact o.di, by rw [hf Ctx.rsLen (fun _ => rfl)]; exact o.rs,
     by rw [hf Ctx.lsLen (fun _ => rfl)]; exact o.ls, by rw [hf Ctx.ssPtr (fun _ => rfl)]; exact o.ss,
     fun h => by rw [hf Ctx.dsLen (fun _ => rfl)]; exact o.ds (hm ▸ h)⟩
  cases h with
  | base _ o hb bmk =>
    exact .base c' (ok o) (by rw [hm]; exact hb)
      ⟨by rw [hf Ctx.csLen (fun _ => rfl)]; exact bmk.cs, by rw [hf Ctx.fsLen (fun _ => rfl)]; exact bmk.fs,
       by rw [hf Ctx.diLen (fun _ => rfl)]; exact bmk.di, by rw [hf Ctx.rsLen (fun _ => rfl)]; exact bmk.rs,
       by rw [hf Ctx.lsLen (fun _ => rfl)]; exact bmk.ls, by rw [hf Ctx.ssPtr (fun _ => rfl)]; exact bmk.ss,
       by rw [hf Ctx.dsOpen (fun _ => rfl)]; exact bmk.dsOpen,
       fun h => by rw [hf Ctx.dsLen (fun _ => rfl)]; exact bmk.ds (hm ▸ h)⟩
  | inner c1 _ rest hc o hmeta le =>
    exact .inner c1 c' rest hc (ok o) (by rw [hm]; exact hmeta)
      ⟨by rw [hf Ctx.dsLen (fun _ => rfl)]; exact le.ds, by rw [hf Ctx.rsLen (fun _ => rfl)]; exact le.rs,
       by rw [hf Ctx.lsLen (fun _ => rfl)]; exact le.ls, by rw [hf Ctx.ssPtr (fun _ => rfl)]; exact le.ss,
       by rw [hf Ctx.fsLen (fun _ => rfl)]; exact le.fs⟩

structure Ext (bm : Mode) (s0 s : Sess) : Prop where
  ext0 : Ext0 s0 s
  chain : Chain s0 bm s.m.ctx s.nested
  /-- the pending flows added since `s0` only refer to code added since `s0` -/
  flows : ∃ nw, s.flows = nw ++ s0.flows ∧ Orgs s0.m.code.length nw
  wf : WF s.m
  fs : s.m.ctx.fsLen ≤ s.flows.length
  dmapLen : s0.dmap.length = s0.m.code.length

/-- what a build step may return: a state to continue from, or a failure whose state is still an extension -/
def SOK (bm : Mode) (s0 : Sess) : SRes → Prop
  | .ok s => Ext bm s0 s
  | .err _ s => Ext0 s0 s
  | _ => True

/-- transport `Ext0` to a state that agrees with `s` on everything `s0` had -/
theorem Ext0.transport {s0 s s' : Sess} (h : Ext0 s0 s)
    (code : s'.m.code.take s0.m.code.length = s.m.code.take s0.m.code.length)
    (dmap : s'.dmap.take s0.dmap.length = s.dmap.take s0.dmap.length)
    (dict : hidOf s'.m.dict s0.m.dict.length = hidOf s.m.dict s0.m.dict.length ∧ s0.m.dict.length ≤ s'.m.dict.length)
    (undo : s'.constUndo = s.constUndo)
    (heap : s'.m.heap.take s0.m.heap.length = s.m.heap.take s0.m.heap.length)
    (ds : hidOf s'.m.ds s0.m.ds.length = hidOf s.m.ds s0.m.ds.length)
    (rs : hidOf s'.m.rs s0.m.rs.length = hidOf s.m.rs s0.m.rs.length)
    (loops : hidOf s'.m.loops s0.m.loops.length = hidOf s.m.loops s0.m.loops.length)
    (special : hidOf s'.m.special s0.m.special.length = hidOf s.m.special s0.m.special.length)
    (flows : hidOf s'.flows s0.flows.length = hidOf s.flows s0.flows.length)
    (nested : hidOf s'.nested s0.nested.length = hidOf s.nested s0.nested.length)
    (log : (s.m.log = none → s'.m.log = none) ∧ ∀ ℓ, s.m.log = some ℓ → ∃ seg, s'.m.log = some (seg ++ ℓ))
    (limits : s'.m.insnLimit = s.m.insnLimit ∧ s'.m.stackLimit = s.m.stackLimit ∧ s'.m.heapLimit = s.m.heapLimit) :
    Ext0 s0 s' where
  code := by rw [code]; exact h.code
  dmap := by rw [dmap]; exact h.dmap
  dictLen := dict.2
  undo := by obtain ⟨us, a, b⟩ := h.undo; exact ⟨us, by rw [undo]; exact a, by rw [dict.1]; exact b⟩
  heap := by rw [heap]; exact h.heap
  ds := by rw [ds]; exact h.ds
  rs := by rw [rs]; exact h.rs
  loops := by rw [loops]; exact h.loops
  special := by rw [special]; exact h.special
  flows := by rw [flows]; exact h.flows
  nested := by rw [nested]; exact h.nested
  nolog := fun h0 => log.1 (h.nolog h0)
  log := fun ℓ h0 => by
    obtain ⟨seg, e⟩ := h.log ℓ h0
    obtain ⟨seg2, e2⟩ := log.2 _ e
    exact ⟨seg2 ++ seg, by rw [e2, List.append_assoc]⟩
  limits := ⟨by rw [limits.1, h.limits.1], by rw [limits.2.1, h.limits.2.1], by rw [limits.2.2, h.limits.2.2]⟩

theorem log_same {a b : Option (List RStep)} (e : b = a) :
    (a = none → b = none) ∧ ∀ ℓ, a = some ℓ → ∃ seg, b = some (seg ++ ℓ) :=
  ⟨fun h => by rw [e, h], fun ℓ h => ⟨[], by rw [e, h]; rfl⟩⟩

theorem Ext0.codeLen {s0 s : Sess} (h : Ext0 s0 s) : s0.m.code.length ≤ s.m.code.length := take_len_le h.code rfl
theorem Ext0.dmapLen {s0 s : Sess} (h : Ext0 s0 s) : s0.dmap.length ≤ s.dmap.length := take_len_le h.dmap rfl
theorem Ext0.heapLen {s0 s : Sess} (h : Ext0 s0 s) : s0.m.heap.length ≤ s.m.heap.length := take_len_le h.heap rfl
theorem Ext0.dsLen {s0 s : Sess} (h : Ext0 s0 s) : s0.m.ds.length ≤ s.m.ds.length := hidOf_len_le h.ds rfl
theorem Ext0.rsLen {s0 s : Sess} (h : Ext0 s0 s) : s0.m.rs.length ≤ s.m.rs.length := hidOf_len_le h.rs rfl
theorem Ext0.lsLen {s0 s : Sess} (h : Ext0 s0 s) : s0.m.loops.length ≤ s.m.loops.length := hidOf_len_le h.loops rfl
theorem Ext0.ssLen {s0 s : Sess} (h : Ext0 s0 s) : s0.m.special.length ≤ s.m.special.length := hidOf_len_le h.special rfl
theorem Ext0.fsLen {s0 s : Sess} (h : Ext0 s0 s) : s0.flows.length ≤ s.flows.length := hidOf_len_le h.flows rfl

/-! ### steps -/

theorem ext_lastTok {bm : Mode} {s0 s : Sess} (t : Nat) (h : Ext bm s0 s) : Ext bm s0 { s with lastTok := t } :=
  ⟨h.ext0.transport rfl rfl ⟨rfl, h.ext0.dictLen⟩ rfl rfl rfl rfl rfl rfl rfl rfl (log_same rfl) ⟨rfl, rfl, rfl⟩,
   h.chain, h.flows, h.wf, h.fs, h.dmapLen⟩

theorem ext0_lastTok {s0 s : Sess} (t : Nat) (h : Ext0 s0 s) : Ext0 s0 { s with lastTok := t } :=
  h.transport rfl rfl ⟨rfl, h.dictLen⟩ rfl rfl rfl rfl rfl rfl rfl rfl (log_same rfl) ⟨rfl, rfl, rfl⟩

theorem ext_emit {bm : Mode} {s0 s : Sess} (op : Op) (h : Ext bm s0 s) : Ext bm s0 (s.emit op) := by
  refine ⟨h.ext0.transport ?_ ?_ ⟨rfl, h.ext0.dictLen⟩ rfl rfl rfl rfl rfl rfl rfl rfl (log_same rfl) ⟨rfl, rfl, rfl⟩,
    h.chain, h.flows, ⟨h.wf.ds, h.wf.rs, h.wf.ls, h.wf.ss⟩, h.fs, h.dmapLen⟩
  · simp only [Sess.emit]; rw [List.take_append_of_le_length h.ext0.codeLen]
  · simp only [Sess.emit]; rw [List.take_append_of_le_length h.ext0.dmapLen]

theorem ext_contextOpen {bm : Mode} {s0 s : Sess} (h : Ext bm s0 s) : Ext bm s0 (s.contextOpen .metaEval) := by
  have hn := h.chain.nested
  refine ⟨h.ext0.transport rfl rfl ⟨rfl, h.ext0.dictLen⟩ rfl rfl rfl rfl rfl rfl rfl ?_ (log_same rfl) ⟨rfl, rfl, rfl⟩,
    ?_, h.flows, ?_, ?_, h.dmapLen⟩
  · simp only [Sess.contextOpen]; rw [hidOf_cons _ _ _ (by omega)]
  · simp only [Sess.contextOpen]
    refine .inner s.m.ctx _ s.nested h.chain ⟨h.ext0.codeLen, h.ext0.fsLen, h.ext0.dictLen, h.ext0.rsLen, h.ext0.lsLen,
      h.ext0.ssLen, fun _ => ?_⟩ rfl ⟨?_, h.wf.rs, h.wf.ls, h.wf.ss, h.fs⟩
    · simp only; split
      · rename_i hm; exact h.chain.ok.ds hm
      · exact h.ext0.dsLen
    · simp only; split
      · exact Nat.le_refl _
      · exact h.wf.ds
  · simp only [Sess.contextOpen]
    refine ⟨?_, Nat.le_refl _, Nat.le_refl _, Nat.le_refl _⟩
    simp only; split
    · exact h.wf.ds
    · exact Nat.le_refl _
  · simp only [Sess.contextOpen]; exact Nat.le_refl _

/-- anything the VM does inside a meta block keeps the session a full extension -/
theorem ext_sealed {bm : Mode} {s0 s : Sess} (h : Ext bm s0 s) (hm : s.m.ctx.mode = .metaEval) (m' : Mach)
    (sl : Sealed s.m m') : Ext bm s0 { s with m := m' } := by
  have hmarks : m'.ctx.marks = s.m.ctx.marks := by have := congrArg Hid.marks sl.hid; simpa [Core.hid, Mach.core] using this
  have hf : ∀ (f : Ctx → Nat), (∀ x : Ctx, f x = f x.marks) → f m'.ctx = f s.m.ctx := fun f hf => by rw [hf m'.ctx, hf s.m.ctx, hmarks]
  have e1 := hf Ctx.dsLen (fun _ => rfl); have e2 := hf Ctx.rsLen (fun _ => rfl)
  have e3 := hf Ctx.lsLen (fun _ => rfl); have e4 := hf Ctx.ssPtr (fun _ => rfl); have e5 := hf Ctx.fsLen (fun _ => rfl)
  have hds : hidOf m'.ds s.m.ctx.dsLen = hidOf s.m.ds s.m.ctx.dsLen := by
    have := congrArg Hid.ds sl.hid; simp only [Core.hid, Mach.core, e1] at this; exact this
  have hrs : hidOf m'.rs s.m.ctx.rsLen = hidOf s.m.rs s.m.ctx.rsLen := by
    have := congrArg Hid.rs sl.hid; simp only [Core.hid, Mach.core, e2] at this; exact this
  have hls : hidOf m'.loops s.m.ctx.lsLen = hidOf s.m.loops s.m.ctx.lsLen := by
    have := congrArg Hid.loops sl.hid; simp only [Core.hid, Mach.core, e3] at this; exact this
  have hss : hidOf m'.special s.m.ctx.ssPtr = hidOf s.m.special s.m.ctx.ssPtr := by
    have := congrArg Hid.special sl.hid; simp only [Core.hid, Mach.core, e4] at this; exact this
  have ok := h.chain.ok
  have w' := sl.wf
  refine ⟨h.ext0.transport (by rw [sl.codeMeta hm]) rfl ⟨by rw [sl.dict], by rw [sl.dict]; exact h.ext0.dictLen⟩ rfl
      (by rw [sl.heapMeta hm])
      (hidOf_congr _ hds (ok.ds hm) h.wf.ds (by rw [← e1]; exact w'.ds))
      (hidOf_congr _ hrs ok.rs h.wf.rs (by rw [← e2]; exact w'.rs))
      (hidOf_congr _ hls ok.ls h.wf.ls (by rw [← e3]; exact w'.ls))
      (hidOf_congr _ hss ok.ss h.wf.ss (by rw [← e4]; exact w'.ss))
      rfl rfl ⟨sl.nolog, sl.log⟩ sl.limits,
    h.chain.setIp m'.ctx hmarks, h.flows, w', by rw [e5]; exact h.fs, h.dmapLen⟩

/-- running the machine inside a meta block: whatever happens, the session stays a full extension -/
theorem ext_run {bm : Mode} {s0 s : Sess} (h : Ext bm s0 s) (hm : s.m.ctx.mode = .metaEval) (fuel : Nat) (o : Outcome Unit) (m' : Mach)
    (hr : Mach.run nativeProg fuel s.m = some (o, m')) : Ext bm s0 { s with m := m' } :=
  ext_sealed h hm m' (run_sealed nativeProg fuel s.m (o, m') h.wf hr)

theorem ext_popData {bm : Mode} {s0 s : Sess} (h : Ext bm s0 s) (hm : s.m.ctx.mode = .metaEval) : Ext bm s0 { s with m := s.m.popData.2 } := by
  obtain ⟨seg, r⟩ := popData_rev s.m
  exact ext_sealed h hm _ (r.sealed h.wf)

theorem sok_runS {bm : Mode} {s0 s : Sess} (h : Ext bm s0 s) (hm : s.m.ctx.mode = .metaEval) (fuel : Nat) : SOK bm s0 (s.runS fuel) := by
  unfold Sess.runS
  split
  · trivial
  · rename_i m' hr; exact ext_run h hm fuel _ m' hr
  · rename_i e m' hr
    split
    · trivial
    · exact (ext_run h hm fuel _ m' hr).ext0
  · rename_i p m' hr
    split <;> trivial

theorem sok_metaRun {bm : Mode} {s0 s : Sess} (h : Ext bm s0 s) (fuel : Nat) : SOK bm s0 (s.metaRun fuel) := by
  unfold Sess.metaRun
  split
  · rename_i hc
    have hm : s.m.ctx.mode = .metaEval := by
      simp only [Bool.and_eq_true, beq_iff_eq] at hc; exact hc.1
    exact sok_runS h hm fuel
  · exact h

theorem sok_andRun {bm : Mode} {s0 : Sess} (fuel : Nat) (r : SRes) (h : SOK bm s0 r) : SOK bm s0 (andRun fuel r) := by
  cases r with
  | ok s => exact sok_metaRun h fuel
  | err e s => exact h
  | panic p s => trivial
  | unsupported u => trivial
  | timeout => trivial

/-! ### tokens compiled by the flow-stack compiler -/

/-- the compiler state at the mark, as seen from `s` (its dictionary part is the *current* old part:
    constants defined before the mark may have been replaced, which the compiler never does) -/
def baseC (s0 s : Sess) : CState :=
  { code := s0.m.code, dmap := s0.dmap, flows := [], dict := hidOf s.m.dict s0.m.dict.length,
    heapLen := s0.m.heap.length, heapLimit := s.m.heapLimit, hiddenFlows := s.toC.hiddenFlows, lastTok := 0 }

theorem hidden_eq (s : Sess) (h : s.m.ctx.fsLen ≤ s.flows.length) : s.hidden = hidOf s.flows s.m.ctx.fsLen := rfl

theorem pre_toC {bm : Mode} {s0 s : Sess} (h : Ext bm s0 s) : Pre (baseC s0 s) s.toC ∧ Orgs s0.m.code.length s.toC.flows := by
  refine ⟨⟨h.ext0.code, h.ext0.dmap, ⟨s.m.dict.take (s.m.dict.length - s0.m.dict.length), by simp [baseC, Sess.toC, hidOf]⟩,
    h.ext0.heapLen, h.ext0.codeLen, h.ext0.dmapLen, ⟨rfl, rfl⟩⟩, ?_⟩
  obtain ⟨nw, hf, ho⟩ := h.flows
  have hfs := h.chain.ok.fs
  intro f hfm
  simp only [Sess.toC, Sess.visible, Sess.visLen, hf] at hfm
  have hl : (nw ++ s0.flows).length - s.m.ctx.fsLen ≤ nw.length := by simp; omega
  rw [List.take_append_of_le_length hl] at hfm
  exact ho f (List.mem_of_mem_take hfm)

theorem ext0_fromC {bm : Mode} {s0 s : Sess} (h : Ext bm s0 s) (c' : CState) (hp : Pre (baseC s0 s) c') : Ext0 s0 (s.fromC c') := by
  obtain ⟨d, hd⟩ := hp.dict
  have hlen : (hidOf s.m.dict s0.m.dict.length).length = s0.m.dict.length := hidOf_length _ _ h.ext0.dictLen
  refine h.ext0.transport (by rw [h.ext0.code]; exact hp.code) (by rw [h.ext0.dmap]; exact hp.dmap) ⟨?_, ?_⟩ rfl ?_ rfl rfl rfl rfl ?_ rfl
    (log_same rfl) ⟨rfl, rfl, rfl⟩
  · show hidOf c'.dict _ = _
    rw [hd]; simp only [baseC]
    have := hidOf_append d (hidOf s.m.dict s0.m.dict.length)
    rw [hlen] at this; exact this
  · show _ ≤ c'.dict.length
    rw [hd]; simp only [baseC, List.length_append, hlen]; omega
  · show (s.m.heap ++ _).take _ = _
    rw [List.take_append_of_le_length h.ext0.heapLen]
  · show hidOf (c'.flows ++ s.hidden) _ = _
    rw [hidden_eq s h.fs, hidOf_append_ge _ _ _ (by rw [hidOf_length _ _ h.fs]; exact h.chain.ok.fs),
      hidOf_hidOf _ _ _ h.chain.ok.fs h.fs]

theorem ext_fromC {bm : Mode} {s0 s : Sess} (h : Ext bm s0 s) (c' : CState) (hp : Pre (baseC s0 s) c')
    (ho : Orgs s0.m.code.length c'.flows) : Ext bm s0 (s.fromC c') := by
  refine ⟨ext0_fromC h c' hp, h.chain, ?_, ⟨h.wf.ds, h.wf.rs, h.wf.ls, h.wf.ss⟩, ?_, h.dmapLen⟩
  · obtain ⟨nw, hf, hon⟩ := h.flows
    have hfs := h.chain.ok.fs
    refine ⟨c'.flows ++ nw.drop s.visLen, ?_, ?_⟩
    · show c'.flows ++ s.hidden = _
      simp only [Sess.hidden, hf, List.append_assoc]
      congr 1
      have hl : s.visLen ≤ nw.length := by simp [Sess.visLen, hf]; omega
      rw [List.drop_append_of_le_length hl]
    · intro f hfm
      rcases List.mem_append.mp hfm with a | a
      · exact ho f a
      · exact hon f (List.mem_of_mem_drop a)
  · show s.m.ctx.fsLen ≤ (c'.flows ++ s.hidden).length
    rw [hidden_eq s h.fs]; simp only [List.length_append, hidOf_length _ _ h.fs]; omega

theorem sok_ofC {bm : Mode} {s0 s : Sess} (h : Ext bm s0 s) (r : CRes CState) (hg : Good (baseC s0 s) r) : SOK bm s0 (s.ofC r) := by
  cases r with
  | ok c' => exact ext_fromC h c' hg.1 hg.2
  | err e c' => exact ext0_lastTok _ (ext0_fromC h c' hg)
  | unsupported u => trivial

/-! ### `const` -/

theorem Ext0.setDict {s0 s : Sess} (h : Ext0 s0 s) (d : List (String × Entry)) (cu : List (Nat × Cell))
    (hl : s0.m.dict.length ≤ d.length)
    (hu : ∃ us, cu = us ++ s0.constUndo ∧ us.foldl undoOld (hidOf d s0.m.dict.length) = s0.m.dict) :
    Ext0 s0 { s with m := { s.m with dict := d }, constUndo := cu } :=
  ⟨h.code, h.dmap, hl, hu, h.heap, h.ds, h.rs, h.loops, h.special, h.flows, h.nested, h.nolog, h.log, h.limits⟩

theorem sok_constDef {bm : Mode} {s0 s : Sess} (h : Ext bm s0 s) (name : String) : SOK bm s0 (s.constDef name) := by
  unfold Sess.constDef
  split
  · exact h.ext0
  · rename_i hmode
    have hm : s.m.ctx.mode = .metaEval := by simpa using hmode
    have hp := ext_popData h hm
    split
    · rename_i v m heq
      rw [heq] at hp
      simp only at hp
      obtain ⟨us, hcu, hfold⟩ := hp.ext0.undo
      have hdl := hp.ext0.dictLen
      simp only at hcu hfold hdl
      simp only []
      split
      · rename_i i hfind
        split
        · rename_i nm old hget
          -- an existing constant is replaced in place and its old value remembered
          obtain ⟨hi, hpi, _⟩ := List.findIdx?_eq_some_iff_getElem.mp hfind
          have hnm : nm = name := by
            rw [List.getElem?_eq_getElem hi] at hget
            have := Option.some.inj hget
            have h1 : (m.dict[i]).1 = nm := by rw [this]
            rw [← h1]; simpa using hpi
          subst hnm
          have hset : (m.dict.set i (nm, Entry.const v)).length = m.dict.length := by simp
          refine ⟨(hp.ext0.setDict _ _ (by simpa using hdl) ⟨(m.dict.length - 1 - i, old) :: us, by simp [hcu], ?_⟩), hp.chain, hp.flows,
            ⟨hp.wf.ds, hp.wf.rs, hp.wf.ls, hp.wf.ss⟩, hp.fs, hp.dmapLen⟩
          simp only [List.foldl_cons]
          suffices hh : undoOld (hidOf (m.dict.set i (nm, Entry.const v)) s0.m.dict.length) (m.dict.length - 1 - i, old)
              = hidOf m.dict s0.m.dict.length by rw [hh]; exact hfold
          have hol : (hidOf m.dict s0.m.dict.length).length = s0.m.dict.length := hidOf_length _ _ hdl
          by_cases hc : i < m.dict.length - s0.m.dict.length
          · rw [hidOf_set_lt _ _ _ _ hc]
            unfold undoOld
            simp only [hol]
            have : ¬ (m.dict.length - 1 - i < s0.m.dict.length) := by omega
            simp [this]
          · have hge : m.dict.length - s0.m.dict.length ≤ i := by omega
            rw [hidOf_set_ge _ _ _ _ hge]
            unfold undoOld
            simp only [List.length_set, hol]
            have hlt : m.dict.length - 1 - i < s0.m.dict.length := by omega
            have hidx : s0.m.dict.length - 1 - (m.dict.length - 1 - i) = i - (m.dict.length - s0.m.dict.length) := by omega
            simp only [hlt, if_true, hidx]
            have hj : i - (m.dict.length - s0.m.dict.length) < (hidOf m.dict s0.m.dict.length).length := by rw [hol]; omega
            rw [List.getElem?_set_self hj]
            simp only [List.set_set]
            have hgo : (hidOf m.dict s0.m.dict.length)[i - (m.dict.length - s0.m.dict.length)]? = some (nm, Entry.const old) := by
              simp only [hidOf, List.getElem?_drop]
              rw [← hget]; congr 1; omega
            rw [List.getElem?_eq_getElem hj] at hgo
            have hgo' := Option.some.inj hgo
            rw [← hgo', List.set_getElem_self]
        · exact hp.ext0
      · -- a new constant
        refine ⟨hp.ext0.setDict _ _ (by simp; omega) ⟨us, hcu, ?_⟩, hp.chain, hp.flows,
          ⟨hp.wf.ds, hp.wf.rs, hp.wf.ls, hp.wf.ss⟩, hp.fs, hp.dmapLen⟩
        rw [hidOf_cons _ _ _ hdl]; exact hfold
    · rename_i e m heq; rw [heq] at hp; exact hp.ext0
    · trivial

/-! ### closing a meta block -/

theorem hidOf_reverse (l : List α) (k : Nat) : hidOf l.reverse k = (l.take k).reverse := by
  simp only [hidOf, List.length_reverse]; rw [List.reverse_take]

theorem swapRemove_take (r : List α) (i k : Nat) (hk : k ≤ i) (hi : i < r.length) :
    (swapRemove r i).take k = r.take k ∧ k ≤ (swapRemove r i).length := by
  unfold swapRemove
  cases hl : r.getLast? with
  | none => simp at hl; subst hl; simp at hi
  | some l =>
    simp only
    split
    · rw [List.dropLast_eq_take, List.take_take]
      have : min k (r.length - 1) = k := by omega
      rw [this]; simp; omega
    · rw [List.dropLast_eq_take, List.take_take, List.length_set]
      have : min k (r.length - 1) = k := by omega
      rw [this, List.take_set_of_le hk]; simp; omega

theorem purgeLoop_take (f : Nat) : ∀ (i : Nat) (r : List (String × Entry)) (k : Nat), k ≤ i → k ≤ r.length →
    (purgeLoop f i r).take k = r.take k ∧ k ≤ (purgeLoop f i r).length := by
  induction f with
  | zero => intro i r k _ hl; exact ⟨rfl, hl⟩
  | succ f ih =>
    intro i r k hk hl
    simp only [purgeLoop]
    split
    · exact ih (i + 1) r k (by omega) hl
    · rename_i e hnc hget
      have hi : i < r.length := by
        rcases Nat.lt_or_ge i r.length with h | h
        · exact h
        · simp [List.getElem?_eq_none h] at hget
      obtain ⟨a, b⟩ := swapRemove_take r i k hk hi
      obtain ⟨c, d⟩ := ih i (swapRemove r i) k hk b
      exact ⟨by rw [c, a], d⟩
    · exact ⟨rfl, hl⟩

theorem purge_old (d : List (String × Entry)) (n k : Nat) (hk : k ≤ n) (hl : k ≤ d.length) :
    hidOf (purge d n) k = hidOf d k ∧ k ≤ (purge d n).length := by
  obtain ⟨a, b⟩ := purgeLoop_take d.length n d.reverse k hk (by simpa using hl)
  unfold purge
  refine ⟨?_, by simpa using b⟩
  rw [hidOf_reverse, a, ← hidOf_reverse, List.reverse_reverse]

/-- the invariant without the context chain (used while a block is being closed) -/
structure ExtL (s0 s : Sess) : Prop where
  ext0 : Ext0 s0 s
  ok : CtxOK s0 s.m.ctx
  flows : ∃ nw, s.flows = nw ++ s0.flows ∧ Orgs s0.m.code.length nw
  wf : WF s.m
  fs : s.m.ctx.fsLen ≤ s.flows.length
  dmapLen : s0.dmap.length = s0.m.code.length

theorem Ext.toL {bm : Mode} {s0 s : Sess} (h : Ext bm s0 s) : ExtL s0 s := ⟨h.ext0, h.chain.ok, h.flows, h.wf, h.fs, h.dmapLen⟩

theorem CtxOK.ofMarks {s0 : Sess} {c c' : Ctx} (o : CtxOK s0 c) (e : c'.marks = c.marks) : CtxOK s0 c' := by
  have hf : ∀ (f : Ctx → Nat), (∀ x : Ctx, f x = f x.marks) → f c' = f c := fun f hf => by rw [hf c', hf c, e]
  have hm : c'.mode = c.mode := by have := congrArg Ctx.mode e; simpa [Ctx.marks] using this
  exact ⟨by rw [hf Ctx.csLen (fun _ => rfl)]; exact o.cs, by rw [hf Ctx.fsLen (fun _ => rfl)]; exact o.fs,
     by rw [hf Ctx.diLen (fun _ => rfl)]; exact o.di, by rw [hf Ctx.rsLen (fun _ => rfl)]; exact o.rs,
     by rw [hf Ctx.lsLen (fun _ => rfl)]; exact o.ls, by rw [hf Ctx.ssPtr (fun _ => rfl)]; exact o.ss,
     fun h => by rw [hf Ctx.dsLen (fun _ => rfl)]; exact o.ds (hm ▸ h)⟩

theorem extL_sealed {s0 s : Sess} (h : ExtL s0 s) (hm : s.m.ctx.mode = .metaEval) (m' : Mach)
    (sl : Sealed s.m m') : ExtL s0 { s with m := m' } ∧ m'.ctx.marks = s.m.ctx.marks := by
  have hmarks : m'.ctx.marks = s.m.ctx.marks := by have := congrArg Hid.marks sl.hid; simpa [Core.hid, Mach.core] using this
  have hf : ∀ (f : Ctx → Nat), (∀ x : Ctx, f x = f x.marks) → f m'.ctx = f s.m.ctx := fun f hf => by rw [hf m'.ctx, hf s.m.ctx, hmarks]
  have e1 := hf Ctx.dsLen (fun _ => rfl); have e2 := hf Ctx.rsLen (fun _ => rfl)
  have e3 := hf Ctx.lsLen (fun _ => rfl); have e4 := hf Ctx.ssPtr (fun _ => rfl); have e5 := hf Ctx.fsLen (fun _ => rfl)
  have hds : hidOf m'.ds s.m.ctx.dsLen = hidOf s.m.ds s.m.ctx.dsLen := by
    have := congrArg Hid.ds sl.hid; simp only [Core.hid, Mach.core, e1] at this; exact this
  have hrs : hidOf m'.rs s.m.ctx.rsLen = hidOf s.m.rs s.m.ctx.rsLen := by
    have := congrArg Hid.rs sl.hid; simp only [Core.hid, Mach.core, e2] at this; exact this
  have hls : hidOf m'.loops s.m.ctx.lsLen = hidOf s.m.loops s.m.ctx.lsLen := by
    have := congrArg Hid.loops sl.hid; simp only [Core.hid, Mach.core, e3] at this; exact this
  have hss : hidOf m'.special s.m.ctx.ssPtr = hidOf s.m.special s.m.ctx.ssPtr := by
    have := congrArg Hid.special sl.hid; simp only [Core.hid, Mach.core, e4] at this; exact this
  have ok := h.ok
  have w' := sl.wf
  refine ⟨⟨h.ext0.transport (by rw [sl.codeMeta hm]) rfl ⟨by rw [sl.dict], by rw [sl.dict]; exact h.ext0.dictLen⟩ rfl
      (by rw [sl.heapMeta hm])
      (hidOf_congr _ hds (ok.ds hm) h.wf.ds (by rw [← e1]; exact w'.ds))
      (hidOf_congr _ hrs ok.rs h.wf.rs (by rw [← e2]; exact w'.rs))
      (hidOf_congr _ hls ok.ls h.wf.ls (by rw [← e3]; exact w'.ls))
      (hidOf_congr _ hss ok.ss h.wf.ss (by rw [← e4]; exact w'.ss))
      rfl rfl ⟨sl.nolog, sl.log⟩ sl.limits,
    ok.ofMarks hmarks, h.flows, w', by rw [e5]; exact h.fs, h.dmapLen⟩, hmarks⟩

theorem extL_emit {s0 s : Sess} (op : Op) (h : ExtL s0 s) : ExtL s0 (s.emit op) := by
  refine ⟨h.ext0.transport ?_ ?_ ⟨rfl, h.ext0.dictLen⟩ rfl rfl rfl rfl rfl rfl rfl rfl (log_same rfl) ⟨rfl, rfl, rfl⟩,
    h.ok, h.flows, ⟨h.wf.ds, h.wf.rs, h.wf.ls, h.wf.ss⟩, h.fs, h.dmapLen⟩
  · simp only [Sess.emit]; rw [List.take_append_of_le_length h.ext0.codeLen]
  · simp only [Sess.emit]; rw [List.take_append_of_le_length h.ext0.dmapLen]

def EmitOK (s0 s : Sess) : SRes → Prop
  | .ok s' => ExtL s0 s' ∧ s'.m.ctx = s.m.ctx ∧ s'.nested = s.nested
  | .err _ s' => Ext0 s0 s'
  | _ => True

/-- taking the top value off the block's own part of the stack (no reverse-log entry: bookkeeping of the build) -/
theorem extL_dropTop {s0 s : Sess} (h : ExtL s0 s) (hm : s.m.ctx.mode = .metaEval) {v : Cell} {rest : List Cell}
    (hd : s.m.ds = v :: rest) (hgt : s.m.ds.length > s.m.ctx.dsLen) :
    ExtL s0 { s with m := { s.m with ds := rest } } := by
  have hle : s0.m.ds.length ≤ rest.length := by
    have := h.ok.ds hm
    rw [hd] at hgt
    simp only [List.length_cons] at hgt
    omega
  refine ⟨h.ext0.transport rfl rfl ⟨rfl, h.ext0.dictLen⟩ rfl rfl ?_ rfl rfl rfl rfl rfl (log_same rfl) ⟨rfl, rfl, rfl⟩,
    h.ok, h.flows, ⟨?_, h.wf.rs, h.wf.ls, h.wf.ss⟩, h.fs, h.dmapLen⟩
  · show hidOf rest _ = hidOf s.m.ds _
    rw [hd, hidOf_cons _ _ _ hle]
  · show s.m.ctx.dsLen ≤ rest.length
    rw [hd] at hgt
    simp only [List.length_cons] at hgt
    omega

/-- the results are taken off the stack (never below the block's own part) and re-emitted as literals -/
theorem extL_emitResults (f : Nat) : ∀ {s0 s : Sess}, ExtL s0 s → s.m.ctx.mode = .metaEval →
    EmitOK s0 s (emitResults f s) := by
  induction f with
  | zero => intro s0 s h _; exact ⟨h, rfl, rfl⟩
  | succ f ih =>
    intro s0 s h hm
    simp only [emitResults]
    split
    · rename_i hgt
      split
      · rename_i v rest hd
        have hp := extL_dropTop h hm hd (by omega)
        have he := extL_emit (Mach.loadValueOp v) hp
        have := ih he hm
        revert this
        generalize emitResults f (({ s with m := { s.m with ds := rest } } : Sess).emit (Mach.loadValueOp v)) = r'
        intro this
        cases r' with
        | ok s' => exact ⟨this.1, this.2.1, this.2.2⟩
        | err e s' => exact this
        | panic p s' => trivial
        | unsupported u => trivial
        | timeout => trivial
      · exact ⟨h, rfl, rfl⟩
    · exact ⟨h, rfl, rfl⟩

theorem extL_setNested {s0 s : Sess} (h : ExtL s0 s) (l : List Ctx)
    (hl : hidOf l s0.nested.length = hidOf s.nested s0.nested.length) : ExtL s0 { s with nested := l } :=
  ⟨h.ext0.transport rfl rfl ⟨rfl, h.ext0.dictLen⟩ rfl rfl rfl rfl rfl rfl rfl hl (log_same rfl) ⟨rfl, rfl, rfl⟩,
   h.ok, h.flows, h.wf, h.fs, h.dmapLen⟩

/-- the purge at the end of a meta block: its code is dropped, its non-constant definitions are removed -/
theorem extL_purge {s0 s : Sess} (h : ExtL s0 s) :
    ExtL s0 { s with m := { s.m with code := s.m.code.take s.m.ctx.csLen, dict := purge s.m.dict s.m.ctx.diLen },
                     dmap := s.dmap.take s.m.ctx.csLen } := by
  obtain ⟨pa, pb⟩ := purge_old s.m.dict s.m.ctx.diLen s0.m.dict.length h.ok.di h.ext0.dictLen
  refine ⟨h.ext0.transport ?_ ?_ ⟨pa, pb⟩ rfl rfl rfl rfl rfl rfl rfl rfl (log_same rfl) ⟨rfl, rfl, rfl⟩,
    h.ok, h.flows, ⟨h.wf.ds, h.wf.rs, h.wf.ls, h.wf.ss⟩, h.fs, h.dmapLen⟩
  · show (s.m.code.take _).take _ = _
    rw [List.take_take]; congr 1; have := h.ok.cs; omega
  · show (s.dmap.take _).take _ = _
    rw [List.take_take]; congr 1; have := h.ok.cs; have := h.dmapLen; omega

/-- case analysis of `runS` -/
theorem runS_spec (s : Sess) (fuel : Nat) (P : SRes → Prop) (h1 : P .timeout) (h2 : ∀ u, P (.unsupported u))
    (h3 : ∀ o m', Mach.run nativeProg fuel s.m = some (o, m') → ∀ r,
      (r = .ok { s with m := m' } ∨ (∃ e, r = .err e { s with m := m' }) ∨ ∃ p, r = .panic p { s with m := m' }) → P r) :
    P (s.runS fuel) := by
  unfold Sess.runS
  split
  · exact h1
  · rename_i m' hr; exact h3 _ m' hr _ (Or.inl rfl)
  · rename_i e m' hr
    split
    · exact h2 _
    · exact h3 _ m' hr _ (Or.inr (Or.inl ⟨e, rfl⟩))
  · rename_i p m' hr
    split
    · exact h2 _
    · exact h3 _ m' hr _ (Or.inr (Or.inr ⟨p, rfl⟩))

theorem runS_cases (s : Sess) (fuel : Nat) :
    s.runS fuel = .timeout ∨ (∃ u, s.runS fuel = .unsupported u) ∨
    ∃ o m', Mach.run nativeProg fuel s.m = some (o, m') ∧
      (s.runS fuel = .ok { s with m := m' } ∨ (∃ e, s.runS fuel = .err e { s with m := m' }) ∨
        ∃ p, s.runS fuel = .panic p { s with m := m' }) := by
  generalize hg : s.runS fuel = r0
  revert hg
  refine runS_spec s fuel (fun r => r = r0 → _) ?_ ?_ ?_
  · intro h; left; exact h.symm
  · intro u h; right; left; exact ⟨u, h.symm⟩
  · intro o m' hr r hc h
    right; right
    refine ⟨o, m', hr, ?_⟩
    subst h
    exact hc

theorem sok_contextClose_meta {bm : Mode} {s0 s : Sess} (h : Ext bm s0 s)
    (hbm : bm ≠ .metaEval ∨ s.nested.length ≠ s0.nested.length + 1) (hm : s.m.ctx.mode = .metaEval) (fuel : Nat) :
    SOK bm s0 (s.contextClose fuel) := by
  have hch := h.chain
  have hL := h.toL
  unfold Sess.contextClose
  generalize hN : s.nested = l at hch
  cases hch with
  | base _ ok hb _ =>
    rcases hbm with hbm | hbm
    · exact absurd (hb ▸ hm) hbm
    · exact absurd (by rw [hN]; simp) hbm
  | inner prev _ rest hprev ok' hmeta le =>
    simp only [hm]
    have hL1 : ExtL s0 { s with nested := rest } :=
      extL_setNested hL rest (by rw [hN, hidOf_cons _ _ _ (by have := hprev.nested.2; omega)])
    rcases runS_cases { s with nested := rest } fuel with hc | ⟨u, hc⟩ | ⟨o, m', hr, hcase⟩
    · rw [hc]; trivial
    · rw [hc]; trivial
    · obtain ⟨hL2, hmk⟩ := extL_sealed hL1 hm m' (run_sealed nativeProg fuel s.m (o, m') h.wf hr)
      rcases hcase with hc | ⟨e, hc⟩ | ⟨p, hc⟩ <;> rw [hc]
      · have hm2 : m'.ctx.mode = .metaEval := by
          have := congrArg Ctx.mode hmk; simp only [Ctx.marks] at this; rw [this]; exact hm
        have hL3 := extL_purge hL2
        simp only
        -- the results, re-emitted or left where they are
        have key : ∀ (sb : Sess) (r : SRes), sb.m.ctx = m'.ctx → sb.nested = rest → EmitOK s0 sb r →
            SOK bm s0 (match r with
              | .ok s => .ok { s with m := { s.m with ctx := prev } }
              | r => r) := by
          intro sb r hsb1 hsb2 hr'
          cases r with
          | ok s4 =>
            obtain ⟨e4, hc4, hn4⟩ := hr'
            rw [hsb1] at hc4; rw [hsb2] at hn4
            have hf : ∀ (f : Ctx → Nat), (∀ x : Ctx, f x = f x.marks) → f s4.m.ctx = f s.m.ctx :=
              fun f hf => by rw [hc4, hf m'.ctx, hf s.m.ctx, hmk]
            have w4 := e4.wf
            refine ⟨e4.ext0.transport rfl rfl ⟨rfl, e4.ext0.dictLen⟩ rfl rfl rfl rfl rfl rfl rfl rfl (log_same rfl) ⟨rfl, rfl, rfl⟩,
              by show Chain s0 bm prev s4.nested; rw [hn4]; exact hprev, e4.flows, ?_, ?_, e4.dmapLen⟩
            · exact ⟨by have := w4.ds; rw [hf Ctx.dsLen (fun _ => rfl)] at this; exact Nat.le_trans le.ds this,
                by have := w4.rs; rw [hf Ctx.rsLen (fun _ => rfl)] at this; exact Nat.le_trans le.rs this,
                by have := w4.ls; rw [hf Ctx.lsLen (fun _ => rfl)] at this; exact Nat.le_trans le.ls this,
                by have := w4.ss; rw [hf Ctx.ssPtr (fun _ => rfl)] at this; exact Nat.le_trans le.ss this⟩
            · have := e4.fs; rw [hf Ctx.fsLen (fun _ => rfl)] at this; exact Nat.le_trans le.fs this
          | err e s4 => exact hr'
          | panic p s4 => trivial
          | unsupported u => trivial
          | timeout => trivial
        refine key { m := { m' with code := m'.code.take m'.ctx.csLen, dict := purge m'.dict m'.ctx.diLen },
                     dmap := s.dmap.take m'.ctx.csLen, flows := s.flows, nested := rest, constUndo := s.constUndo,
                     lastTok := s.lastTok } _ rfl rfl ?_
        split
        · exact extL_emitResults _ hL3 hm2
        · exact ⟨hL3, rfl, rfl⟩
      · exact hL2.ext0
      · trivial

theorem sok_nestedEnd {bm : Mode} {s0 s : Sess} (h : Ext bm s0 s)
    (hbm : bm ≠ .metaEval ∨ s.nested.length ≠ s0.nested.length + 1) (fuel : Nat) : SOK bm s0 (s.nestedEnd fuel) := by
  unfold Sess.nestedEnd
  split
  · exact h.ext0
  · rename_i hmode
    have hm : s.m.ctx.mode = .metaEval := by simpa using hmode
    split
    · split
      · exact h.ext0
      · trivial
    · exact sok_contextClose_meta h hbm hm fuel

/-! ### the token loop -/

theorem sok_bind {bm : Mode} {s0 : Sess} (r : SRes) (k : Sess → SRes) : SOK bm s0 r → (∀ s, Ext bm s0 s → SOK bm s0 (k s)) →
    SOK bm s0 (match r with
      | .ok s => k s
      | r => r) := by
  intro h hk
  cases r with
  | ok s => exact hk s h
  | err e s => exact h
  | panic p s => trivial
  | unsupported u => trivial
  | timeout => trivial

theorem sok_tokens {bm : Mode} (hbm : bm ≠ .metaEval) (fuel depth : Nat) (toks : List Tok) : ∀ (idx : Nat) (s0 s : Sess), Ext bm s0 s →
    SOK bm s0 (tokens fuel depth toks idx s) := by
  induction hn : toks.length using Nat.strongRecOn generalizing toks with
  | _ n ih =>
    intro idx s0 s h
    match toks, hn with
    | [], _ =>
      simp only [tokens]
      split
      · exact ext0_lastTok _ h.ext0
      · split
        · split
          · exact ext0_lastTok _ h.ext0
          · trivial
        · exact ext_lastTok _ h
    | .lit c :: rest, hn =>
      subst hn
      simp only [tokens]
      exact sok_bind _ _ (sok_andRun fuel (.ok _) (ext_emit _ (ext_lastTok idx h)))
        (fun s1 h1 => ih rest.length (by simp) rest rfl _ _ _ h1)
    | .word w :: rest, hn =>
      subst hn
      simp only [tokens]
      have hs := ext_lastTok idx h
      obtain ⟨hp, ho⟩ := pre_toC hs
      split
      · exact sok_bind _ _ (sok_andRun fuel (.ok _) (ext_emit _ hs)) (fun s1 h1 => ih rest.length (by simp) rest rfl _ _ _ h1)
      · split
        · rename_i nn hlk
          split
          · exact sok_bind _ _ (sok_andRun fuel (.ok _) (ext_contextOpen hs)) (fun s1 h1 => ih rest.length (by simp) rest rfl _ _ _ h1)
          · split
            · exact sok_bind _ _ (sok_andRun fuel _ (sok_nestedEnd hs (Or.inl hbm) fuel)) (fun s1 h1 => ih rest.length (by simp) rest rfl _ _ _ h1)
            · split
              · split
                · rename_i name rest'
                  refine sok_bind _ _ (sok_andRun fuel _ ?_)
                    (fun s1 h1 => ih rest'.length (by simp only [List.length_cons]; omega) rest' rfl _ _ _ h1)
                  have hs1 := ext_lastTok (idx + 1) h
                  obtain ⟨hp1, ho1⟩ := pre_toC hs1
                  split
                  · exact sok_constDef hs1 name
                  · split
                    · exact sok_ofC hs _ (late_good _ _ _ _ hp ho)
                    · exact sok_ofC hs1 _ (withName_good _ _ _ _ hp1 ho1)
                · exact hs.ext0
              · exact sok_bind _ _ (sok_andRun fuel _ (sok_ofC hs _ (immediate_good _ _ _ hp ho)))
                  (fun s1 h1 => ih rest.length (by simp) rest rfl _ _ _ h1)
        · exact sok_bind _ _ (sok_andRun fuel _ (sok_ofC hs _ (buildWord_good _ _ _ hp ho)))
            (fun s1 h1 => ih rest.length (by simp) rest rfl _ _ _ h1)

/-- the token loop only returns `ok` at the end of the input with every context it opened closed again -/
theorem tokens_ok_depth (fuel depth : Nat) (toks : List Tok) : ∀ (idx : Nat) (s s' : Sess),
    tokens fuel depth toks idx s = .ok s' → s'.nested.length = depth := by
  induction hn : toks.length using Nat.strongRecOn generalizing toks with
  | _ n ih =>
    intro idx s s' h
    have bind : ∀ (r : SRes) (k : Sess → SRes), (∀ s1, k s1 = .ok s' → s'.nested.length = depth) →
        (match r with
          | .ok s => k s
          | r => r) = .ok s' → s'.nested.length = depth := by
      intro r k hk hr
      cases r with
      | ok s1 => exact hk s1 hr
      | err e s1 => cases hr
      | panic p s1 => cases hr
      | unsupported u => cases hr
      | timeout => cases hr
    match toks, hn with
    | [], _ =>
      simp only [tokens] at h
      split at h
      · cases h
      · rename_i hd
        split at h
        · split at h <;> cases h
        · cases h; simpa using hd
    | .lit c :: rest, hn =>
      subst hn
      simp only [tokens] at h
      exact bind _ _ (fun s1 h1 => ih rest.length (by simp) rest rfl _ _ _ h1) h
    | .word w :: rest, hn =>
      subst hn
      simp only [tokens] at h
      split at h
      · exact bind _ _ (fun s1 h1 => ih rest.length (by simp) rest rfl _ _ _ h1) h
      · split at h
        · split at h
          · exact bind _ _ (fun s1 h1 => ih rest.length (by simp) rest rfl _ _ _ h1) h
          · split at h
            · exact bind _ _ (fun s1 h1 => ih rest.length (by simp) rest rfl _ _ _ h1) h
            · split at h
              · split at h
                · rename_i name rest'
                  exact bind _ _ (fun s1 h1 => ih rest'.length (by simp only [List.length_cons]; omega) rest' rfl _ _ _ h1) h
                · cases h
              · exact bind _ _ (fun s1 h1 => ih rest.length (by simp) rest rfl _ _ _ h1) h
        · exact bind _ _ (fun s1 h1 => ih rest.length (by simp) rest rfl _ _ _ h1) h

theorem sok_build1 {bm : Mode} {s0 s : Sess} (h : Ext bm s0 s) (hbm : bm ≠ .metaEval) (fuel : Nat) (toks : List Tok) : SOK bm s0 (s.build1 fuel toks) := by
  unfold Sess.build1
  exact sok_bind _ _ (sok_metaRun h fuel) (fun s1 h1 => sok_tokens hbm fuel _ toks 0 s0 s1 h1)

/-- when the build of a source succeeds, the context is the one the source was opened in -/
theorem build1_ok_base {s s2 : Sess} {mode : Mode} (fuel : Nat) (toks : List Tok) (hmode : mode ≠ .metaEval)
    (h : (s.contextOpen mode).build1 fuel toks = .ok s2) (e : Ext mode s s2) :
    s2.m.ctx.mode = mode ∧ s2.nested = s.m.ctx :: s.nested := by
  unfold Sess.build1 at h
  have hmr : (s.contextOpen mode).metaRun fuel = .ok (s.contextOpen mode) := by
    unfold Sess.metaRun
    have : ((s.contextOpen mode).m.ctx.mode == Mode.metaEval) = false := by
      simp only [Sess.contextOpen]; cases mode <;> simp_all
    simp [this]
  rw [hmr] at h
  simp only at h
  have hd := tokens_ok_depth fuel _ toks 0 _ _ h
  exact e.chain.base_of_len (by rw [hd]; simp [Sess.contextOpen])

/-- a session one can submit a source to -/
structure Idle (s : Sess) : Prop where
  wf : WF s.m
  fs : s.m.ctx.fsLen ≤ s.flows.length
  dmap : s.dmap.length = s.m.code.length

/-- opening the context of a new source -/
theorem ext_open {s : Sess} (i : Idle s) (mode : Mode) (hmode : mode ≠ .metaEval) : Ext mode s (s.contextOpen mode) := by
  refine ⟨⟨by simp [Sess.contextOpen], by simp [Sess.contextOpen], Nat.le_refl _, ⟨[], rfl, by simp [hidOf, Sess.contextOpen]⟩,
      by simp [Sess.contextOpen], hidOf_all _, hidOf_all _, hidOf_all _, hidOf_all _, hidOf_all _,
      by simp only [Sess.contextOpen]; rw [hidOf_cons _ _ _ (Nat.le_refl _)]; exact hidOf_all _,
      fun h => h, fun ℓ h => ⟨[], by simpa [Sess.contextOpen] using h⟩, ⟨rfl, rfl, rfl⟩⟩, ?_, ⟨[], rfl, by intro f hf; cases hf⟩, ?_, Nat.le_refl _, i.dmap⟩
  · exact .base _ ⟨Nat.le_refl _, Nat.le_refl _, Nat.le_refl _, Nat.le_refl _, Nat.le_refl _, Nat.le_refl _,
      fun h => absurd h hmode⟩ rfl
      ⟨rfl, rfl, rfl, rfl, rfl, rfl, rfl, fun h => by
        simp only [Sess.contextOpen] at h ⊢
        rw [if_neg (fun e => h e.symm)]⟩
  · simp only [Sess.contextOpen]
    refine ⟨?_, Nat.le_refl _, Nat.le_refl _, Nat.le_refl _⟩
    simp only; split
    · exact i.wf.ds
    · exact Nat.le_refl _

end Xeh.Session
