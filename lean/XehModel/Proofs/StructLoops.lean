/-
C01 helper: what structural evaluation does to the loop stack. Native words and straight-line opcodes never
push or pop a loop record (a `foreach` step may replace the *top* record); a counted loop pushes one record,
its iterations change only that record, and it pops it when it ends — normally or by `break`.
-/
import XehModel.Model.Structured
import XehModel.Proofs.StructSim

set_option linter.unusedVariables false
set_option linter.unusedSimpArgs false

namespace Xeh.Structured
open Xeh Xeh.Mach

/-- same depth, same records below the top one -/
def SameBelow (a b : List Loop) : Prop := a.length = b.length ∧ a.tail = b.tail

theorem SameBelow.refl (a : List Loop) : SameBelow a a := ⟨rfl, rfl⟩
theorem SameBelow.trans {a b c : List Loop} (h1 : SameBelow a b) (h2 : SameBelow b c) : SameBelow a c :=
  ⟨h1.1.trans h2.1, h1.2.trans h2.2⟩
theorem SameBelow.of_eq {a b : List Loop} (h : a = b) : SameBelow a b := h ▸ SameBelow.refl a

/-- a machine function that leaves the loop stack alone, whatever it returns -/
def KeepsLoops {α : Type} (F : Mach → R α) : Prop := ∀ m, SameBelow (F m).2.loops m.loops

theorem pushData_loops (c : Cell) : KeepsLoops (fun m => m.pushData c) := by
  intro m; simp only [pushData]; split <;> (try split) <;> exact SameBelow.refl _
theorem popData_loops : KeepsLoops Mach.popData := by
  intro m; simp only [popData]; split <;> (try split) <;> exact SameBelow.refl _
theorem topData_loops : KeepsLoops Mach.topData := by
  intro m; simp only [topData]; split <;> (try split) <;> exact SameBelow.refl _
theorem dupData_loops : KeepsLoops Mach.dupData := by
  intro m; simp only [dupData]
  have h1 := topData_loops m
  rcases ht : m.topData with ⟨o, m1⟩
  rw [ht] at h1
  cases o with
  | ok c => exact (pushData_loops c m1).trans h1
  | err e => exact h1
  | panic p => exact h1
theorem swapData_loops : KeepsLoops Mach.swapData := by
  intro m; simp only [swapData]; split <;> (try split) <;> exact SameBelow.refl _
theorem rotData_loops : KeepsLoops Mach.rotData := by
  intro m; simp only [rotData]; split <;> (try split) <;> exact SameBelow.refl _
theorem overData_loops : KeepsLoops Mach.overData := by
  intro m; simp only [overData]; split
  · split
    · exact pushData_loops _ _
    · exact SameBelow.refl _
  · exact SameBelow.refl _
theorem swapCellRef_loops (idx : Nat) (v : Cell) : KeepsLoops (fun m => m.swapCellRef idx v) := by
  intro m; simp only [swapCellRef]; split <;> (try split) <;> exact SameBelow.refl _
theorem popSpecial_loops (m : Mach) : SameBelow m.popSpecial.2.loops m.loops := by
  simp only [popSpecial]; split <;> (try split) <;> exact SameBelow.refl _
theorem setLoopItems_loops (c : Cell) : KeepsLoops (fun m => m.setLoopItems c) := by
  intro m; simp only [setLoopItems]
  split
  · rename_i l rest hl
    split
    · simp only [logStep]; rw [hl]; exact ⟨rfl, rfl⟩
    · exact SameBelow.refl _
  · exact SameBelow.refl _

/-- every native word keeps the loop stack (up to the top record) -/
theorem runProg_loops (p : Prog) : KeepsLoops (runProg p) := by
  induction p with
  | done => intro m; exact SameBelow.refl _
  | fail e => intro m; exact SameBelow.refl _
  | panic s => intro m; exact SameBelow.refl _
  | pop k ih =>
    intro m; simp only [runProg]
    have h1 := popData_loops m
    rcases hp : m.popData with ⟨o, m1⟩
    rw [hp] at h1
    cases o with
    | ok c => exact (ih c m1).trans h1
    | err e => exact h1
    | panic s => exact h1
  | push c k ih =>
    intro m; simp only [runProg]
    have h1 := pushData_loops c m
    simp only at h1
    rcases hp : m.pushData c with ⟨o, m1⟩
    rw [hp] at h1
    cases o with
    | ok u => exact (ih m1).trans h1
    | err e => exact h1
    | panic s => exact h1
  | top k ih =>
    intro m; simp only [runProg]
    have h1 := topData_loops m
    rcases hp : m.topData with ⟨o, m1⟩
    rw [hp] at h1
    cases o with
    | ok c => exact (ih c m1).trans h1
    | err e => exact h1
    | panic s => exact h1
  | dup k ih =>
    intro m; simp only [runProg]
    have h1 := dupData_loops m
    rcases hp : m.dupData with ⟨o, m1⟩
    rw [hp] at h1
    cases o with
    | ok u => exact (ih m1).trans h1
    | err e => exact h1
    | panic s => exact h1
  | swap k ih =>
    intro m; simp only [runProg]
    have h1 := swapData_loops m
    rcases hp : m.swapData with ⟨o, m1⟩
    rw [hp] at h1
    cases o with
    | ok u => exact (ih m1).trans h1
    | err e => exact h1
    | panic s => exact h1
  | rot k ih =>
    intro m; simp only [runProg]
    have h1 := rotData_loops m
    rcases hp : m.rotData with ⟨o, m1⟩
    rw [hp] at h1
    cases o with
    | ok u => exact (ih m1).trans h1
    | err e => exact h1
    | panic s => exact h1
  | over k ih =>
    intro m; simp only [runProg]
    have h1 := overData_loops m
    rcases hp : m.overData with ⟨o, m1⟩
    rw [hp] at h1
    cases o with
    | ok u => exact (ih m1).trans h1
    | err e => exact h1
    | panic s => exact h1
  | depth k ih => intro m; simp only [runProg]; exact ih _ m
  | rawLen k ih => intro m; simp only [runProg]; exact ih _ m
  | rawFrom ptr k ih => intro m; simp only [runProg]; exact ih _ m
  | getVar idx k ih =>
    intro m; simp only [runProg]
    split
    · exact ih _ m
    · exact SameBelow.refl _
    · exact SameBelow.refl _
  | setVar idx c k ih =>
    intro m; simp only [runProg]
    have h1 := swapCellRef_loops idx c m
    simp only at h1
    rcases hp : m.swapCellRef idx c with ⟨o, m1⟩
    rw [hp] at h1
    cases o with
    | ok u => exact (ih m1).trans h1
    | err e => exact h1
    | panic s => exact h1
  | print s k ih => intro m; simp only [runProg]; exact ih _
  | pushSpecial p k ih => intro m; simp only [runProg]; exact ih _
  | popSpecial k ih =>
    intro m; simp only [runProg]
    exact (ih _ _).trans (popSpecial_loops m)
  | loopAt n k ih => intro m; simp only [runProg]; exact ih _ m
  | setLoopItems c k ih =>
    intro m; simp only [runProg]
    have h1 := setLoopItems_loops c m
    simp only at h1
    rcases hp : m.setLoopItems c with ⟨o, m1⟩
    rw [hp] at h1
    cases o with
    | ok u => exact (ih m1).trans h1
    | err e => exact h1
    | panic s => exact h1
  | stop k ih => intro m; simp only [runProg]; exact ih _

/-! ### the evaluator's helpers -/

theorem popData_loopsEq (m : Mach) : m.popData.2.loops = m.loops := by
  simp only [popData]; split <;> (try split) <;> rfl

theorem doInit_loopsEq (m : Mach) : m.doInit.2.loops = m.loops := by
  simp only [doInit]
  have h1 := popData_loopsEq m
  rcases hp : m.popData with ⟨o, m1⟩
  rw [hp] at h1
  cases o with
  | ok a =>
    simp only []
    have h2 := popData_loopsEq m1
    rcases hp2 : m1.popData with ⟨o2, m2⟩
    rw [hp2] at h2
    cases o2 with
    | ok b =>
      simp only []
      cases a.toIsize <;> simp only [] <;> (try cases b.toIsize <;> simp only []) <;> rw [h2, h1]
    | err e => simp only []; rw [h2, h1]
    | panic p => simp only []; rw [h2, h1]
  | err e => exact h1
  | panic p => exact h1

theorem straightEff_loops (np : String → Option Prog) (o : Op) : KeepsLoops (fun m => straightEff np m o) := by
  intro m
  cases o <;> simp only [straightEff] <;> try exact SameBelow.refl _
  case native name =>
    cases hn : np name with
    | none => exact SameBelow.refl _
    | some p => exact runProg_loops p m
  case loadStr s => exact pushData_loops _ m
  case loadF64 x => exact pushData_loops _ m
  case loadI64 x => exact pushData_loops _ m
  case loadNil => exact pushData_loops _ m
  case loadCell c => exact pushData_loops _ m
  case load idx =>
    cases hc : m.cellRef idx with
    | ok c => exact pushData_loops _ m
    | err e => exact SameBelow.refl _
    | panic s => exact SameBelow.refl _
  case store idx =>
    have h1 := popData_loops m
    rcases hp : m.popData with ⟨o1, m1⟩
    rw [hp] at h1
    cases o1 with
    | ok v => exact (swapCellRef_loops idx v m1).trans h1
    | err e => exact h1
    | panic s => exact h1
  case initLocal idx =>
    have h1 := popData_loops m
    rcases hp : m.popData with ⟨o1, m1⟩
    rw [hp] at h1
    cases o1 with
    | ok v =>
      simp only []
      split
      · split
        · simp only [logStep]; exact h1
        · exact h1
      · exact h1
    | err e => exact h1
    | panic s => exact h1
  case loadLocal i =>
    cases ht : m.topFrame with
    | ok f =>
      simp only []
      cases hl : f.locals[i]? with
      | some v => exact pushData_loops _ m
      | none => exact SameBelow.refl _
    | err e => exact SameBelow.refl _
    | panic s => exact SameBelow.refl _

theorem popReturn_loopsEq (m : Mach) : m.popReturn.2.loops = m.loops := by
  simp only [popReturn]; split <;> (try split) <;> rfl

theorem popCond_loops : KeepsLoops popCond := by
  intro m
  unfold popCond
  have h1 := popData_loops m
  rcases hp : m.popData with ⟨o, m1⟩
  rw [hp] at h1
  cases o with
  | ok c => simp only []; cases c.condTrue <;> exact h1
  | err e => exact h1
  | panic s => exact h1

theorem caseTest_loops : KeepsLoops caseTest := by
  intro m
  unfold caseTest
  have h1 := popData_loops m
  rcases hp : m.popData with ⟨o, m1⟩
  rw [hp] at h1
  cases o with
  | ok a =>
    simp only []
    have h2 := topData_loops m1
    rcases ht : m1.topData with ⟨o2, m2⟩
    rw [ht] at h2
    cases o2 with
    | ok b =>
      simp only []
      split
      · have h3 := popData_loops m2
        rcases hp2 : m2.popData with ⟨o3, m3⟩
        rw [hp2] at h3
        cases o3 <;> exact (h3.trans h2).trans h1
      · exact h2.trans h1
    | err e => exact h2.trans h1
    | panic s => exact h2.trans h1
  | err e => exact h1
  | panic s => exact h1

theorem loopNext_loops : KeepsLoops Mach.loopNext := by
  intro m; simp only [loopNext]
  split
  · rename_i l rest hl
    split
    · simp only [logStep]; rw [hl]; exact ⟨rfl, rfl⟩
    · exact SameBelow.refl _
  · exact SameBelow.refl _

theorem popLoop_ok (m m' : Mach) (l : Loop) (h : m.popLoop = (.ok l, m')) : m'.loops = m.loops.tail := by
  simp only [popLoop] at h
  split at h
  · rename_i l0 rest hl
    split at h
    · cases h; simp [logStep, hl]
    · cases h
  · cases h

/-- the machine of a result that lets execution continue (completion, travelling break, finished arm) -/
def Res.good : Res → Option Mach
  | .ok m | .brk _ m | .exitCase m => some m
  | _ => none

/-- when the statement completes (or breaks out, or finishes an arm) the loop stack has the depth it had and the
    same records below the top -/
def KeepsR (m : Mach) (r : Res) : Prop := ∀ m', r.good = some m' → SameBelow m'.loops m.loops

theorem keepsR_ofR {α : Type} {m : Mach} (r : R α) (tok : Nat) (k : α → Mach → Res) (hr : SameBelow r.2.loops m.loops)
    (hk : ∀ a m1, r = (.ok a, m1) → KeepsR m1 (k a m1)) : KeepsR m (ofR r tok k) := by
  obtain ⟨o, m1⟩ := r
  cases o with
  | ok a => intro m' hm; exact (hk a m1 rfl m' hm).trans hr
  | err e => intro m' hm; cases hm
  | panic p => intro m' hm; cases hm

theorem KeepsR.trans_left {m m1 : Mach} {r : Res} (h1 : SameBelow m1.loops m.loops) (h2 : KeepsR m1 r) : KeepsR m r :=
  fun m' hm => (h2 m' hm).trans h1

theorem keepsR_bad {m : Mach} {r : Res} (h : r.good = none) : KeepsR m r := fun m' hm => by rw [h] at hm; cases hm

/-- statements keep the loop stack; the iterations of a counted loop end with its record popped -/
theorem loops_aux (np : String → Option Prog) (F : FunTab)
    (hFw : ∀ addr body ts, F addr = some (body, ts) → WFS body false false = true) : ∀ f,
    (∀ st m k r, WFS st k r = true → KeepsR m (evalS np F f st m)) ∧
    (∀ tl a m m', WFS a true false = true → doIter np F f tl a m = .ok m' → m'.loops = m.loops.tail) := by
  intro f
  induction f with
  | zero =>
    exact ⟨fun st m k r _ m' h => by simp [evalS, Res.good] at h, fun tl a m m' _ h => by simp [doIter] at h⟩
  | succ f ih =>
    obtain ⟨ihE, ihD⟩ := ih
    refine ⟨fun st m k r hw => ?_, fun tl a m m' hw hd => ?_⟩
    · cases st with
      | skip => simp only [evalS]; intro m' h; cases h; exact SameBelow.refl _
      | op t o =>
        simp only [evalS]
        exact keepsR_ofR _ _ _ (straightEff_loops np o m) (fun _ m1 _ m' h => by cases h; exact SameBelow.refl _)
      | seq a b =>
        simp only [WFS, Bool.and_eq_true] at hw
        simp only [evalS]
        have ha := ihE a m k r hw.1
        generalize evalS np F f a m = ra at ha ⊢
        cases ra with
        | ok m1 => exact KeepsR.trans_left (ha m1 rfl) (ihE b m1 k r hw.2)
        | err e t m1 => exact ha
        | panic p t m1 => exact ha
        | brk t m1 => exact ha
        | exitCase m1 => exact ha
        | timeout => exact ha
      | ifThen t a =>
        simp only [WFS] at hw
        simp only [evalS]
        exact keepsR_ofR _ _ _ (popCond_loops m) (fun c m1 _ => by
          split
          · exact ihE a m1 k false hw
          · intro m' h; cases h; exact SameBelow.refl _)
      | ifElse t te a b =>
        simp only [WFS, Bool.and_eq_true] at hw
        simp only [evalS]
        exact keepsR_ofR _ _ _ (popCond_loops m) (fun c m1 _ => by split; exact ihE a m1 k false hw.1; exact ihE b m1 k false hw.2)
      | untilLoop t a =>
        have hw0 := hw
        simp only [WFS] at hw
        simp only [evalS]
        have ha := ihE a m false false hw
        generalize evalS np F f a m = ra at ha ⊢
        cases ra with
        | ok m1 =>
          refine KeepsR.trans_left (ha m1 rfl) ?_
          exact keepsR_ofR _ _ _ (popCond_loops m1) (fun c m2 _ => by
            split
            · intro m' h; cases h; exact SameBelow.refl _
            · exact ihE _ m2 k r hw0)
        | err e t m1 => exact ha
        | panic p t m1 => exact ha
        | brk t m1 => exact ha
        | exitCase m1 => exact ha
        | timeout => exact ha
      | whileLoop tw tr c a =>
        have hw0 := hw
        simp only [WFS, Bool.and_eq_true] at hw
        simp only [evalS]
        have hc := ihE c m false false hw.1
        generalize evalS np F f c m = rc at hc ⊢
        cases rc with
        | ok m1 =>
          refine KeepsR.trans_left (hc m1 rfl) ?_
          refine keepsR_ofR _ _ _ (popCond_loops m1) (fun b m2 _ => ?_)
          split
          · have ha := ihE a m2 true false hw.2
            generalize evalS np F f a m2 = ra at ha ⊢
            cases ra with
            | ok m3 => exact KeepsR.trans_left (ha m3 rfl) (ihE _ m3 k r hw0)
            | brk t m3 => intro m' h; cases h; exact ha m3 rfl
            | err e t m3 => exact ha
            | panic p t m3 => exact ha
            | exitCase m3 => exact ha
            | timeout => exact ha
          · intro m' h; cases h; exact SameBelow.refl _
        | err e t m1 => exact hc
        | panic p t m1 => exact hc
        | brk t m1 => exact hc
        | exitCase m1 => exact hc
        | timeout => exact hc
      | repeatLoop tr a =>
        have hw0 := hw
        simp only [WFS] at hw
        simp only [evalS]
        have ha := ihE a m true false hw
        generalize evalS np F f a m = ra at ha ⊢
        cases ra with
        | ok m1 => exact KeepsR.trans_left (ha m1 rfl) (ihE _ m1 k r hw0)
        | brk t m1 => intro m' h; cases h; exact ha m1 rfl
        | err e t m1 => exact ha
        | panic p t m1 => exact ha
        | exitCase m1 => exact ha
        | timeout => exact ha
      | doLoop td tl a =>
        simp only [WFS] at hw
        simp only [evalS]
        refine keepsR_ofR _ _ _ (SameBelow.of_eq (doInit_loopsEq m)) (fun l m1 _ => ?_)
        split
        · -- the iterations run on the stack with the record pushed and end with it popped
          intro m' hm
          have hd1 := ihD tl a (m1.pushLoop l)
          have hnb := (no_brk_aux np F f).2 tl a (m1.pushLoop l)
          have hne := (no_exit_aux np F f).2 tl a (m1.pushLoop l) hw
          generalize doIter np F f tl a (m1.pushLoop l) = rd at hm hd1 hnb hne
          cases rd with
          | ok m2 =>
            cases hm
            have := hd1 m' hw rfl
            simp only [pushLoop, logStep, List.tail_cons] at this
            exact SameBelow.of_eq this
          | err e t m2 => cases hm
          | panic p t m2 => cases hm
          | brk t m2 => exact absurd rfl (hnb t m2)
          | exitCase m2 => exact absurd rfl (hne m2)
          | timeout => cases hm
        · intro m' h; cases h; exact SameBelow.refl _
      | brk t => simp only [evalS]; intro m' h; cases h; exact SameBelow.refl _
      | caseS a =>
        simp only [WFS] at hw
        simp only [evalS]
        have ha := ihE a m k true hw
        generalize evalS np F f a m = ra at ha ⊢
        cases ra with
        | exitCase m1 => intro m' h; cases h; exact ha m1 rfl
        | ok m1 => exact ha
        | err e t m1 => exact ha
        | panic p t m1 => exact ha
        | brk t m1 => exact ha
        | timeout => exact ha
      | arm tOf tEndof body =>
        simp only [WFS, Bool.and_eq_true] at hw
        simp only [evalS]
        refine keepsR_ofR _ _ _ (caseTest_loops m) (fun hit m1 _ => ?_)
        split
        · have hb := ihE body m1 k false hw.2
          generalize evalS np F f body m1 = rb at hb ⊢
          cases rb with
          | ok m2 => intro m' h; cases h; exact hb m2 rfl
          | err e t m2 => exact hb
          | panic p t m2 => exact hb
          | brk t m2 => exact hb
          | exitCase m2 => exact hb
          | timeout => exact hb
        · intro m' h; cases h; exact SameBelow.refl _
      | defn tc ts body => simp only [evalS]; intro m' h; cases h; exact SameBelow.refl _
      | call t addr ret =>
        simp only [evalS]
        split
        · rename_i body ts hFa
          have hb := ihE body (m.pushReturn { fnAddr := addr, returnTo := ret, locals := [] }) false false (hFw addr body ts hFa)
          generalize evalS np F f body (m.pushReturn { fnAddr := addr, returnTo := ret, locals := [] }) = rb at hb ⊢
          cases rb with
          | ok m2 =>
            simp only [ofR]
            have h2 := hb m2 rfl
            have h3 := popReturn_loopsEq m2
            rcases hp : m2.popReturn with ⟨o, m3⟩
            rw [hp] at h3
            cases o with
            | ok fr => simp only []; intro m' h; cases h; exact (SameBelow.of_eq h3).trans h2
            | err e => simp only []; intro m' h; cases h
            | panic p => simp only []; intro m' h; cases h
          | err e t m2 => intro m' h; cases h
          | panic p t m2 => intro m' h; cases h
          | brk t m2 => intro m' h; cases h
          | exitCase m2 => intro m' h; cases h
          | timeout => intro m' h; cases h
        · intro m' h; cases h
    · simp only [doIter] at hd
      have ha := ihE a m true false hw
      generalize evalS np F f a m = ra at ha hd
      cases ra with
      | ok m1 =>
        simp only [ofR] at hd
        have h1 := ha m1 rfl
        have h2 := loopNext_loops m1
        rcases hn : m1.loopNext with ⟨o, m2⟩
        rw [hn] at hd h2
        cases o with
        | ok more =>
          simp only at hd
          cases more with
          | true =>
            simp only [if_true] at hd
            rw [ihD tl a m2 m' hw hd, h2.2, h1.2]
          | false =>
            simp only [Bool.false_eq_true, if_false] at hd
            rcases hp : m2.popLoop with ⟨o2, m3⟩
            rw [hp] at hd
            cases o2 with
            | ok l =>
              simp only at hd; cases hd
              rw [popLoop_ok m2 m' l hp, h2.2, h1.2]
            | err e => cases hd
            | panic p => cases hd
        | err e => cases hd
        | panic p => cases hd
      | brk tb m1 =>
        simp only [ofR] at hd
        have h1 := ha m1 rfl
        rcases hp : m1.popLoop with ⟨o2, m3⟩
        rw [hp] at hd
        cases o2 with
        | ok l =>
          simp only at hd; cases hd
          rw [popLoop_ok m1 m' l hp, h1.2]
        | err e => cases hd
        | panic p => cases hd
      | err e t m1 => cases hd
      | panic p t m1 => cases hd
      | exitCase m1 => cases hd
      | timeout => cases hd

/-- a statement that completes leaves the loop stack as deep as it found it, with the same records below the top -/
theorem completion_keeps_loops (np : String → Option Prog) (F : FunTab)
    (hFw : ∀ addr body ts, F addr = some (body, ts) → WFS body false false = true) (f : Nat) (st : Stmt) (m m' : Mach) (k r : Bool)
    (hw : WFS st k r = true) (h : evalS np F f st m = .ok m') : SameBelow m'.loops m.loops :=
  (loops_aux np F hFw f).1 st m k r hw m' (by rw [h]; rfl)

/-- **a terminated counted loop leaves no loop index behind**: when `do … loop` completes — after any number of
    iterations, zero included, normally or by `break` — the loop stack is exactly the one before the loop -/
theorem counted_loop_leaves_no_index (np : String → Option Prog) (F : FunTab)
    (hFw : ∀ addr body ts, F addr = some (body, ts) → WFS body false false = true) (f : Nat) (td tl : Nat) (a : Stmt) (m m' : Mach)
    (hw : WFS a true false = true) (h : evalS np F f (.doLoop td tl a) m = .ok m') : m'.loops = m.loops := by
  cases f with
  | zero => simp [evalS] at h
  | succ f =>
    simp only [evalS, ofR] at h
    have h1 := doInit_loopsEq m
    rcases hd : m.doInit with ⟨o, m1⟩
    rw [hd] at h h1
    cases o with
    | ok l =>
      simp only at h h1
      split at h
      · have := (loops_aux np F hFw f).2 tl a (m1.pushLoop l) m' hw h
        simp only [pushLoop, logStep, List.tail_cons] at this
        rw [this, h1]
      · cases h; exact h1
    | err e => cases h
    | panic p => cases h

end Xeh.Structured
