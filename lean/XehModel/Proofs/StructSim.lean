/-
C01 helper: forward simulation between the structural evaluator `evalS` (Model/Structured.lean: no
instruction pointer, no bytecode) and the VM (`Mach.step`) running the code `compileS` emits.

Relation between the two machines: they agree after `normX` (everything but the reverse log, the
instruction meter and the instruction pointer); the VM runs without an instruction limit (with one, it may
stop earlier — that is C14's subject).
-/
import XehModel.Model.Structured
import XehModel.Proofs.VMSim2
import XehModel.Proofs.VMSeal
import XehModel.Props.C02

set_option linter.unusedVariables false
set_option linter.unusedSimpArgs false

namespace Xeh.Structured
open Xeh Xeh.Mach Xeh.Mach.NormX

/-- the two machines agree on everything a program can observe, except where the VM is in the code -/
def Rel (a b : Mach) : Prop := normX a = normX b

theorem Rel.refl (a : Mach) : Rel a a := rfl
theorem Rel.symm {a b : Mach} (h : Rel a b) : Rel b a := Eq.symm h
theorem Rel.trans {a b c : Mach} (h1 : Rel a b) (h2 : Rel b c) : Rel a c := Eq.trans h1 h2

theorem rel_setIp (m : Mach) (n : Nat) : Rel (m.setIp n) m := by
  cases m; simp [Rel, normX, setIp, logStep]
theorem rel_nextIp (m : Mach) : Rel m.nextIp m := rel_setIp m _
theorem rel_meter (m : Mach) (k : Nat) : Rel { m with meter := k } m := by
  cases m; simp [Rel, normX]

theorem Rel.insnLimit {a b : Mach} (h : Rel a b) : a.insnLimit = b.insnLimit := (ds_eq a b h).2.2.2.2.2.2.2.2.1
theorem Rel.code {a b : Mach} (h : Rel a b) : a.code = b.code := (ds_eq a b h).2.2.2.2.2.2.1

/-- the fragment `frag` sits at `pc` in the code, with its debug map -/
def CodeAt (code : List Op) (dmap : List Nat) (pc : Nat) (frag : List (Op × Nat)) : Prop :=
  ∀ i, (h : i < frag.length) → code[pc + i]? = some (frag[i].1) ∧ dmap[pc + i]? = some (frag[i].2)

theorem CodeAt.left {code dmap pc} {a b : List (Op × Nat)} (h : CodeAt code dmap pc (a ++ b)) : CodeAt code dmap pc a := by
  intro i hi
  have := h i (by simp; omega)
  simpa [List.getElem_append_left hi] using this

theorem CodeAt.right {code dmap pc} {a b : List (Op × Nat)} (h : CodeAt code dmap pc (a ++ b)) :
    CodeAt code dmap (pc + a.length) b := by
  intro i hi
  have := h (a.length + i) (by simp; omega)
  rw [List.getElem_append_right (by omega)] at this
  simpa [Nat.add_assoc] using this

theorem CodeAt.head {code dmap pc} {x : Op × Nat} {b : List (Op × Nat)} (h : CodeAt code dmap pc (x :: b)) :
    code[pc]? = some x.1 ∧ dmap[pc]? = some x.2 := by
  have := h 0 (by simp)
  simpa using this

theorem CodeAt.tail {code dmap pc} {x : Op × Nat} {b : List (Op × Nat)} (h : CodeAt code dmap pc (x :: b)) :
    CodeAt code dmap (pc + 1) b := by
  have := CodeAt.right (a := [x]) (b := b) (by simpa using h)
  simpa using this

/-! ### VM steps -/

theorem stepN_add (np : String → Option Prog) : ∀ (a b : Nat) (m m1 m2 : Mach),
    C02.stepN np a m = some m1 → C02.stepN np b m1 = some m2 → C02.stepN np (a + b) m = some m2 := by
  intro a
  induction a with
  | zero => intro b m m1 m2 h1 h2; simp [C02.stepN] at h1; subst h1; simpa using h2
  | succ a ih =>
    intro b m m1 m2 h1 h2
    rw [Nat.add_right_comm]
    simp only [C02.stepN] at h1 ⊢
    split at h1
    · rename_i m' hs; exact ih b m' m1 m2 h1 h2
    · cases h1

theorem stepN_one (np : String → Option Prog) (m m' : Mach) (h : step np m = (.ok (), m')) : C02.stepN np 1 m = some m' := by
  simp [C02.stepN, h]

/-- without an instruction limit, a step is: count it, execute the opcode at `ip` -/
theorem step_eq_exec (np : String → Option Prog) (m : Mach) (op : Op) (hl : m.insnLimit = none)
    (hop : m.code[m.ctx.ip]? = some op) (hnr : ∀ n, op ≠ .resolve n) :
    step np m = exec np { m with meter := m.meter + 1 } m.ctx.ip op := by
  unfold step meterIncrease
  simp only [hl, hop]

/-! ### the evaluator's helpers do not depend on ip, meter or log -/

local macro "sim_bind " f:term ", " ea:term ", " eb:term " with " ma:ident mb:ident h2:ident : tactic => `(tactic|
  (have hs := $f
   revert hs
   generalize $ea = ra
   generalize $eb = rb
   obtain ⟨oa, $ma:ident⟩ := ra
   obtain ⟨ob, $mb:ident⟩ := rb
   rintro ⟨h1, $h2:ident⟩
   simp only at h1 $h2:ident
   subst h1
   cases oa <;> try exact ⟨rfl, $h2⟩))

theorem popCond_sim (a b : Mach) (h : Rel a b) : SimR (popCond a) (popCond b) := by
  unfold popCond
  sim_bind popData_sim a b h, a.popData, b.popData with ma mb h2
  simp only
  split <;> exact ⟨rfl, h2⟩

theorem caseTest_sim (a b : Mach) (h : Rel a b) : SimR (caseTest a) (caseTest b) := by
  unfold caseTest
  sim_bind popData_sim a b h, a.popData, b.popData with ma mb h2
  simp only
  sim_bind topData_sim ma mb h2, ma.topData, mb.topData with ma2 mb2 h3
  simp only
  split
  · sim_bind popData_sim ma2 mb2 h3, ma2.popData, mb2.popData with ma3 mb3 h4
  · exact ⟨rfl, h3⟩

theorem straightEff_sim (np : String → Option Prog) (o : Op) (a b : Mach) (h : Rel a b) :
    SimR (straightEff np a o) (straightEff np b o) := by
  cases o <;> simp only [straightEff]
  case nop => exact ⟨rfl, h⟩
  case native name =>
    split
    · rename_i p _; exact runProg_sim p a b h
    · exact ⟨rfl, h⟩
  case loadStr s => exact pushData_sim _ a b h
  case loadF64 x => exact pushData_sim _ a b h
  case loadI64 x => exact pushData_sim _ a b h
  case loadNil => exact pushData_sim _ a b h
  case loadCell c => exact pushData_sim _ a b h
  case load idx =>
    rw [cellRef_sim idx a b h]
    split
    · exact pushData_sim _ a b h
    · exact ⟨rfl, h⟩
    · exact ⟨rfl, h⟩
  case store idx =>
    sim_bind popData_sim a b h, a.popData, b.popData with ma mb h2
    rename_i v
    exact swapCellRef_sim idx v ma mb h2
  all_goals exact ⟨rfl, h⟩

/-! ### what the control opcodes do, in the evaluator's vocabulary -/

theorem exec_straight (np : String → Option Prog) (m : Mach) (ip : Nat) (o : Op) (hs : straight o = true) :
    exec np m ip o = (match straightEff np m o with
      | (.ok (), m1) => (.ok (), m1.nextIp)
      | (.err e, m1) => (.err e, m1)
      | (.panic s, m1) => (.panic s, m1)) := by
  cases o <;> simp [straight] at hs <;> simp only [exec, straightEff] <;> try rfl
  case native name => cases hn : np name <;> simp only [hn] <;> rfl
  case load idx => cases hc : m.cellRef idx <;> simp only [hc] <;> rfl
  case store idx =>
    rcases hp : m.popData with ⟨o, m1⟩
    cases o <;> simp only [hp] <;> rfl

theorem exec_jumpIfNot (np : String → Option Prog) (m : Mach) (ip : Nat) (rel : Int) :
    exec np m ip (.jumpIfNot rel) = (match popCond m with
      | (.ok true, m1) => (.ok (), m1.nextIp)
      | (.ok false, m1) => (.ok (), m1.setIp (calcJump ip rel))
      | (.err e, m1) => (.err e, m1)
      | (.panic s, m1) => (.panic s, m1)) := by
  simp only [exec, popCond]
  rcases hp : m.popData with ⟨o, m1⟩
  cases o with
  | ok c =>
    simp only []
    cases hc : c.condTrue with
    | ok b => cases b <;> rfl
    | err e => rfl
    | panic s => rfl
  | err e => rfl
  | panic s => rfl

theorem exec_caseOf (np : String → Option Prog) (m : Mach) (ip : Nat) (rel : Int) :
    exec np m ip (.caseOf rel) = (match caseTest m with
      | (.ok true, m1) => (.ok (), m1.nextIp)
      | (.ok false, m1) => (.ok (), m1.setIp (calcJump ip rel))
      | (.err e, m1) => (.err e, m1)
      | (.panic s, m1) => (.panic s, m1)) := by
  simp only [exec, caseTest]
  rcases hp : m.popData with ⟨o, m1⟩
  cases o with
  | ok a =>
    simp only []
    rcases ht : m1.topData with ⟨o2, m2⟩
    cases o2 with
    | ok b =>
      simp only []
      by_cases hb : Cell.beq a b = true
      · simp only [hb, if_true]
        rcases hp2 : m2.popData with ⟨o3, m3⟩
        cases o3 <;> rfl
      · simp only [hb]; rfl
    | err e => rfl
    | panic s => rfl
  | err e => rfl
  | panic s => rfl

/-! ### the VM side of the simulation -/

/-- what holds of the VM all along: marks inside the stacks, no instruction limit, the code is `code` -/
structure VOK (code : List Op) (m : Mach) : Prop where
  wf : WF m
  lim : m.insnLimit = none
  code : m.code = code

theorem exec_keeps (np : String → Option Prog) (m : Mach) (op : Op) (w : WF m) :
    (exec np m m.ctx.ip op).2.code = m.code ∧ (exec np m m.ctx.ip op).2.insnLimit = m.insnLimit ∧ WF (exec np m m.ctx.ip op).2 := by
  have sh := exec_shape np m op w
  cases sh with
  | fail seg mp h e ne => rw [e]; exact ⟨h.fr.code, h.fr.insnLimit, h.wf w⟩
  | done seg mp n h e => rw [e]; exact ⟨h.fr.code, h.fr.insnLimit, (setIp_sealed mp n (h.wf w)).wf⟩

/-- one VM step on an opcode of the fragment -/
theorem vok_step (np : String → Option Prog) {code : List Op} {m : Mach} (v : VOK code m) (op : Op)
    (hop : code[m.ctx.ip]? = some op) (hnr : ∀ n, op ≠ .resolve n) :
    step np m = exec np { m with meter := m.meter + 1 } m.ctx.ip op ∧ VOK code (step np m).2 := by
  have he := step_eq_exec np m op v.lim (by rw [v.code]; exact hop) hnr
  have w1 : WF ({ m with meter := m.meter + 1 } : Mach) := ⟨v.wf.ds, v.wf.rs, v.wf.ls, v.wf.ss⟩
  obtain ⟨k1, k2, k3⟩ := exec_keeps np { m with meter := m.meter + 1 } op w1
  refine ⟨he, ?_⟩
  rw [he]
  exact ⟨k3, by rw [k2]; exact v.lim, by rw [k1]; exact v.code⟩

/-- the VM catches up with the evaluator: after some steps it stands at `ip'`, in a state the evaluator's
    machine `ms'` agrees with -/
def Catch (np : String → Option Prog) (code : List Op) (mv : Mach) (ip' : Nat) (ms' : Mach) : Prop :=
  ∃ n mv', C02.stepN np n mv = some mv' ∧ mv'.ctx.ip = ip' ∧ Rel mv' ms' ∧ VOK code mv'

/-- the VM fails where the evaluator fails: after some steps the next instruction — the one the debug map
    attributes to token `tok` — has the same outcome and leaves an agreeing machine -/
def Fails (np : String → Option Prog) (dmap : List Nat) (mv : Mach) (o : Outcome Unit) (tok : Nat) (ms' : Mach) : Prop :=
  ∃ n mv' mv'', C02.stepN np n mv = some mv' ∧ step np mv' = (o, mv'') ∧ o ≠ .ok () ∧ Rel mv'' ms' ∧
    dmap[mv'.ctx.ip]? = some tok

theorem Catch.refl (np : String → Option Prog) {code : List Op} {mv ms : Mach} (v : VOK code mv) (h : Rel mv ms) :
    Catch np code mv mv.ctx.ip ms := ⟨0, mv, rfl, rfl, h, v⟩

theorem Catch.trans {np : String → Option Prog} {code : List Op} {mv : Mach} {ip1 ip2 : Nat} {ms1 ms2 : Mach}
    (h1 : Catch np code mv ip1 ms1)
    (h2 : ∀ mv1, mv1.ctx.ip = ip1 → Rel mv1 ms1 → VOK code mv1 → Catch np code mv1 ip2 ms2) :
    Catch np code mv ip2 ms2 := by
  obtain ⟨n1, mv1, s1, e1, r1, v1⟩ := h1
  obtain ⟨n2, mv2, s2, e2, r2, v2⟩ := h2 mv1 e1 r1 v1
  exact ⟨n1 + n2, mv2, stepN_add np n1 n2 mv mv1 mv2 s1 s2, e2, r2, v2⟩

theorem Catch.fails {np : String → Option Prog} {code : List Op} {dmap : List Nat} {mv : Mach} {ip1 : Nat} {ms1 ms2 : Mach}
    {o : Outcome Unit} {tok : Nat} (h1 : Catch np code mv ip1 ms1)
    (h2 : ∀ mv1, mv1.ctx.ip = ip1 → Rel mv1 ms1 → VOK code mv1 → Fails np dmap mv1 o tok ms2) :
    Fails np dmap mv o tok ms2 := by
  obtain ⟨n1, mv1, s1, e1, r1, v1⟩ := h1
  obtain ⟨n2, mv2, mv3, s2, hs, hne, r2, hd⟩ := h2 mv1 e1 r1 v1
  exact ⟨n1 + n2, mv2, mv3, stepN_add np n1 n2 mv mv1 mv2 s1 s2, hs, hne, r2, hd⟩

theorem calcJump_fwd (ip n : Nat) (h : ip + n < 2^64) : calcJump ip (n : Int) = ip + n := by
  unfold calcJump
  have : ((ip : Int) + (n : Int)) % 2^64 = ((ip + n : Nat) : Int) := by
    rw [Int.emod_eq_of_lt (by omega) (by omega)]; omega
  rw [this]; omega

theorem calcJump_back (ip k : Nat) (h : k ≤ ip) (h2 : ip < 2^64) : calcJump ip (-(k : Int)) = ip - k := by
  unfold calcJump
  have : ((ip : Int) + -(k : Int)) % 2^64 = ((ip - k : Nat) : Int) := by
    rw [Int.emod_eq_of_lt (by omega) (by omega)]; omega
  rw [this]; omega

/-! ### the helpers leave the context alone -/

theorem popCond_ctx (m : Mach) : (popCond m).2.ctx = m.ctx := by
  obtain ⟨seg, r⟩ := popData_rev m
  unfold popCond
  rcases hp : m.popData with ⟨o, m1⟩
  rw [hp] at r
  cases o with
  | ok c => simp only []; cases c.condTrue <;> exact r.ctx
  | err e => exact r.ctx
  | panic s => exact r.ctx

theorem caseTest_ctx (m : Mach) : (caseTest m).2.ctx = m.ctx := by
  obtain ⟨seg, r⟩ := popData_rev m
  unfold caseTest
  rcases hp : m.popData with ⟨o, m1⟩
  rw [hp] at r
  cases o with
  | ok a =>
    simp only []
    have hs := topData_same m1
    rcases ht : m1.topData with ⟨o2, m2⟩
    rw [ht] at hs; simp only at hs; subst hs
    cases o2 with
    | ok b =>
      simp only []
      split
      · obtain ⟨seg2, r2⟩ := popData_rev m2
        rcases hp2 : m2.popData with ⟨o3, m3⟩
        rw [hp2] at r2
        cases o3 <;> simp only [] <;> rw [r2.ctx, r.ctx]
      · exact r.ctx
    | err e => exact r.ctx
    | panic s => exact r.ctx
  | err e => exact r.ctx
  | panic s => exact r.ctx

theorem straightEff_ctx (np : String → Option Prog) (m : Mach) (o : Op) (w : WF m) : (straightEff np m o).2.ctx = m.ctx := by
  cases o <;> simp only [straightEff] <;> try rfl
  case native name =>
    cases hn : np name with
    | none => rfl
    | some p => obtain ⟨seg, r⟩ := runProg_rev p m w; exact r.ctx
  case loadStr s => obtain ⟨seg, r⟩ := pushData_rev m (.str s) w; exact r.ctx
  case loadF64 x => obtain ⟨seg, r⟩ := pushData_rev m (.real x) w; exact r.ctx
  case loadI64 x => obtain ⟨seg, r⟩ := pushData_rev m (.int x) w; exact r.ctx
  case loadNil => obtain ⟨seg, r⟩ := pushData_rev m .nil w; exact r.ctx
  case loadCell c => obtain ⟨seg, r⟩ := pushData_rev m c w; exact r.ctx
  case load idx =>
    cases hc : m.cellRef idx with
    | ok c => obtain ⟨seg, r⟩ := pushData_rev m c w; exact r.ctx
    | err e => rfl
    | panic s => rfl
  case store idx =>
    obtain ⟨seg, r⟩ := popData_rev m
    rcases hp : m.popData with ⟨o1, m1⟩
    rw [hp] at r
    cases o1 with
    | ok v =>
      obtain ⟨seg2, r2⟩ := swapCellRef_rev m1 idx v
      simp only []; rw [r2.ctx, r.ctx]
    | err e => exact r.ctx
    | panic s => exact r.ctx

/-! ### one instruction of the VM against one action of the evaluator -/

section one
variable (np : String → Option Prog) {code : List Op} {dmap : List Nat}

/-- the machine a step starts executing on agrees with the evaluator's -/
theorem rel_bump {mv ms : Mach} (h : Rel mv ms) : Rel ({ mv with meter := mv.meter + 1 } : Mach) ms :=
  (rel_meter mv _).trans h

theorem one_straight {mv ms : Mach} {pc t : Nat} {o : Op} (v : VOK code mv) (hr : Rel mv ms) (hip : mv.ctx.ip = pc)
    (hop : code[pc]? = some o) (hd : dmap[pc]? = some t) (hs : straight o = true) :
    match straightEff np ms o with
    | (.ok (), ms1) => Catch np code mv (pc + 1) ms1
    | (.err e, ms1) => Fails np dmap mv (.err e) t ms1
    | (.panic p, ms1) => Fails np dmap mv (.panic p) t ms1 := by
  have hnr : ∀ n, o ≠ .resolve n := by intro n e; subst e; simp [straight] at hs
  obtain ⟨he, v2⟩ := vok_step np v o (by rw [hip]; exact hop) hnr
  have w1 : WF ({ mv with meter := mv.meter + 1 } : Mach) := ⟨v.wf.ds, v.wf.rs, v.wf.ls, v.wf.ss⟩
  have hc := straightEff_ctx np _ o w1
  have hsim := straightEff_sim np o _ ms (rel_bump hr)
  rw [exec_straight np _ _ o hs] at he
  generalize straightEff np { mv with meter := mv.meter + 1 } o = ra at hsim hc he
  generalize straightEff np ms o = rb at hsim ⊢
  obtain ⟨oa, ma⟩ := ra
  obtain ⟨ob, mb⟩ := rb
  obtain ⟨h1, h2⟩ := hsim
  simp only at h1 h2 hc
  subst h1
  cases oa with
  | ok u =>
    simp only at he ⊢
    rw [he] at v2
    exact ⟨1, ma.nextIp, stepN_one np _ _ he, by simp [nextIp, setIp, logStep, hc, hip], (rel_nextIp ma).trans h2, v2⟩
  | err e =>
    simp only at he ⊢
    exact ⟨0, mv, _, rfl, he, by simp, h2, by rw [hip]; exact hd⟩
  | panic p =>
    simp only at he ⊢
    exact ⟨0, mv, _, rfl, he, by simp, h2, by rw [hip]; exact hd⟩

/-- `JumpIfNot rel` against `popCond` -/
theorem one_cond {mv ms : Mach} {pc t : Nat} {rel : Int} (v : VOK code mv) (hr : Rel mv ms) (hip : mv.ctx.ip = pc)
    (hop : code[pc]? = some (.jumpIfNot rel)) (hd : dmap[pc]? = some t) :
    match popCond ms with
    | (.ok true, ms1) => Catch np code mv (pc + 1) ms1
    | (.ok false, ms1) => Catch np code mv (calcJump pc rel) ms1
    | (.err e, ms1) => Fails np dmap mv (.err e) t ms1
    | (.panic p, ms1) => Fails np dmap mv (.panic p) t ms1 := by
  obtain ⟨he, v2⟩ := vok_step np v (.jumpIfNot rel) (by rw [hip]; exact hop) (by intro n e; cases e)
  have hc := popCond_ctx ({ mv with meter := mv.meter + 1 } : Mach)
  have hsim := popCond_sim _ ms (rel_bump hr)
  rw [exec_jumpIfNot] at he
  generalize popCond { mv with meter := mv.meter + 1 } = ra at hsim hc he
  generalize popCond ms = rb at hsim ⊢
  obtain ⟨oa, ma⟩ := ra
  obtain ⟨ob, mb⟩ := rb
  obtain ⟨h1, h2⟩ := hsim
  simp only at h1 h2 hc
  subst h1
  cases oa with
  | ok b =>
    cases b with
    | true =>
      simp only at he ⊢
      rw [he] at v2
      exact ⟨1, ma.nextIp, stepN_one np _ _ he, by simp [nextIp, setIp, logStep, hc, hip], (rel_nextIp ma).trans h2, v2⟩
    | false =>
      simp only at he ⊢
      rw [he] at v2
      exact ⟨1, _, stepN_one np _ _ he, by simp [setIp, logStep, hip], (rel_setIp ma _).trans h2, v2⟩
  | err e =>
    simp only at he ⊢
    exact ⟨0, mv, _, rfl, he, by simp, h2, by rw [hip]; exact hd⟩
  | panic p =>
    simp only at he ⊢
    exact ⟨0, mv, _, rfl, he, by simp, h2, by rw [hip]; exact hd⟩

/-- `CaseOf rel` against `caseTest` -/
theorem one_case {mv ms : Mach} {pc t : Nat} {rel : Int} (v : VOK code mv) (hr : Rel mv ms) (hip : mv.ctx.ip = pc)
    (hop : code[pc]? = some (.caseOf rel)) (hd : dmap[pc]? = some t) :
    match caseTest ms with
    | (.ok true, ms1) => Catch np code mv (pc + 1) ms1
    | (.ok false, ms1) => Catch np code mv (calcJump pc rel) ms1
    | (.err e, ms1) => Fails np dmap mv (.err e) t ms1
    | (.panic p, ms1) => Fails np dmap mv (.panic p) t ms1 := by
  obtain ⟨he, v2⟩ := vok_step np v (.caseOf rel) (by rw [hip]; exact hop) (by intro n e; cases e)
  have hc := caseTest_ctx ({ mv with meter := mv.meter + 1 } : Mach)
  have hsim := caseTest_sim _ ms (rel_bump hr)
  rw [exec_caseOf] at he
  generalize caseTest { mv with meter := mv.meter + 1 } = ra at hsim hc he
  generalize caseTest ms = rb at hsim ⊢
  obtain ⟨oa, ma⟩ := ra
  obtain ⟨ob, mb⟩ := rb
  obtain ⟨h1, h2⟩ := hsim
  simp only at h1 h2 hc
  subst h1
  cases oa with
  | ok b =>
    cases b with
    | true =>
      simp only at he ⊢
      rw [he] at v2
      exact ⟨1, ma.nextIp, stepN_one np _ _ he, by simp [nextIp, setIp, logStep, hc, hip], (rel_nextIp ma).trans h2, v2⟩
    | false =>
      simp only at he ⊢
      rw [he] at v2
      exact ⟨1, _, stepN_one np _ _ he, by simp [setIp, logStep, hip], (rel_setIp ma _).trans h2, v2⟩
  | err e =>
    simp only at he ⊢
    exact ⟨0, mv, _, rfl, he, by simp, h2, by rw [hip]; exact hd⟩
  | panic p =>
    simp only at he ⊢
    exact ⟨0, mv, _, rfl, he, by simp, h2, by rw [hip]; exact hd⟩

/-- an unconditional `Jump rel` -/
theorem one_jump {mv ms : Mach} {pc : Nat} {rel : Int} (v : VOK code mv) (hr : Rel mv ms) (hip : mv.ctx.ip = pc)
    (hop : code[pc]? = some (.jump rel)) : Catch np code mv (calcJump pc rel) ms := by
  obtain ⟨he, v2⟩ := vok_step np v (.jump rel) (by rw [hip]; exact hop) (by intro n e; cases e)
  simp only [exec] at he
  rw [he] at v2
  exact ⟨1, _, stepN_one np _ _ he, by simp [setIp, logStep, hip], (rel_setIp _ _).trans (rel_bump hr), v2⟩

/-- `Do rel` against `doInit` -/
theorem one_do {mv ms : Mach} {pc t : Nat} {rel : Int} (v : VOK code mv) (hr : Rel mv ms) (hip : mv.ctx.ip = pc)
    (hop : code[pc]? = some (.doOp rel)) (hd : dmap[pc]? = some t) :
    match ms.doInit with
    | (.ok l, ms1) => if l.start < l.stop then Catch np code mv (pc + 1) (ms1.pushLoop l) else Catch np code mv (calcJump pc rel) ms1
    | (.err e, ms1) => Fails np dmap mv (.err e) t ms1
    | (.panic p, ms1) => Fails np dmap mv (.panic p) t ms1 := by
  obtain ⟨he, v2⟩ := vok_step np v (.doOp rel) (by rw [hip]; exact hop) (by intro n e; cases e)
  have hc : (({ mv with meter := mv.meter + 1 } : Mach).doInit).2.ctx = mv.ctx := by
    obtain ⟨seg, r⟩ := doInit_rev ({ mv with meter := mv.meter + 1 } : Mach); exact r.ctx
  have hsim := doInit_sim _ ms (rel_bump hr)
  simp only [exec] at he
  generalize Mach.doInit { mv with meter := mv.meter + 1 } = ra at hsim hc he
  generalize ms.doInit = rb at hsim ⊢
  obtain ⟨oa, ma⟩ := ra
  obtain ⟨ob, mb⟩ := rb
  obtain ⟨h1, h2⟩ := hsim
  simp only at h1 h2 hc
  subst h1
  cases oa with
  | ok l =>
    simp only at he ⊢
    by_cases hl : l.start < l.stop
    · simp only [hl, if_true] at he ⊢
      rw [he] at v2
      exact ⟨1, _, stepN_one np _ _ he, by simp [nextIp, setIp, logStep, pushLoop, hc, hip],
        (rel_nextIp _).trans (pushLoop_sim l ma mb h2), v2⟩
    · simp only [hl, if_false] at he ⊢
      rw [he] at v2
      exact ⟨1, _, stepN_one np _ _ he, by simp [setIp, logStep, hip], (rel_setIp ma _).trans h2, v2⟩
  | err e =>
    simp only at he ⊢
    exact ⟨0, mv, _, rfl, he, by simp, h2, by rw [hip]; exact hd⟩
  | panic p =>
    simp only at he ⊢
    exact ⟨0, mv, _, rfl, he, by simp, h2, by rw [hip]; exact hd⟩

/-- `Break rel` against `popLoop` -/
theorem one_break {mv ms : Mach} {pc t : Nat} {rel : Int} (v : VOK code mv) (hr : Rel mv ms) (hip : mv.ctx.ip = pc)
    (hop : code[pc]? = some (.breakOp rel)) (hd : dmap[pc]? = some t) :
    match ms.popLoop with
    | (.ok _, ms1) => Catch np code mv (calcJump pc rel) ms1
    | (.err e, ms1) => Fails np dmap mv (.err e) t ms1
    | (.panic p, ms1) => Fails np dmap mv (.panic p) t ms1 := by
  obtain ⟨he, v2⟩ := vok_step np v (.breakOp rel) (by rw [hip]; exact hop) (by intro n e; cases e)
  have hsim := popLoop_sim _ ms (rel_bump hr)
  simp only [exec] at he
  generalize Mach.popLoop { mv with meter := mv.meter + 1 } = ra at hsim he
  generalize ms.popLoop = rb at hsim ⊢
  obtain ⟨oa, ma⟩ := ra
  obtain ⟨ob, mb⟩ := rb
  obtain ⟨h1, h2⟩ := hsim
  simp only at h1 h2
  subst h1
  cases oa with
  | ok l =>
    simp only at he ⊢
    rw [he] at v2
    exact ⟨1, _, stepN_one np _ _ he, by simp [setIp, logStep, hip], (rel_setIp ma _).trans h2, v2⟩
  | err e =>
    simp only at he ⊢
    exact ⟨0, mv, _, rfl, he, by simp, h2, by rw [hip]; exact hd⟩
  | panic p =>
    simp only at he ⊢
    exact ⟨0, mv, _, rfl, he, by simp, h2, by rw [hip]; exact hd⟩

/-- `Loop rel` against `loopNext` (and `popLoop` when the range is exhausted) -/
theorem one_loop {mv ms : Mach} {pc t : Nat} {rel : Int} (v : VOK code mv) (hr : Rel mv ms) (hip : mv.ctx.ip = pc)
    (hop : code[pc]? = some (.loopOp rel)) (hd : dmap[pc]? = some t) :
    match ms.loopNext with
    | (.ok true, ms1) => Catch np code mv (calcJump pc rel) ms1
    | (.ok false, ms1) =>
      (match ms1.popLoop with
       | (.ok _, ms2) => Catch np code mv (pc + 1) ms2
       | (.err e, ms2) => Fails np dmap mv (.err e) t ms2
       | (.panic p, ms2) => Fails np dmap mv (.panic p) t ms2)
    | (.err e, ms1) => Fails np dmap mv (.err e) t ms1
    | (.panic p, ms1) => Fails np dmap mv (.panic p) t ms1 := by
  obtain ⟨he, v2⟩ := vok_step np v (.loopOp rel) (by rw [hip]; exact hop) (by intro n e; cases e)
  have hc : (({ mv with meter := mv.meter + 1 } : Mach).loopNext).2.ctx = mv.ctx := by
    obtain ⟨seg, r⟩ := loopNext_rev ({ mv with meter := mv.meter + 1 } : Mach); exact r.ctx
  have hsim := loopNext_sim _ ms (rel_bump hr)
  simp only [exec] at he
  generalize Mach.loopNext { mv with meter := mv.meter + 1 } = ra at hsim hc he
  generalize ms.loopNext = rb at hsim ⊢
  obtain ⟨oa, ma⟩ := ra
  obtain ⟨ob, mb⟩ := rb
  obtain ⟨h1, h2⟩ := hsim
  simp only at h1 h2 hc
  subst h1
  cases oa with
  | ok more =>
    cases more with
    | true =>
      simp only at he ⊢
      rw [he] at v2
      exact ⟨1, _, stepN_one np _ _ he, by simp [setIp, logStep, hip], (rel_setIp ma _).trans h2, v2⟩
    | false =>
      simp only at he ⊢
      have hc2 : (ma.popLoop).2.ctx = ma.ctx := by obtain ⟨seg, r⟩ := popLoop_rev ma; exact r.ctx
      have hsim2 := popLoop_sim ma mb h2
      generalize ma.popLoop = ra2 at hsim2 hc2 he
      generalize mb.popLoop = rb2 at hsim2 ⊢
      obtain ⟨oa2, ma2⟩ := ra2
      obtain ⟨ob2, mb2⟩ := rb2
      obtain ⟨g1, g2⟩ := hsim2
      simp only at g1 g2 hc2
      subst g1
      cases oa2 with
      | ok l =>
        simp only at he ⊢
        rw [he] at v2
        exact ⟨1, _, stepN_one np _ _ he, by simp [nextIp, setIp, logStep, hc2, hc, hip], (rel_nextIp ma2).trans g2, v2⟩
      | err e =>
        simp only at he ⊢
        exact ⟨0, mv, _, rfl, he, by simp, g2, by rw [hip]; exact hd⟩
      | panic p =>
        simp only at he ⊢
        exact ⟨0, mv, _, rfl, he, by simp, g2, by rw [hip]; exact hd⟩
  | err e =>
    simp only at he ⊢
    exact ⟨0, mv, _, rfl, he, by simp, h2, by rw [hip]; exact hd⟩
  | panic p =>
    simp only at he ⊢
    exact ⟨0, mv, _, rfl, he, by simp, h2, by rw [hip]; exact hd⟩

end one

/-! ### the simulation statement -/

/-- the compositional compiler emits exactly `size st` opcodes, in every context -/
theorem compileS_length (st : Stmt) : ∀ (bk : BK) (ce : Option Nat), (compileS st bk ce).length = size st := by
  induction st with
  | skip => intro _ _; rfl
  | op t o => intro _ _; rfl
  | seq a b iha ihb => intro bk ce; simp [compileS, size, iha, ihb]
  | ifThen t a ih => intro bk ce; simp [compileS, size, ih]; omega
  | ifElse t te a b iha ihb => intro bk ce; simp [compileS, size, iha, ihb]; omega
  | untilLoop t a ih => intro bk ce; simp [compileS, size, ih]
  | whileLoop tw tr c a ihc iha => intro bk ce; simp [compileS, size, ihc, iha]; omega
  | repeatLoop tr a ih => intro bk ce; simp [compileS, size, ih]
  | doLoop td tl a ih => intro bk ce; simp [compileS, size, ih]; omega
  | brk t => intro bk ce; cases bk <;> rfl
  | caseS a ih => intro bk ce; simp [compileS, size, ih]
  | arm tOf tEndof body ih => intro bk ce; simp [compileS, size, ih]; omega

/-- the instruction at `ipb` is the compiled `break` of token `t`: a jump (or a `Break`, inside a counted loop)
    to `k` opcodes past `endpc` -/
def BreakAt (code : List Op) (dmap : List Nat) (ipb : Nat) (bk : BK) (endpc : Nat) (t : Nat) : Prop :=
  dmap[ipb]? = some t ∧
  match bk with
  | .jump k => ∃ rel, code[ipb]? = some (.jump rel) ∧ calcJump ipb rel = endpc + k
  | .loop k => ∃ rel, code[ipb]? = some (.breakOp rel) ∧ calcJump ipb rel = endpc + k
  | .none => False

theorem BreakAt.shift {code : List Op} {dmap : List Nat} {ipb : Nat} {bk : BK} {e n t : Nat}
    (h : BreakAt code dmap ipb (bk.shift n) e t) : BreakAt code dmap ipb bk (e + n) t := by
  obtain ⟨h1, h2⟩ := h
  refine ⟨h1, ?_⟩
  cases bk with
  | none => exact h2
  | jump k => obtain ⟨rel, a, b⟩ := h2; exact ⟨rel, a, by rw [b]; omega⟩
  | loop k => obtain ⟨rel, a, b⟩ := h2; exact ⟨rel, a, by rw [b]; omega⟩

/-- what the VM does when the evaluator returns `r`: `E` = end of the fragment, `cend` = where a finished
    `of … endof` arm continues -/
def SimT (np : String → Option Prog) (code : List Op) (dmap : List Nat) (mv : Mach) (E : Nat) (bk : BK) (cend : Nat) : Res → Prop
  | .ok ms' => Catch np code mv E ms'
  | .err e tok ms' => Fails np dmap mv (.err e) tok ms'
  | .panic s tok ms' => Fails np dmap mv (.panic s) tok ms'
  | .brk t ms' => ∃ ipb, Catch np code mv ipb ms' ∧ BreakAt code dmap ipb bk E t
  | .exitCase ms' => Catch np code mv cend ms'
  | .timeout => True

/-- the VM first catches up to an intermediate point, then behaves as `r` says from there -/
theorem SimT.after {np : String → Option Prog} {code : List Op} {dmap : List Nat} {mv : Mach} {ip1 : Nat} {ms1 : Mach}
    {E : Nat} {bk : BK} {cend : Nat} (r : Res) (h1 : Catch np code mv ip1 ms1)
    (h2 : ∀ mv1, mv1.ctx.ip = ip1 → Rel mv1 ms1 → VOK code mv1 → SimT np code dmap mv1 E bk cend r) :
    SimT np code dmap mv E bk cend r := by
  cases r with
  | ok m => exact h1.trans h2
  | err e tok m => exact h1.fails h2
  | panic p tok m => exact h1.fails h2
  | brk t m =>
    obtain ⟨n1, mv1, s1, e1, r1, v1⟩ := h1
    obtain ⟨ipb, ⟨n2, mv2, s2, e2, r2, v2⟩, b⟩ := h2 mv1 e1 r1 v1
    exact ⟨ipb, ⟨n1 + n2, mv2, stepN_add np n1 n2 mv mv1 mv2 s1 s2, e2, r2, v2⟩, b⟩
  | exitCase m => exact h1.trans h2
  | timeout => trivial

/-! ### a `break` never travels out of a context that does not allow it -/

def NoBrk (r : Res) : Prop := ∀ t m, r ≠ .brk t m

theorem ofR_noBrk {α : Type} (r : R α) (tok : Nat) (k : α → Mach → Res) (h : ∀ a m, NoBrk (k a m)) : NoBrk (ofR r tok k) := by
  unfold ofR
  split
  · exact h _ _
  · intro t m e; cases e
  · intro t m e; cases e

theorem noBrk_ok (m : Mach) : NoBrk (.ok m) := fun _ _ e => by cases e
theorem noBrk_timeout : NoBrk .timeout := fun _ _ e => by cases e

/-- neither a statement evaluated where `break` is not allowed, nor the iterations of a counted loop, ever
    hand a travelling `break` to their surroundings -/
theorem no_brk_aux (np : String → Option Prog) : ∀ f,
    (∀ st m r, WFS st false r = true → NoBrk (evalS np f st m)) ∧ (∀ tl a m, NoBrk (doIter np f tl a m)) := by
  intro f
  induction f with
  | zero => exact ⟨fun _ _ _ _ => by simp only [evalS]; exact noBrk_timeout, fun _ _ _ => by simp only [doIter]; exact noBrk_timeout⟩
  | succ f ih =>
    obtain ⟨ihE, ihD⟩ := ih
    refine ⟨fun st m r hw => ?_, fun tl a m => ?_⟩
    · cases st with
      | skip => simp only [evalS]; exact noBrk_ok m
      | op t o => simp only [evalS]; exact ofR_noBrk _ _ _ (fun _ m => noBrk_ok m)
      | seq a b =>
        simp only [WFS, Bool.and_eq_true] at hw
        simp only [evalS]
        have ha := ihE a m r hw.1
        split
        · exact ihE b _ r hw.2
        · exact ha
      | ifThen t a =>
        simp only [WFS] at hw
        simp only [evalS]
        exact ofR_noBrk _ _ _ (fun c m => by split; exact ihE a m false hw; exact noBrk_ok m)
      | ifElse t te a b =>
        simp only [WFS, Bool.and_eq_true] at hw
        simp only [evalS]
        exact ofR_noBrk _ _ _ (fun c m => by split; exact ihE a m false hw.1; exact ihE b m false hw.2)
      | untilLoop t a =>
        simp only [WFS] at hw
        simp only [evalS]
        have ha := ihE a m false hw
        split
        · exact ofR_noBrk _ _ _ (fun c m => by split; exact noBrk_ok m; exact ihE (.untilLoop t a) m r (by simpa [WFS] using hw))
        · exact ha
      | whileLoop tw tr c a =>
        simp only [evalS]
        have hc : WFS c false false = true := by simp only [WFS, Bool.and_eq_true] at hw; exact hw.1
        have hcn := ihE c m false hc
        split
        · refine ofR_noBrk _ _ _ (fun b m => ?_)
          split
          · split
            · exact ihE (.whileLoop tw tr c a) _ r hw
            · exact noBrk_ok _
            · rename_i r1 hne1 hne2
              intro t2 m2 e2
              exact hne2 t2 m2 e2
          · exact noBrk_ok m
        · exact hcn
      | repeatLoop tr a =>
        simp only [evalS]
        split
        · exact ihE (.repeatLoop tr a) _ r hw
        · exact noBrk_ok _
        · rename_i r1 hne1 hne2
          intro t2 m2 e2
          exact hne2 t2 m2 e2
      | doLoop td tl a =>
        simp only [evalS]
        exact ofR_noBrk _ _ _ (fun l m => by split; exact ihD tl a _; exact noBrk_ok m)
      | brk t => simp [WFS] at hw
      | caseS a =>
        simp only [WFS] at hw
        simp only [evalS]
        have ha := ihE a m true hw
        split
        · exact noBrk_ok _
        · exact ha
      | arm tOf tEndof body =>
        simp only [WFS, Bool.and_eq_true] at hw
        simp only [evalS]
        refine ofR_noBrk _ _ _ (fun hit m => ?_)
        split
        · have hb := ihE body m false hw.2
          split
          · intro t m e; cases e
          · exact hb
        · exact noBrk_ok m
    · simp only [doIter]
      split
      · refine ofR_noBrk _ _ _ (fun more m => ?_)
        split
        · exact ihD tl a m
        · exact ofR_noBrk _ _ _ (fun _ m => noBrk_ok m)
      · exact ofR_noBrk _ _ _ (fun _ m => noBrk_ok m)
      · rename_i r1 hne1 hne2
        intro t2 m2 e2
        exact hne2 t2 m2 e2

/-! ### `exitCase` only comes out of an arm in the spine of a `case` -/

def NoExit (r : Res) : Prop := ∀ m, r ≠ .exitCase m

theorem ofR_noExit {α : Type} (r : R α) (tok : Nat) (k : α → Mach → Res) (h : ∀ a m, NoExit (k a m)) : NoExit (ofR r tok k) := by
  unfold ofR
  split
  · exact h _ _
  · intro m e; cases e
  · intro m e; cases e

theorem noExit_ok (m : Mach) : NoExit (.ok m) := fun _ e => by cases e
theorem noExit_timeout : NoExit .timeout := fun _ e => by cases e

theorem no_exit_aux (np : String → Option Prog) : ∀ f,
    (∀ st m k, WFS st k false = true → NoExit (evalS np f st m)) ∧
    (∀ tl a m, WFS a true false = true → NoExit (doIter np f tl a m)) := by
  intro f
  induction f with
  | zero => exact ⟨fun _ _ _ _ => by simp only [evalS]; exact noExit_timeout, fun _ _ _ _ => by simp only [doIter]; exact noExit_timeout⟩
  | succ f ih =>
    obtain ⟨ihE, ihD⟩ := ih
    refine ⟨fun st m k hw => ?_, fun tl a m hw => ?_⟩
    · cases st with
      | skip => simp only [evalS]; exact noExit_ok m
      | op t o => simp only [evalS]; exact ofR_noExit _ _ _ (fun _ m => noExit_ok m)
      | seq a b =>
        simp only [WFS, Bool.and_eq_true] at hw
        simp only [evalS]
        have ha := ihE a m k hw.1
        split
        · exact ihE b _ k hw.2
        · exact ha
      | ifThen t a =>
        simp only [WFS] at hw
        simp only [evalS]
        exact ofR_noExit _ _ _ (fun c m => by split; exact ihE a m k hw; exact noExit_ok m)
      | ifElse t te a b =>
        simp only [WFS, Bool.and_eq_true] at hw
        simp only [evalS]
        exact ofR_noExit _ _ _ (fun c m => by split; exact ihE a m k hw.1; exact ihE b m k hw.2)
      | untilLoop t a =>
        simp only [evalS]
        have hwa : WFS a false false = true := by simpa [WFS] using hw
        have ha := ihE a m false hwa
        split
        · exact ofR_noExit _ _ _ (fun c m => by split; exact noExit_ok m; exact ihE (.untilLoop t a) m k hw)
        · exact ha
      | whileLoop tw tr c a =>
        simp only [evalS]
        have hc : WFS c false false = true := by simp only [WFS, Bool.and_eq_true] at hw; exact hw.1
        have haw : WFS a true false = true := by simp only [WFS, Bool.and_eq_true] at hw; exact hw.2
        have hcn := ihE c m false hc
        split
        · refine ofR_noExit _ _ _ (fun b m => ?_)
          split
          · have hb := ihE a m true haw
            split
            · exact ihE (.whileLoop tw tr c a) _ k hw
            · exact noExit_ok _
            · exact hb
          · exact noExit_ok m
        · exact hcn
      | repeatLoop tr a =>
        simp only [evalS]
        have haw : WFS a true false = true := by simpa [WFS] using hw
        have hb := ihE a m true haw
        split
        · exact ihE (.repeatLoop tr a) _ k hw
        · exact noExit_ok _
        · exact hb
      | doLoop td tl a =>
        simp only [evalS]
        have haw : WFS a true false = true := by simpa [WFS] using hw
        exact ofR_noExit _ _ _ (fun l m => by split; exact ihD tl a _ haw; exact noExit_ok m)
      | brk t => simp only [evalS]; intro m e; cases e
      | caseS a =>
        simp only [evalS]
        split
        · exact noExit_ok _
        · rename_i r hne; exact hne
      | arm tOf tEndof body => simp [WFS] at hw
    · simp only [doIter]
      have hb := ihE a m true hw
      split
      · refine ofR_noExit _ _ _ (fun more m => ?_)
        split
        · exact ihD tl a m hw
        · exact ofR_noExit _ _ _ (fun _ m => noExit_ok m)
      · exact ofR_noExit _ _ _ (fun _ m => noExit_ok m)
      · exact hb

/-! ### the simulation -/

theorem shift_ne_none (bk : BK) (n : Nat) : (bk.shift n != BK.none) = (bk != BK.none) := by
  cases bk <;> rfl

theorem CodeAt.bound {code : List Op} {dmap : List Nat} {pc : Nat} {frag : List (Op × Nat)} (h : CodeAt code dmap pc frag)
    (i : Nat) (hi : i < frag.length) : pc + i < code.length := by
  have := (h i hi).1
  rcases Nat.lt_or_ge (pc + i) code.length with h1 | h1
  · exact h1
  · rw [List.getElem?_eq_none h1] at this; cases this

/-- `ofR` against a one-instruction lemma -/
theorem simT_ofR {np : String → Option Prog} {code : List Op} {dmap : List Nat} {mv : Mach} {α : Type}
    {E : Nat} {bk : BK} {cend : Nat} (r : R α) (tok : Nat) (k : α → Mach → Res)
    (hok : ∀ a ms1, r = (.ok a, ms1) → SimT np code dmap mv E bk cend (k a ms1))
    (herr : ∀ e ms1, r = (.err e, ms1) → Fails np dmap mv (.err e) tok ms1)
    (hpanic : ∀ p ms1, r = (.panic p, ms1) → Fails np dmap mv (.panic p) tok ms1) :
    SimT np code dmap mv E bk cend (ofR r tok k) := by
  obtain ⟨o, m⟩ := r
  cases o with
  | ok a => exact hok a m rfl
  | err e => exact herr e m rfl
  | panic p => exact hpanic p m rfl

theorem calcJump_fwd' (ip n : Nat) (rel : Int) (hrel : rel = (n : Int)) (h : ip + n < 2^64) : calcJump ip rel = ip + n := by
  subst hrel; exact calcJump_fwd ip n h

theorem calcJump_back' (ip k : Nat) (rel : Int) (hrel : rel = -(k : Int)) (h : k ≤ ip) (h2 : ip < 2^64) : calcJump ip rel = ip - k := by
  subst hrel; exact calcJump_back ip k h h2

/-- where a finished arm continues is irrelevant for a result that is not `exitCase` -/
theorem SimT.recend {np : String → Option Prog} {code : List Op} {dmap : List Nat} {mv : Mach} {E : Nat} {bk : BK} {c c' : Nat}
    {r : Res} (hn : NoExit r) (h : SimT np code dmap mv E bk c r) : SimT np code dmap mv E bk c' r := by
  cases r with
  | exitCase m => exact absurd rfl (hn m)
  | ok m => exact h
  | err e t m => exact h
  | panic p t m => exact h
  | brk t m => exact h
  | timeout => trivial

/-- the target of a `break` lies inside the code -/
def BKOk (code : List Op) (bk : BK) (E : Nat) : Prop :=
  match bk with
  | .jump k => E + k ≤ code.length
  | .loop k => E + k ≤ code.length
  | .none => True

theorem BKOk.shift {code : List Op} {bk : BK} {E n : Nat} (h : BKOk code bk (E + n)) : BKOk code (bk.shift n) E := by
  cases bk <;> simp only [BKOk, BK.shift] at h ⊢ <;> omega

def isLoop : Stmt → Bool
  | .untilLoop .. | .whileLoop .. | .repeatLoop .. | .doLoop .. => true
  | _ => false

section main
variable (np : String → Option Prog) (code : List Op) (dmap : List Nat) (hlen : code.length < 2^62)
include hlen

/-- statement for statements -/
def SimStmt (f : Nat) : Prop :=
  ∀ (st : Stmt) (bk : BK) (ce : Option Nat) (pc : Nat) (mv ms : Mach), VOK code mv → Rel mv ms → mv.ctx.ip = pc →
    CodeAt code dmap pc (compileS st bk ce) → WFS st (bk != BK.none) ce.isSome = true → BKOk code bk (pc + size st) →
    pc + size st + ce.getD 0 ≤ code.length →
    SimT np code dmap mv (pc + size st) bk (pc + size st + ce.getD 0) (evalS np f st ms)

/-- statement for the iterations of a counted loop: the VM stands at the first opcode of the body (`pc + 1`),
    the loop record is pushed; when the evaluator is done the VM is behind the `Loop` opcode -/
def SimIter (f : Nat) : Prop :=
  ∀ (td tl : Nat) (a : Stmt) (bk : BK) (ce : Option Nat) (pc : Nat) (mv ms : Mach), VOK code mv → Rel mv ms →
    mv.ctx.ip = pc + 1 → CodeAt code dmap pc (compileS (.doLoop td tl a) bk ce) → WFS a true false = true →
    SimT np code dmap mv (pc + size a + 2) BK.none 0 (doIter np f tl a ms)

theorem sim_acyclic (f : Nat) (ihE : SimStmt np code dmap f) (ihD : SimIter np code dmap f)
    (st : Stmt) (bk : BK) (ce : Option Nat) (pc : Nat) (mv ms : Mach) (v : VOK code mv) (hr : Rel mv ms)
    (hip : mv.ctx.ip = pc) (hc : CodeAt code dmap pc (compileS st bk ce))
    (hw : WFS st (bk != BK.none) ce.isSome = true) (hbk : BKOk code bk (pc + size st))
    (hend : pc + size st + ce.getD 0 ≤ code.length)
    (hacyc : isLoop st = false) :
    SimT np code dmap mv (pc + size st) bk (pc + size st + ce.getD 0) (evalS np (f + 1) st ms) := by
  cases st with
  | skip =>
    simp only [evalS, size, Nat.add_zero]
    rw [← hip]; exact Catch.refl np v hr
  | op t o =>
    simp only [evalS, size]
    simp only [WFS] at hw
    simp only [compileS] at hc
    have h1 := one_straight np (dmap := dmap) v hr hip hc.head.1 hc.head.2 hw
    generalize straightEff np ms o = r at h1 ⊢
    obtain ⟨oo, m1⟩ := r
    cases oo <;> exact h1
  | seq a b =>
    simp only [evalS, size]
    simp only [WFS, Bool.and_eq_true] at hw
    simp only [compileS] at hc
    have hla := compileS_length a (bk.shift (size b)) (ce.map (· + size b))
    have ha := ihE a (bk.shift (size b)) (ce.map (· + size b)) pc mv ms v hr hip hc.left
      (by rw [shift_ne_none]; simpa using hw.1) (BKOk.shift (by simpa [size, Nat.add_assoc] using hbk))
      (by cases ce <;> simp [size] at hend ⊢ <;> omega)
    have hcb : CodeAt code dmap (pc + size a) (compileS b bk ce) := by have := hc.right; rwa [hla] at this
    -- what the first part returns decides
    generalize hra : evalS np f a ms = ra at ha
    cases ra with
    | ok ms1 =>
      simp only
      have := SimT.after (E := pc + size a + size b) (bk := bk) (cend := pc + size a + size b + ce.getD 0)
        (evalS np f b ms1) ha (fun mv1 e1 r1 v1 => ihE b bk ce (pc + size a) mv1 ms1 v1 r1 e1 hcb hw.2 (by simpa [size, Nat.add_assoc] using hbk)
          (by simp [size] at hend; omega))
      simpa [Nat.add_assoc] using this
    | err e tok m => exact ha
    | panic p tok m => exact ha
    | brk t m =>
      obtain ⟨ipb, c, bb⟩ := ha
      exact ⟨ipb, c, by have := bb.shift; simpa [Nat.add_assoc] using this⟩
    | exitCase m =>
      simp only [SimT] at ha ⊢
      cases ce with
      | none =>
        -- no arm outside the spine of a `case`
        exact absurd hra ((no_exit_aux np f).1 a ms _ (by simpa using hw.1) m)
      | some c =>
        simp only [Option.map, Option.getD] at ha ⊢
        have : pc + size a + (c + size b) = pc + (size a + size b) + c := by omega
        rw [← this]; exact ha
    | timeout => trivial
  | ifThen t a =>
    simp only [evalS, size]
    simp only [WFS] at hw
    simp only [compileS] at hc
    have h1 := one_cond np (dmap := dmap) v hr hip hc.head.1 hc.head.2
    have hla := compileS_length a bk none
    have hb : pc + size a < code.length := hc.bound (size a) (by simp [hla])
    have hE : pc + (1 + size a) = pc + 1 + size a := by omega
    generalize popCond ms = r at h1 ⊢
    obtain ⟨oo, m1⟩ := r
    cases oo with
    | ok b =>
      cases b with
      | true =>
        simp only [ofR, if_true] at h1 ⊢
        have := SimT.after (evalS np f a m1) h1 (fun mv1 e1 r1 v1 =>
          ihE a bk none (pc + 1) mv1 m1 v1 r1 e1 hc.tail (by simpa using hw) (by simpa [size, hE] using hbk)
            (by simp [size] at hend ⊢; omega))
        rw [hE]
        exact SimT.recend ((no_exit_aux np f).1 a m1 _ (by simpa using hw)) this
      | false =>
        simp only [ofR] at h1 ⊢
        have hj : calcJump pc (↑(size a) + 1) = pc + (1 + size a) :=
          (calcJump_fwd' pc (size a + 1) _ (by omega) (by omega)).trans (by omega)
        rw [hj] at h1
        exact h1
    | err e => exact h1
    | panic p => exact h1
  | ifElse t te a b =>
    simp only [evalS, size]
    simp only [WFS, Bool.and_eq_true] at hw
    simp only [compileS] at hc
    have h1 := one_cond np (dmap := dmap) v hr hip hc.head.1 hc.head.2
    have hla := compileS_length a (bk.shift (1 + size b)) none
    have hlb := compileS_length b bk none
    have hca : CodeAt code dmap (pc + 1) (compileS a (bk.shift (1 + size b)) none) := hc.tail.left
    have hcr := hc.tail.right
    rw [hla] at hcr
    have hcj := hcr.head
    have hcb : CodeAt code dmap (pc + 1 + size a + 1) (compileS b bk none) := hcr.tail
    have hb : pc + 1 + size a + size b < code.length := by
      have := hc.bound (1 + size a + size b) (by simp [hla, hlb]; omega); omega
    have hE : pc + (1 + size a + 1 + size b) = pc + 1 + size a + 1 + size b := by omega
    generalize popCond ms = r at h1 ⊢
    obtain ⟨oo, m1⟩ := r
    cases oo with
    | ok c =>
      cases c with
      | true =>
        simp only [ofR, if_true] at h1 ⊢
        have hra := SimT.after (evalS np f a m1) h1 (fun mv1 e1 r1 v1 =>
          ihE a (bk.shift (1 + size b)) none (pc + 1) mv1 m1 v1 r1 e1 hca (by rw [shift_ne_none]; simpa using hw.1)
            (BKOk.shift (by simpa [size, hE, Nat.add_assoc] using hbk)) (by simp; omega))
        have hne := (no_exit_aux np f).1 a m1 _ (by simpa using hw.1)
        generalize evalS np f a m1 = ra at hra hne ⊢
        rw [hE]
        cases ra with
        | ok m2 =>
          -- the jump over the else part
          refine Catch.trans hra (fun mv2 e2 r2 v2 => ?_)
          have hj := one_jump np v2 r2 e2 hcj.1
          have : calcJump (pc + 1 + size a) (↑(size b) + 1) = pc + 1 + size a + 1 + size b :=
            (calcJump_fwd' _ (size b + 1) _ (by omega) (by omega)).trans (by omega)
          rw [this] at hj; exact hj
        | err e tok m => exact hra
        | panic p tok m => exact hra
        | brk t2 m =>
          obtain ⟨ipb, c, bb⟩ := hra
          exact ⟨ipb, c, by have := bb.shift; simpa [Nat.add_assoc] using this⟩
        | exitCase m => exact absurd rfl (hne m)
        | timeout => trivial
      | false =>
        simp only [ofR] at h1 ⊢
        have hj : calcJump pc (↑(size a) + 2) = pc + 1 + size a + 1 :=
          (calcJump_fwd' pc (size a + 2) _ (by omega) (by omega)).trans (by omega)
        rw [hj] at h1
        have := SimT.after (evalS np f b m1) h1 (fun mv1 e1 r1 v1 =>
          ihE b bk none (pc + 1 + size a + 1) mv1 m1 v1 r1 e1 hcb (by simpa using hw.2) (by simpa [size, hE] using hbk)
            (by simp; omega))
        rw [hE]
        exact SimT.recend ((no_exit_aux np f).1 b m1 _ (by simpa using hw.2)) this
    | err e => exact h1
    | panic p => exact h1
  | brk t =>
    simp only [evalS, size]
    cases bk with
    | none => simp [WFS] at hw
    | jump k =>
      simp only [compileS] at hc
      simp only [BKOk, size] at hbk
      refine ⟨pc, by rw [← hip]; exact Catch.refl np v hr, hc.head.2, ↑k + 1, hc.head.1, ?_⟩
      exact (calcJump_fwd' pc (k + 1) _ (by omega) (by omega)).trans (by omega)
    | loop k =>
      simp only [compileS] at hc
      simp only [BKOk, size] at hbk
      refine ⟨pc, by rw [← hip]; exact Catch.refl np v hr, hc.head.2, ↑k + 1, hc.head.1, ?_⟩
      exact (calcJump_fwd' pc (k + 1) _ (by omega) (by omega)).trans (by omega)
  | caseS a =>
    simp only [evalS, size]
    simp only [WFS] at hw
    simp only [compileS] at hc
    have ha := ihE a bk (some 0) pc mv ms v hr hip hc (by simpa using hw) (by simpa [size] using hbk)
      (by simp [size] at hend ⊢; omega)
    generalize evalS np f a ms = ra at ha ⊢
    cases ra with
    | exitCase m => simpa [SimT] using ha
    | ok m => exact ha
    | err e tok m => exact ha
    | panic p tok m => exact ha
    | brk t m => exact ha
    | timeout => trivial
  | arm tOf tEndof body =>
    simp only [evalS, size]
    simp only [WFS, Bool.and_eq_true] at hw
    obtain ⟨c, rfl⟩ : ∃ c, ce = some c := by cases ce with | none => simp at hw | some c => exact ⟨c, rfl⟩
    simp only [compileS] at hc
    have h1 := one_case np (dmap := dmap) v hr hip hc.head.1 hc.head.2
    have hlb := compileS_length body (bk.shift 1) none
    have hcb : CodeAt code dmap (pc + 1) (compileS body (bk.shift 1) none) := hc.tail.left
    have hcr := hc.tail.right
    rw [hlb] at hcr
    have hcj := hcr.head
    have hb : pc + 1 + size body < code.length := by
      have := hc.bound (1 + size body) (by simp [hlb]; omega); omega
    have hE : pc + (1 + size body + 1) = pc + 1 + size body + 1 := by omega
    generalize caseTest ms = r at h1 ⊢
    obtain ⟨oo, m1⟩ := r
    cases oo with
    | ok hit =>
      cases hit with
      | true =>
        simp only [ofR, if_true] at h1 ⊢
        have hra := SimT.after (evalS np f body m1) h1 (fun mv1 e1 r1 v1 =>
          ihE body (bk.shift 1) none (pc + 1) mv1 m1 v1 r1 e1 hcb (by rw [shift_ne_none]; simpa using hw.2)
            (BKOk.shift (by simpa [size, hE] using hbk)) (by simp; omega))
        have hne := (no_exit_aux np f).1 body m1 _ (by simpa using hw.2)
        generalize evalS np f body m1 = ra at hra hne ⊢
        rw [hE]
        cases ra with
        | ok m2 =>
          -- `endof`: jump to the end of the whole case
          show Catch np code mv _ m2
          refine Catch.trans hra (fun mv2 e2 r2 v2 => ?_)
          have hj := one_jump np v2 r2 e2 hcj.1
          simp only [size, Option.getD] at hend
          have : calcJump (pc + 1 + size body) (↑((some c).getD 0) + 1) = pc + 1 + size body + 1 + (some c).getD 0 :=
            (calcJump_fwd' _ (c + 1) _ (by simp) (by omega)).trans (by simp; omega)
          rw [this] at hj; exact hj
        | err e tok m => exact hra
        | panic p tok m => exact hra
        | brk t2 m =>
          obtain ⟨ipb, cc, bb⟩ := hra
          exact ⟨ipb, cc, by have := bb.shift; simpa [Nat.add_assoc] using this⟩
        | exitCase m => exact absurd rfl (hne m)
        | timeout => trivial
      | false =>
        simp only [ofR] at h1 ⊢
        have hj : calcJump pc (↑(size body) + 2) = pc + (1 + size body + 1) :=
          (calcJump_fwd' pc (size body + 2) _ (by omega) (by omega)).trans (by omega)
        rw [hj] at h1
        exact h1
    | err e => exact h1
    | panic p => exact h1
  | untilLoop t a => simp [isLoop] at hacyc
  | whileLoop tw tr c a => simp [isLoop] at hacyc
  | repeatLoop tr a => simp [isLoop] at hacyc
  | doLoop td tl a => simp [isLoop] at hacyc

theorem sim_loops (f : Nat) (ihE : SimStmt np code dmap f) (ihD : SimIter np code dmap f)
    (st : Stmt) (bk : BK) (ce : Option Nat) (pc : Nat) (mv ms : Mach) (v : VOK code mv) (hr : Rel mv ms)
    (hip : mv.ctx.ip = pc) (hc : CodeAt code dmap pc (compileS st bk ce))
    (hw : WFS st (bk != BK.none) ce.isSome = true) (hbk : BKOk code bk (pc + size st))
    (hend : pc + size st + ce.getD 0 ≤ code.length)
    (hloop : isLoop st = true) :
    SimT np code dmap mv (pc + size st) bk (pc + size st + ce.getD 0) (evalS np (f + 1) st ms) := by
  cases st with
  | untilLoop t a =>
    have hw0 := hw; have hc0 := hc
    simp only [evalS, size]
    simp only [WFS] at hw
    simp only [compileS] at hc
    have hla := compileS_length a BK.none none
    have hcj := (by have := hc.right; rwa [hla] at this : CodeAt code dmap (pc + size a) [(Op.jumpIfNot (-(size a : Int)), t)]).head
    have hb : pc + size a < code.length := by have := hc.bound (size a) (by simp [hla]); exact this
    have ha := ihE a BK.none none pc mv ms v hr hip hc.left (by simpa using hw) trivial (by simp; omega)
    have hne := (no_exit_aux np f).1 a ms _ hw
    generalize evalS np f a ms = ra at ha hne ⊢
    cases ra with
    | ok m1 =>
      simp only
      refine SimT.after _ ha (fun mv1 e1 r1 v1 => ?_)
      have h1 := one_cond np (dmap := dmap) v1 r1 e1 hcj.1 hcj.2
      generalize popCond m1 = r at h1 ⊢
      obtain ⟨oo, m2⟩ := r
      cases oo with
      | ok b =>
        cases b with
        | true => simp only [ofR, if_true] at h1 ⊢; exact h1
        | false =>
          simp only [ofR] at h1 ⊢
          have hj : calcJump (pc + size a) (-(size a : Int)) = pc :=
            (calcJump_back' _ (size a) _ rfl (by omega) (by omega)).trans (by omega)
          rw [hj] at h1
          exact SimT.after _ h1 (fun mv2 e2 r2 v2 => by
            have := ihE (.untilLoop t a) bk ce pc mv2 m2 v2 r2 e2 hc0 hw0 hbk hend
            simpa [size] using this)
      | err e => exact h1
      | panic p => exact h1
    | err e tok m => exact ha
    | panic p tok m => exact ha
    | brk t2 m => obtain ⟨ipb, c, bb⟩ := ha; exact bb.2.elim
    | exitCase m => exact absurd rfl (hne m)
    | timeout => trivial
  | repeatLoop tr a =>
    have hw0 := hw; have hc0 := hc
    simp only [evalS, size]
    simp only [WFS] at hw
    simp only [compileS] at hc
    have hla := compileS_length a (BK.jump 1) none
    have hcj := (by have := hc.right; rwa [hla] at this : CodeAt code dmap (pc + size a) [(Op.jump (-(size a : Int)), tr)]).head
    have hb : pc + size a < code.length := by have := hc.bound (size a) (by simp [hla]); exact this
    have ha := ihE a (BK.jump 1) none pc mv ms v hr hip hc.left (by exact hw) (by simp only [BKOk]; omega) (by simp; omega)
    have hne := (no_exit_aux np f).1 a ms _ hw
    generalize evalS np f a ms = ra at ha hne ⊢
    cases ra with
    | ok m1 =>
      simp only
      refine SimT.after _ ha (fun mv1 e1 r1 v1 => ?_)
      have hj := one_jump np v1 r1 e1 hcj.1
      have : calcJump (pc + size a) (-(size a : Int)) = pc :=
        (calcJump_back' _ (size a) _ rfl (by omega) (by omega)).trans (by omega)
      rw [this] at hj
      exact SimT.after _ hj (fun mv2 e2 r2 v2 => by
        have := ihE (.repeatLoop tr a) bk ce pc mv2 m1 v2 r2 e2 hc0 hw0 hbk hend
        simpa [size] using this)
    | err e tok m => exact ha
    | panic p tok m => exact ha
    | brk t2 m =>
      obtain ⟨ipb, c, hd, rel, hop, hj⟩ := ha
      simp only
      exact c.trans (fun mv1 e1 r1 v1 => by
        have := one_jump np v1 r1 e1 hop
        rw [hj] at this; exact this)
    | exitCase m => exact absurd rfl (hne m)
    | timeout => trivial
  | whileLoop tw tr c a =>
    have hw0 := hw; have hc0 := hc
    simp only [evalS, size]
    simp only [WFS, Bool.and_eq_true] at hw
    simp only [compileS] at hc
    have hlc := compileS_length c BK.none none
    have hla := compileS_length a (BK.jump 1) none
    have hcc : CodeAt code dmap pc (compileS c BK.none none) := hc.left.left
    have hcr := hc.left.right
    rw [hlc] at hcr
    have hcw := hcr.head
    have hca : CodeAt code dmap (pc + size c + 1) (compileS a (BK.jump 1) none) := hcr.tail
    have hcj := (by
      have := hc.right; simp only [List.length_append, List.length_cons, hlc, hla] at this
      have e : pc + (size c + (size a + 1)) = pc + size c + 1 + size a := by omega
      rwa [e] at this :
      CodeAt code dmap (pc + size c + 1 + size a) [(Op.jump (-((size c + 1 + size a : Nat) : Int)), tr)]).head
    have hb : pc + size c + 1 + size a < code.length := by
      have := hc.bound (size c + 1 + size a) (by simp [hlc, hla]; omega); omega
    have hE : pc + (size c + 1 + size a + 1) = pc + size c + 1 + size a + 1 := by omega
    have hcn := ihE c BK.none none pc mv ms v hr hip hcc (by simpa using hw.1) trivial (by simp; omega)
    have hnec := (no_exit_aux np f).1 c ms _ hw.1
    generalize evalS np f c ms = rc at hcn hnec ⊢
    rw [hE]
    cases rc with
    | ok m1 =>
      simp only
      refine SimT.after _ hcn (fun mv1 e1 r1 v1 => ?_)
      have h1 := one_cond np (dmap := dmap) v1 r1 e1 hcw.1 hcw.2
      generalize popCond m1 = r at h1 ⊢
      obtain ⟨oo, m2⟩ := r
      cases oo with
      | ok b =>
        cases b with
        | true =>
          simp only [ofR, if_true] at h1 ⊢
          refine SimT.after _ h1 (fun mv2 e2 r2 v2 => ?_)
          have ha := ihE a (BK.jump 1) none (pc + size c + 1) mv2 m2 v2 r2 e2 hca (by exact hw.2)
            (by simp only [BKOk]; omega) (by simp; omega)
          have hne := (no_exit_aux np f).1 a m2 _ hw.2
          generalize evalS np f a m2 = ra at ha hne ⊢
          cases ra with
          | ok m3 =>
            simp only
            refine SimT.after _ ha (fun mv3 e3 r3 v3 => ?_)
            have hj := one_jump np v3 r3 e3 hcj.1
            have : calcJump (pc + size c + 1 + size a) (-((size c + 1 + size a : Nat) : Int)) = pc :=
              (calcJump_back' _ (size c + 1 + size a) _ rfl (by omega) (by omega)).trans (by omega)
            rw [this] at hj
            exact SimT.after _ hj (fun mv4 e4 r4 v4 => by
              have := ihE (.whileLoop tw tr c a) bk ce pc mv4 m3 v4 r4 e4 hc0 hw0 hbk hend
              simpa [size, hE] using this)
          | err e tok m => exact ha
          | panic p tok m => exact ha
          | brk t2 m =>
            obtain ⟨ipb, cc, hd, rel, hop, hj⟩ := ha
            simp only
            exact cc.trans (fun mv3 e3 r3 v3 => by
              have := one_jump np v3 r3 e3 hop
              rw [hj] at this; exact this)
          | exitCase m => exact absurd rfl (hne m)
          | timeout => trivial
        | false =>
          simp only [ofR] at h1 ⊢
          have hj : calcJump (pc + size c) (↑(size a) + 2) = pc + size c + 1 + size a + 1 :=
            (calcJump_fwd' _ (size a + 2) _ (by omega) (by omega)).trans (by omega)
          rw [hj] at h1
          exact h1
      | err e => exact h1
      | panic p => exact h1
    | err e tok m => exact hcn
    | panic p tok m => exact hcn
    | brk t2 m => obtain ⟨ipb, cc, bb⟩ := hcn; exact bb.2.elim
    | exitCase m => exact absurd rfl (hnec m)
    | timeout => trivial
  | doLoop td tl a =>
    have hc0 := hc
    simp only [evalS, size]
    simp only [WFS] at hw
    simp only [compileS] at hc
    have hla := compileS_length a (BK.loop 1) none
    have hb : pc + 1 + size a < code.length := by
      have := hc.bound (1 + size a) (by simp [hla]; omega); omega
    have hE : pc + (1 + size a + 1) = pc + size a + 2 := by omega
    have h1 := one_do np (dmap := dmap) v hr hip hc.head.1 hc.head.2
    generalize ms.doInit = r at h1 ⊢
    obtain ⟨oo, m1⟩ := r
    rw [hE]
    cases oo with
    | ok l =>
      simp only [ofR] at h1 ⊢
      by_cases hl : l.start < l.stop
      · simp only [hl, if_true] at h1 ⊢
        have := SimT.after (E := pc + size a + 2) (bk := BK.none) (cend := 0) (doIter np f tl a (m1.pushLoop l)) h1
          (fun mv1 e1 r1 v1 => ihD td tl a bk ce pc mv1 (m1.pushLoop l) v1 r1 e1 hc0 hw)
        have hne := (no_exit_aux np f).2 tl a (m1.pushLoop l) hw
        generalize doIter np f tl a (m1.pushLoop l) = rd at this hne ⊢
        cases rd with
        | ok m => exact this
        | err e tok m => exact this
        | panic p tok m => exact this
        | brk t2 m => obtain ⟨ipb, cc, bb⟩ := this; exact bb.2.elim
        | exitCase m => exact absurd rfl (hne m)
        | timeout => trivial
      · simp only [hl, if_false] at h1 ⊢
        have hj : calcJump pc (↑(size a) + 2) = pc + size a + 2 :=
          (calcJump_fwd' pc (size a + 2) _ (by omega) (by omega))
        rw [hj] at h1
        exact h1
    | err e => exact h1
    | panic p => exact h1
  | skip => simp [isLoop] at hloop
  | op t o => simp [isLoop] at hloop
  | seq a b => simp [isLoop] at hloop
  | ifThen t a => simp [isLoop] at hloop
  | ifElse t te a b => simp [isLoop] at hloop
  | brk t => simp [isLoop] at hloop
  | caseS a => simp [isLoop] at hloop
  | arm tOf tEndof body => simp [isLoop] at hloop

theorem sim_iter (f : Nat) (ihE : SimStmt np code dmap f) (ihD : SimIter np code dmap f) : SimIter np code dmap (f + 1) := by
  intro td tl a bk ce pc mv ms v hr hip hc hw
  have hc0 := hc
  simp only [compileS] at hc
  have hla := compileS_length a (BK.loop 1) none
  have hca : CodeAt code dmap (pc + 1) (compileS a (BK.loop 1) none) := hc.tail.left
  have hcl := (by have := hc.tail.right; rwa [hla] at this : CodeAt code dmap (pc + 1 + size a) [(Op.loopOp (-(size a : Int)), tl)]).head
  have hb : pc + 1 + size a < code.length := by
    have := hc.bound (1 + size a) (by simp [hla]; omega); omega
  simp only [doIter]
  have ha := ihE a (BK.loop 1) none (pc + 1) mv ms v hr hip hca (by exact hw) (by simp only [BKOk]; omega) (by simp; omega)
  have hne := (no_exit_aux np f).1 a ms _ hw
  generalize evalS np f a ms = ra at ha hne ⊢
  cases ra with
  | ok m1 =>
    simp only
    refine SimT.after _ ha (fun mv1 e1 r1 v1 => ?_)
    have h1 := one_loop np (dmap := dmap) v1 r1 e1 hcl.1 hcl.2
    generalize m1.loopNext = r at h1 ⊢
    obtain ⟨oo, m2⟩ := r
    cases oo with
    | ok more =>
      cases more with
      | true =>
        simp only [ofR, if_true] at h1 ⊢
        have hj : calcJump (pc + 1 + size a) (-(size a : Int)) = pc + 1 :=
          (calcJump_back' _ (size a) _ rfl (by omega) (by omega)).trans (by omega)
        rw [hj] at h1
        exact SimT.after _ h1 (fun mv2 e2 r2 v2 => ihD td tl a bk ce pc mv2 m2 v2 r2 e2 hc0 hw)
      | false =>
        simp only [ofR] at h1 ⊢
        generalize m2.popLoop = r2 at h1 ⊢
        obtain ⟨o2, m3⟩ := r2
        cases o2 with
        | ok l =>
          simp only at h1 ⊢
          have : pc + 1 + size a + 1 = pc + size a + 2 := by omega
          rw [this] at h1; exact h1
        | err e => exact h1
        | panic p => exact h1
    | err e => exact h1
    | panic p => exact h1
  | brk tb m1 =>
    obtain ⟨ipb, c, hd, rel, hop, hj⟩ := ha
    simp only
    refine SimT.after _ c (fun mv1 e1 r1 v1 => ?_)
    have h1 := one_break np (dmap := dmap) v1 r1 e1 hop hd
    generalize m1.popLoop = r at h1 ⊢
    obtain ⟨oo, m2⟩ := r
    cases oo with
    | ok l =>
      simp only [ofR] at h1 ⊢
      rw [hj] at h1
      have : pc + 1 + size a + 1 = pc + size a + 2 := by omega
      rw [this] at h1; exact h1
    | err e => exact h1
    | panic p => exact h1
  | err e tok m => exact ha
  | panic p tok m => exact ha
  | exitCase m => exact absurd rfl (hne m)
  | timeout => trivial

/-- **forward simulation**: whatever the structural evaluator returns for a statement (with any fuel), the VM
    running the compiled fragment does the same — it reaches the end of the fragment in an agreeing state, or
    stands on the compiled `break`, or behind the `endof` jump, or fails at the instruction of the same token
    with the same error in an agreeing state -/
theorem sim_all : ∀ f, SimStmt np code dmap f ∧ SimIter np code dmap f := by
  intro f
  induction f with
  | zero =>
    exact ⟨fun st bk ce pc mv ms _ _ _ _ _ _ _ => by simp only [evalS]; trivial,
           fun td tl a bk ce pc mv ms _ _ _ _ _ => by simp only [doIter]; trivial⟩
  | succ f ih =>
    obtain ⟨ihE, ihD⟩ := ih
    refine ⟨fun st bk ce pc mv ms v hr hip hc hw hbk hend => ?_, sim_iter np code dmap hlen f ihE ihD⟩
    by_cases hl : isLoop st = true
    · exact sim_loops np code dmap hlen f ihE ihD st bk ce pc mv ms v hr hip hc hw hbk hend hl
    · exact sim_acyclic np code dmap hlen f ihE ihD st bk ce pc mv ms v hr hip hc hw hbk hend (by simpa using hl)

end main

end Xeh.Structured
