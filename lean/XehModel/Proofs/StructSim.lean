/-
C01 helper: forward simulation between the structural evaluator `evalS` (Model/Structured.lean: no
instruction pointer, no bytecode) and the VM (`Mach.step`) running the code `compileS` emits.

Relation between the two machines: they agree after `normX` (everything but the reverse log, the
instruction meter and the instruction pointer); the VM runs without an instruction limit (with one, it may
stop earlier — that is C14's subject).
-/
import XehModel.Model.Structured
import XehModel.Proofs.VMSim2
import XehModel.Proofs.VMSeal
import XehModel.Props.C02

set_option linter.unusedVariables false
set_option linter.unusedSimpArgs false

namespace Xeh.Structured
open Xeh Xeh.Mach Xeh.Mach.NormX

/-- the two machines agree on everything a program can observe, except where the VM is in the code -/
def Rel (a b : Mach) : Prop := normX a = normX b

theorem Rel.refl (a : Mach) : Rel a a := rfl
theorem Rel.symm {a b : Mach} (h : Rel a b) : Rel b a := Eq.symm h
theorem Rel.trans {a b c : Mach} (h1 : Rel a b) (h2 : Rel b c) : Rel a c := Eq.trans h1 h2

theorem rel_setIp (m : Mach) (n : Nat) : Rel (m.setIp n) m := by
  cases m; simp [Rel, normX, setIp, logStep]
theorem rel_nextIp (m : Mach) : Rel m.nextIp m := rel_setIp m _
theorem rel_meter (m : Mach) (k : Nat) : Rel { m with meter := k } m := by
  cases m; simp [Rel, normX]

theorem Rel.insnLimit {a b : Mach} (h : Rel a b) : a.insnLimit = b.insnLimit := (ds_eq a b h).2.2.2.2.2.2.2.2.1
theorem Rel.code {a b : Mach} (h : Rel a b) : a.code = b.code := (ds_eq a b h).2.2.2.2.2.2.1

/-- the fragment `frag` sits at `pc` in the code, with its debug map -/
def CodeAt (code : List Op) (dmap : List Nat) (pc : Nat) (frag : List (Op × Nat)) : Prop :=
  ∀ i, (h : i < frag.length) → code[pc + i]? = some (frag[i].1) ∧ dmap[pc + i]? = some (frag[i].2)

theorem CodeAt.left {code dmap pc} {a b : List (Op × Nat)} (h : CodeAt code dmap pc (a ++ b)) : CodeAt code dmap pc a := by
  intro i hi
  have := h i (by simp; omega)
  simpa [List.getElem_append_left hi] using this

theorem CodeAt.right {code dmap pc} {a b : List (Op × Nat)} (h : CodeAt code dmap pc (a ++ b)) :
    CodeAt code dmap (pc + a.length) b := by
  intro i hi
  have := h (a.length + i) (by simp; omega)
  rw [List.getElem_append_right (by omega)] at this
  simpa [Nat.add_assoc] using this

theorem CodeAt.head {code dmap pc} {x : Op × Nat} {b : List (Op × Nat)} (h : CodeAt code dmap pc (x :: b)) :
    code[pc]? = some x.1 ∧ dmap[pc]? = some x.2 := by
  have := h 0 (by simp)
  simpa using this

theorem CodeAt.tail {code dmap pc} {x : Op × Nat} {b : List (Op × Nat)} (h : CodeAt code dmap pc (x :: b)) :
    CodeAt code dmap (pc + 1) b := by
  have := CodeAt.right (a := [x]) (b := b) (by simpa using h)
  simpa using this

/-! ### VM steps -/

theorem stepN_add (np : String → Option Prog) : ∀ (a b : Nat) (m m1 m2 : Mach),
    C02.stepN np a m = some m1 → C02.stepN np b m1 = some m2 → C02.stepN np (a + b) m = some m2 := by
  intro a
  induction a with
  | zero => intro b m m1 m2 h1 h2; simp [C02.stepN] at h1; subst h1; simpa using h2
  | succ a ih =>
    intro b m m1 m2 h1 h2
    rw [Nat.add_right_comm]
    simp only [C02.stepN] at h1 ⊢
    split at h1
    · rename_i m' hs; exact ih b m' m1 m2 h1 h2
    · cases h1

theorem stepN_one (np : String → Option Prog) (m m' : Mach) (h : step np m = (.ok (), m')) : C02.stepN np 1 m = some m' := by
  simp [C02.stepN, h]

/-- without an instruction limit, a step is: count it, execute the opcode at `ip` -/
theorem step_eq_exec (np : String → Option Prog) (m : Mach) (op : Op) (hl : m.insnLimit = none)
    (hop : m.code[m.ctx.ip]? = some op) (hnr : ∀ n, op ≠ .resolve n) :
    step np m = exec np { m with meter := m.meter + 1 } m.ctx.ip op := by
  unfold step meterIncrease
  simp only [hl, hop]

/-! ### the evaluator's helpers do not depend on ip, meter or log -/

local macro "sim_bind " f:term ", " ea:term ", " eb:term " with " ma:ident mb:ident h2:ident : tactic => `(tactic|
  (have hs := $f
   revert hs
   generalize $ea = ra
   generalize $eb = rb
   obtain ⟨oa, $ma:ident⟩ := ra
   obtain ⟨ob, $mb:ident⟩ := rb
   rintro ⟨h1, $h2:ident⟩
   simp only at h1 $h2:ident
   subst h1
   cases oa <;> try exact ⟨rfl, $h2⟩))

local macro "normx_intro" : tactic => `(tactic|
  (intro a b h
   rcases a with ⟨c1, hp1, ds1, rs1, lp1, sp1, ⟨q11, q21, q31, q41, q51, q61, q71, q81, q91, q101⟩, mt1, il1, sl1, hl1, lg1, o1, st1, di1⟩
   rcases b with ⟨c2, hp2, ds2, rs2, lp2, sp2, ⟨q12, q22, q32, q42, q52, q62, q72, q82, q92, q102⟩, mt2, il2, sl2, hl2, lg2, o2, st2, di2⟩
   simp only [normX, Mach.mk.injEq, Ctx.mk.injEq, true_and, and_true, and_assoc] at h
   repeat (obtain ⟨h1, h⟩ := h; subst h1)
   subst h))

/-- replacing the return stack (and logging it) keeps two agreeing machines in agreement -/
theorem setRs_sim (r : List Frame) (st : RStep) : ∀ a b : Mach, normX a = normX b →
    normX (({ a with rs := r } : Mach).logStep st) = normX (({ b with rs := r } : Mach).logStep st) := by
  normx_intro
  simp [normX, logStep]

theorem popCond_sim (a b : Mach) (h : Rel a b) : SimR (popCond a) (popCond b) := by
  unfold popCond
  sim_bind popData_sim a b h, a.popData, b.popData with ma mb h2
  simp only
  split <;> exact ⟨rfl, h2⟩

theorem caseTest_sim (a b : Mach) (h : Rel a b) : SimR (caseTest a) (caseTest b) := by
  unfold caseTest
  sim_bind popData_sim a b h, a.popData, b.popData with ma mb h2
  simp only
  sim_bind topData_sim ma mb h2, ma.topData, mb.topData with ma2 mb2 h3
  simp only
  split
  · sim_bind popData_sim ma2 mb2 h3, ma2.popData, mb2.popData with ma3 mb3 h4
  · exact ⟨rfl, h3⟩

theorem straightEff_sim (np : String → Option Prog) (o : Op) (a b : Mach) (h : Rel a b) :
    SimR (straightEff np a o) (straightEff np b o) := by
  cases o <;> simp only [straightEff]
  case nop => exact ⟨rfl, h⟩
  case native name =>
    split
    · rename_i p _; exact runProg_sim p a b h
    · exact ⟨rfl, h⟩
  case loadStr s => exact pushData_sim _ a b h
  case loadF64 x => exact pushData_sim _ a b h
  case loadI64 x => exact pushData_sim _ a b h
  case loadNil => exact pushData_sim _ a b h
  case loadCell c => exact pushData_sim _ a b h
  case load idx =>
    rw [cellRef_sim idx a b h]
    split
    · exact pushData_sim _ a b h
    · exact ⟨rfl, h⟩
    · exact ⟨rfl, h⟩
  case store idx =>
    sim_bind popData_sim a b h, a.popData, b.popData with ma mb h2
    rename_i v
    exact swapCellRef_sim idx v ma mb h2
  case initLocal idx =>
    sim_bind popData_sim a b h, a.popData, b.popData with ma mb h2
    rename_i v
    simp only
    obtain ⟨_, _, hrs, _, _, _, _, _, _, _, _, hrl, _⟩ := ds_eq ma mb h2
    rw [hrs, hrl]
    split
    · split
      · exact ⟨rfl, setRs_sim _ _ ma mb h2⟩
      · exact ⟨rfl, h2⟩
    · exact ⟨rfl, h2⟩
  case loadLocal i =>
    rw [topFrame_sim a b h]
    split
    · split
      · exact pushData_sim _ a b h
      · exact ⟨rfl, h⟩
    · exact ⟨rfl, h⟩
    · exact ⟨rfl, h⟩
  all_goals exact ⟨rfl, h⟩

/-! ### what the control opcodes do, in the evaluator's vocabulary -/

theorem exec_straight (np : String → Option Prog) (m : Mach) (ip : Nat) (o : Op) (hs : straight o = true) :
    exec np m ip o = (match straightEff np m o with
      | (.ok (), m1) => (.ok (), m1.nextIp)
      | (.err e, m1) => (.err e, m1)
      | (.panic s, m1) => (.panic s, m1)) := by
  cases o <;> simp [straight] at hs <;> simp only [exec, straightEff] <;> try rfl
  case native name => cases hn : np name <;> simp only [hn] <;> rfl
  case load idx => cases hc : m.cellRef idx <;> simp only [hc] <;> rfl
  case store idx =>
    rcases hp : m.popData with ⟨o, m1⟩
    cases o <;> simp only [hp] <;> rfl
  case initLocal idx =>
    rcases hp : m.popData with ⟨o, m1⟩
    cases o with
    | ok v =>
      simp only [hp]
      cases hrs : m1.rs with
      | nil => rfl
      | cons f rest =>
        simp only []
        by_cases hg : (f :: rest).length > m1.ctx.rsLen
        · simp only [hg, if_true]
        · simp only [hg, if_false]
    | err e => simp only [hp]
    | panic s => simp only [hp]
  case loadLocal i =>
    cases ht : m.topFrame with
    | ok f =>
      simp only []
      cases hl : f.locals[i]? <;> simp only [] <;> rfl
    | err e => rfl
    | panic s => rfl

theorem exec_jumpIfNot (np : String → Option Prog) (m : Mach) (ip : Nat) (rel : Int) :
    exec np m ip (.jumpIfNot rel) = (match popCond m with
      | (.ok true, m1) => (.ok (), m1.nextIp)
      | (.ok false, m1) => (.ok (), m1.setIp (calcJump ip rel))
      | (.err e, m1) => (.err e, m1)
      | (.panic s, m1) => (.panic s, m1)) := by
  simp only [exec, popCond]
  rcases hp : m.popData with ⟨o, m1⟩
  cases o with
  | ok c =>
    simp only []
    cases hc : c.condTrue with
    | ok b => cases b <;> rfl
    | err e => rfl
    | panic s => rfl
  | err e => rfl
  | panic s => rfl

theorem exec_caseOf (np : String → Option Prog) (m : Mach) (ip : Nat) (rel : Int) :
    exec np m ip (.caseOf rel) = (match caseTest m with
      | (.ok true, m1) => (.ok (), m1.nextIp)
      | (.ok false, m1) => (.ok (), m1.setIp (calcJump ip rel))
      | (.err e, m1) => (.err e, m1)
      | (.panic s, m1) => (.panic s, m1)) := by
  simp only [exec, caseTest]
  rcases hp : m.popData with ⟨o, m1⟩
  cases o with
  | ok a =>
    simp only []
    rcases ht : m1.topData with ⟨o2, m2⟩
    cases o2 with
    | ok b =>
      simp only []
      by_cases hb : Cell.beq a b = true
      · simp only [hb, if_true]
        rcases hp2 : m2.popData with ⟨o3, m3⟩
        cases o3 <;> rfl
      · simp only [hb]; rfl
    | err e => rfl
    | panic s => rfl
  | err e => rfl
  | panic s => rfl

/-! ### the VM side of the simulation -/

/-- what holds of the VM all along: marks inside the stacks, no instruction limit, the code is `code` -/
structure VOK (code : List Op) (m : Mach) : Prop where
  wf : WF m
  lim : m.insnLimit = none
  code : m.code = code

theorem exec_keeps (np : String → Option Prog) (m : Mach) (op : Op) (w : WF m) :
    (exec np m m.ctx.ip op).2.code = m.code ∧ (exec np m m.ctx.ip op).2.insnLimit = m.insnLimit ∧ WF (exec np m m.ctx.ip op).2 := by
  have sh := exec_shape np m op w
  cases sh with
  | fail seg mp h e ne => rw [e]; exact ⟨h.fr.code, h.fr.insnLimit, h.wf w⟩
  | done seg mp n h e => rw [e]; exact ⟨h.fr.code, h.fr.insnLimit, (setIp_sealed mp n (h.wf w)).wf⟩

/-- one VM step on an opcode of the fragment -/
theorem vok_step (np : String → Option Prog) {code : List Op} {m : Mach} (v : VOK code m) (op : Op)
    (hop : code[m.ctx.ip]? = some op) (hnr : ∀ n, op ≠ .resolve n) :
    step np m = exec np { m with meter := m.meter + 1 } m.ctx.ip op ∧ VOK code (step np m).2 := by
  have he := step_eq_exec np m op v.lim (by rw [v.code]; exact hop) hnr
  have w1 : WF ({ m with meter := m.meter + 1 } : Mach) := ⟨v.wf.ds, v.wf.rs, v.wf.ls, v.wf.ss⟩
  obtain ⟨k1, k2, k3⟩ := exec_keeps np { m with meter := m.meter + 1 } op w1
  refine ⟨he, ?_⟩
  rw [he]
  exact ⟨k3, by rw [k2]; exact v.lim, by rw [k1]; exact v.code⟩

/-- the VM catches up with the evaluator: after some steps it stands at `ip'`, in a state the evaluator's
    machine `ms'` agrees with -/
def Catch (np : String → Option Prog) (code : List Op) (mv : Mach) (ip' : Nat) (ms' : Mach) : Prop :=
  ∃ n mv', C02.stepN np n mv = some mv' ∧ mv'.ctx.ip = ip' ∧ Rel mv' ms' ∧ VOK code mv'

/-- the VM fails where the evaluator fails: after some steps the next instruction — the one the debug map
    attributes to token `tok` — has the same outcome and leaves an agreeing machine -/
def Fails (np : String → Option Prog) (dmap : List Nat) (mv : Mach) (o : Outcome Unit) (tok : Nat) (ms' : Mach) : Prop :=
  ∃ n mv' mv'', C02.stepN np n mv = some mv' ∧ step np mv' = (o, mv'') ∧ o ≠ .ok () ∧ Rel mv'' ms' ∧
    dmap[mv'.ctx.ip]? = some tok

theorem Catch.refl (np : String → Option Prog) {code : List Op} {mv ms : Mach} (v : VOK code mv) (h : Rel mv ms) :
    Catch np code mv mv.ctx.ip ms := ⟨0, mv, rfl, rfl, h, v⟩

theorem Catch.trans {np : String → Option Prog} {code : List Op} {mv : Mach} {ip1 ip2 : Nat} {ms1 ms2 : Mach}
    (h1 : Catch np code mv ip1 ms1)
    (h2 : ∀ mv1, mv1.ctx.ip = ip1 → Rel mv1 ms1 → VOK code mv1 → Catch np code mv1 ip2 ms2) :
    Catch np code mv ip2 ms2 := by
  obtain ⟨n1, mv1, s1, e1, r1, v1⟩ := h1
  obtain ⟨n2, mv2, s2, e2, r2, v2⟩ := h2 mv1 e1 r1 v1
  exact ⟨n1 + n2, mv2, stepN_add np n1 n2 mv mv1 mv2 s1 s2, e2, r2, v2⟩

theorem Catch.fails {np : String → Option Prog} {code : List Op} {dmap : List Nat} {mv : Mach} {ip1 : Nat} {ms1 ms2 : Mach}
    {o : Outcome Unit} {tok : Nat} (h1 : Catch np code mv ip1 ms1)
    (h2 : ∀ mv1, mv1.ctx.ip = ip1 → Rel mv1 ms1 → VOK code mv1 → Fails np dmap mv1 o tok ms2) :
    Fails np dmap mv o tok ms2 := by
  obtain ⟨n1, mv1, s1, e1, r1, v1⟩ := h1
  obtain ⟨n2, mv2, mv3, s2, hs, hne, r2, hd⟩ := h2 mv1 e1 r1 v1
  exact ⟨n1 + n2, mv2, mv3, stepN_add np n1 n2 mv mv1 mv2 s1 s2, hs, hne, r2, hd⟩

theorem calcJump_fwd (ip n : Nat) (h : ip + n < 2^64) : calcJump ip (n : Int) = ip + n := by
  unfold calcJump
  have : ((ip : Int) + (n : Int)) % 2^64 = ((ip + n : Nat) : Int) := by
    rw [Int.emod_eq_of_lt (by omega) (by omega)]; omega
  rw [this]; omega

theorem calcJump_back (ip k : Nat) (h : k ≤ ip) (h2 : ip < 2^64) : calcJump ip (-(k : Int)) = ip - k := by
  unfold calcJump
  have : ((ip : Int) + -(k : Int)) % 2^64 = ((ip - k : Nat) : Int) := by
    rw [Int.emod_eq_of_lt (by omega) (by omega)]; omega
  rw [this]; omega

/-! ### the helpers leave the context alone -/

theorem popCond_ctx (m : Mach) : (popCond m).2.ctx = m.ctx := by
  obtain ⟨seg, r⟩ := popData_rev m
  unfold popCond
  rcases hp : m.popData with ⟨o, m1⟩
  rw [hp] at r
  cases o with
  | ok c => simp only []; cases c.condTrue <;> exact r.ctx
  | err e => exact r.ctx
  | panic s => exact r.ctx

theorem caseTest_ctx (m : Mach) : (caseTest m).2.ctx = m.ctx := by
  obtain ⟨seg, r⟩ := popData_rev m
  unfold caseTest
  rcases hp : m.popData with ⟨o, m1⟩
  rw [hp] at r
  cases o with
  | ok a =>
    simp only []
    have hs := topData_same m1
    rcases ht : m1.topData with ⟨o2, m2⟩
    rw [ht] at hs; simp only at hs; subst hs
    cases o2 with
    | ok b =>
      simp only []
      split
      · obtain ⟨seg2, r2⟩ := popData_rev m2
        rcases hp2 : m2.popData with ⟨o3, m3⟩
        rw [hp2] at r2
        cases o3 <;> simp only [] <;> rw [r2.ctx, r.ctx]
      · exact r.ctx
    | err e => exact r.ctx
    | panic s => exact r.ctx
  | err e => exact r.ctx
  | panic s => exact r.ctx

theorem straightEff_ctx (np : String → Option Prog) (m : Mach) (o : Op) (w : WF m) : (straightEff np m o).2.ctx = m.ctx := by
  cases o <;> simp only [straightEff] <;> try rfl
  case native name =>
    cases hn : np name with
    | none => rfl
    | some p => obtain ⟨seg, r⟩ := runProg_rev p m w; exact r.ctx
  case loadStr s => obtain ⟨seg, r⟩ := pushData_rev m (.str s) w; exact r.ctx
  case loadF64 x => obtain ⟨seg, r⟩ := pushData_rev m (.real x) w; exact r.ctx
  case loadI64 x => obtain ⟨seg, r⟩ := pushData_rev m (.int x) w; exact r.ctx
  case loadNil => obtain ⟨seg, r⟩ := pushData_rev m .nil w; exact r.ctx
  case loadCell c => obtain ⟨seg, r⟩ := pushData_rev m c w; exact r.ctx
  case load idx =>
    cases hc : m.cellRef idx with
    | ok c => obtain ⟨seg, r⟩ := pushData_rev m c w; exact r.ctx
    | err e => rfl
    | panic s => rfl
  case store idx =>
    obtain ⟨seg, r⟩ := popData_rev m
    rcases hp : m.popData with ⟨o1, m1⟩
    rw [hp] at r
    cases o1 with
    | ok v =>
      obtain ⟨seg2, r2⟩ := swapCellRef_rev m1 idx v
      simp only []; rw [r2.ctx, r.ctx]
    | err e => exact r.ctx
    | panic s => exact r.ctx
  case initLocal idx =>
    obtain ⟨seg, r⟩ := popData_rev m
    rcases hp : m.popData with ⟨o1, m1⟩
    rw [hp] at r
    cases o1 with
    | ok v =>
      simp only []
      split
      · split
        · simp only [logStep]; exact r.ctx
        · exact r.ctx
      · exact r.ctx
    | err e => exact r.ctx
    | panic s => exact r.ctx
  case loadLocal i =>
    cases ht : m.topFrame with
    | ok f =>
      simp only []
      cases hl : f.locals[i]? with
      | some v => obtain ⟨seg, r⟩ := pushData_rev m v w; exact r.ctx
      | none => rfl
    | err e => rfl
    | panic s => rfl

/-! ### one instruction of the VM against one action of the evaluator -/

section one
variable (np : String → Option Prog) {code : List Op} {dmap : List Nat}

/-- the machine a step starts executing on agrees with the evaluator's -/
theorem rel_bump {mv ms : Mach} (h : Rel mv ms) : Rel ({ mv with meter := mv.meter + 1 } : Mach) ms :=
  (rel_meter mv _).trans h

theorem one_straight {mv ms : Mach} {pc t : Nat} {o : Op} (v : VOK code mv) (hr : Rel mv ms) (hip : mv.ctx.ip = pc)
    (hop : code[pc]? = some o) (hd : dmap[pc]? = some t) (hs : straight o = true) :
    match straightEff np ms o with
    | (.ok (), ms1) => Catch np code mv (pc + 1) ms1
    | (.err e, ms1) => Fails np dmap mv (.err e) t ms1
    | (.panic p, ms1) => Fails np dmap mv (.panic p) t ms1 := by
  have hnr : ∀ n, o ≠ .resolve n := by intro n e; subst e; simp [straight] at hs
  obtain ⟨he, v2⟩ := vok_step np v o (by rw [hip]; exact hop) hnr
  have w1 : WF ({ mv with meter := mv.meter + 1 } : Mach) := ⟨v.wf.ds, v.wf.rs, v.wf.ls, v.wf.ss⟩
  have hc := straightEff_ctx np _ o w1
  have hsim := straightEff_sim np o _ ms (rel_bump hr)
  rw [exec_straight np _ _ o hs] at he
  generalize straightEff np { mv with meter := mv.meter + 1 } o = ra at hsim hc he
  generalize straightEff np ms o = rb at hsim ⊢
  obtain ⟨oa, ma⟩ := ra
  obtain ⟨ob, mb⟩ := rb
  obtain ⟨h1, h2⟩ := hsim
  simp only at h1 h2 hc
  subst h1
  cases oa with
  | ok u =>
    simp only at he ⊢
    rw [he] at v2
    exact ⟨1, ma.nextIp, stepN_one np _ _ he, by simp [nextIp, setIp, logStep, hc, hip], (rel_nextIp ma).trans h2, v2⟩
  | err e =>
    simp only at he ⊢
    exact ⟨0, mv, _, rfl, he, by simp, h2, by rw [hip]; exact hd⟩
  | panic p =>
    simp only at he ⊢
    exact ⟨0, mv, _, rfl, he, by simp, h2, by rw [hip]; exact hd⟩

/-- `JumpIfNot rel` against `popCond` -/
theorem one_cond {mv ms : Mach} {pc t : Nat} {rel : Int} (v : VOK code mv) (hr : Rel mv ms) (hip : mv.ctx.ip = pc)
    (hop : code[pc]? = some (.jumpIfNot rel)) (hd : dmap[pc]? = some t) :
    match popCond ms with
    | (.ok true, ms1) => Catch np code mv (pc + 1) ms1
    | (.ok false, ms1) => Catch np code mv (calcJump pc rel) ms1
    | (.err e, ms1) => Fails np dmap mv (.err e) t ms1
    | (.panic p, ms1) => Fails np dmap mv (.panic p) t ms1 := by
  obtain ⟨he, v2⟩ := vok_step np v (.jumpIfNot rel) (by rw [hip]; exact hop) (by intro n e; cases e)
  have hc := popCond_ctx ({ mv with meter := mv.meter + 1 } : Mach)
  have hsim := popCond_sim _ ms (rel_bump hr)
  rw [exec_jumpIfNot] at he
  generalize popCond { mv with meter := mv.meter + 1 } = ra at hsim hc he
  generalize popCond ms = rb at hsim ⊢
  obtain ⟨oa, ma⟩ := ra
  obtain ⟨ob, mb⟩ := rb
  obtain ⟨h1, h2⟩ := hsim
  simp only at h1 h2 hc
  subst h1
  cases oa with
  | ok b =>
    cases b with
    | true =>
      simp only at he ⊢
      rw [he] at v2
      exact ⟨1, ma.nextIp, stepN_one np _ _ he, by simp [nextIp, setIp, logStep, hc, hip], (rel_nextIp ma).trans h2, v2⟩
    | false =>
      simp only at he ⊢
      rw [he] at v2
      exact ⟨1, _, stepN_one np _ _ he, by simp [setIp, logStep, hip], (rel_setIp ma _).trans h2, v2⟩
  | err e =>
    simp only at he ⊢
    exact ⟨0, mv, _, rfl, he, by simp, h2, by rw [hip]; exact hd⟩
  | panic p =>
    simp only at he ⊢
    exact ⟨0, mv, _, rfl, he, by simp, h2, by rw [hip]; exact hd⟩

/-- `CaseOf rel` against `caseTest` -/
theorem one_case {mv ms : Mach} {pc t : Nat} {rel : Int} (v : VOK code mv) (hr : Rel mv ms) (hip : mv.ctx.ip = pc)
    (hop : code[pc]? = some (.caseOf rel)) (hd : dmap[pc]? = some t) :
    match caseTest ms with
    | (.ok true, ms1) => Catch np code mv (pc + 1) ms1
    | (.ok false, ms1) => Catch np code mv (calcJump pc rel) ms1
    | (.err e, ms1) => Fails np dmap mv (.err e) t ms1
    | (.panic p, ms1) => Fails np dmap mv (.panic p) t ms1 := by
  obtain ⟨he, v2⟩ := vok_step np v (.caseOf rel) (by rw [hip]; exact hop) (by intro n e; cases e)
  have hc := caseTest_ctx ({ mv with meter := mv.meter + 1 } : Mach)
  have hsim := caseTest_sim _ ms (rel_bump hr)
  rw [exec_caseOf] at he
  generalize caseTest { mv with meter := mv.meter + 1 } = ra at hsim hc he
  generalize caseTest ms = rb at hsim ⊢
  obtain ⟨oa, ma⟩ := ra
  obtain ⟨ob, mb⟩ := rb
  obtain ⟨h1, h2⟩ := hsim
  simp only at h1 h2 hc
  subst h1
  cases oa with
  | ok b =>
    cases b with
    | true =>
      simp only at he ⊢
      rw [he] at v2
      exact ⟨1, ma.nextIp, stepN_one np _ _ he, by simp [nextIp, setIp, logStep, hc, hip], (rel_nextIp ma).trans h2, v2⟩
    | false =>
      simp only at he ⊢
      rw [he] at v2
      exact ⟨1, _, stepN_one np _ _ he, by simp [setIp, logStep, hip], (rel_setIp ma _).trans h2, v2⟩
  | err e =>
    simp only at he ⊢
    exact ⟨0, mv, _, rfl, he, by simp, h2, by rw [hip]; exact hd⟩
  | panic p =>
    simp only at he ⊢
    exact ⟨0, mv, _, rfl, he, by simp, h2, by rw [hip]; exact hd⟩

/-- an unconditional `Jump rel` -/
theorem one_jump {mv ms : Mach} {pc : Nat} {rel : Int} (v : VOK code mv) (hr : Rel mv ms) (hip : mv.ctx.ip = pc)
    (hop : code[pc]? = some (.jump rel)) : Catch np code mv (calcJump pc rel) ms := by
  obtain ⟨he, v2⟩ := vok_step np v (.jump rel) (by rw [hip]; exact hop) (by intro n e; cases e)
  simp only [exec] at he
  rw [he] at v2
  exact ⟨1, _, stepN_one np _ _ he, by simp [setIp, logStep, hip], (rel_setIp _ _).trans (rel_bump hr), v2⟩

/-- `Do rel` against `doInit` -/
theorem one_do {mv ms : Mach} {pc t : Nat} {rel : Int} (v : VOK code mv) (hr : Rel mv ms) (hip : mv.ctx.ip = pc)
    (hop : code[pc]? = some (.doOp rel)) (hd : dmap[pc]? = some t) :
    match ms.doInit with
    | (.ok l, ms1) => if l.start < l.stop then Catch np code mv (pc + 1) (ms1.pushLoop l) else Catch np code mv (calcJump pc rel) ms1
    | (.err e, ms1) => Fails np dmap mv (.err e) t ms1
    | (.panic p, ms1) => Fails np dmap mv (.panic p) t ms1 := by
  obtain ⟨he, v2⟩ := vok_step np v (.doOp rel) (by rw [hip]; exact hop) (by intro n e; cases e)
  have hc : (({ mv with meter := mv.meter + 1 } : Mach).doInit).2.ctx = mv.ctx := by
    obtain ⟨seg, r⟩ := doInit_rev ({ mv with meter := mv.meter + 1 } : Mach); exact r.ctx
  have hsim := doInit_sim _ ms (rel_bump hr)
  simp only [exec] at he
  generalize Mach.doInit { mv with meter := mv.meter + 1 } = ra at hsim hc he
  generalize ms.doInit = rb at hsim ⊢
  obtain ⟨oa, ma⟩ := ra
  obtain ⟨ob, mb⟩ := rb
  obtain ⟨h1, h2⟩ := hsim
  simp only at h1 h2 hc
  subst h1
  cases oa with
  | ok l =>
    simp only at he ⊢
    by_cases hl : l.start < l.stop
    · simp only [hl, if_true] at he ⊢
      rw [he] at v2
      exact ⟨1, _, stepN_one np _ _ he, by simp [nextIp, setIp, logStep, pushLoop, hc, hip],
        (rel_nextIp _).trans (pushLoop_sim l ma mb h2), v2⟩
    · simp only [hl, if_false] at he ⊢
      rw [he] at v2
      exact ⟨1, _, stepN_one np _ _ he, by simp [setIp, logStep, hip], (rel_setIp ma _).trans h2, v2⟩
  | err e =>
    simp only at he ⊢
    exact ⟨0, mv, _, rfl, he, by simp, h2, by rw [hip]; exact hd⟩
  | panic p =>
    simp only at he ⊢
    exact ⟨0, mv, _, rfl, he, by simp, h2, by rw [hip]; exact hd⟩

/-- `Break rel` against `popLoop` -/
theorem one_break {mv ms : Mach} {pc t : Nat} {rel : Int} (v : VOK code mv) (hr : Rel mv ms) (hip : mv.ctx.ip = pc)
    (hop : code[pc]? = some (.breakOp rel)) (hd : dmap[pc]? = some t) :
    match ms.popLoop with
    | (.ok _, ms1) => Catch np code mv (calcJump pc rel) ms1
    | (.err e, ms1) => Fails np dmap mv (.err e) t ms1
    | (.panic p, ms1) => Fails np dmap mv (.panic p) t ms1 := by
  obtain ⟨he, v2⟩ := vok_step np v (.breakOp rel) (by rw [hip]; exact hop) (by intro n e; cases e)
  have hsim := popLoop_sim _ ms (rel_bump hr)
  simp only [exec] at he
  generalize Mach.popLoop { mv with meter := mv.meter + 1 } = ra at hsim he
  generalize ms.popLoop = rb at hsim ⊢
  obtain ⟨oa, ma⟩ := ra
  obtain ⟨ob, mb⟩ := rb
  obtain ⟨h1, h2⟩ := hsim
  simp only at h1 h2
  subst h1
  cases oa with
  | ok l =>
    simp only at he ⊢
    rw [he] at v2
    exact ⟨1, _, stepN_one np _ _ he, by simp [setIp, logStep, hip], (rel_setIp ma _).trans h2, v2⟩
  | err e =>
    simp only at he ⊢
    exact ⟨0, mv, _, rfl, he, by simp, h2, by rw [hip]; exact hd⟩
  | panic p =>
    simp only at he ⊢
    exact ⟨0, mv, _, rfl, he, by simp, h2, by rw [hip]; exact hd⟩

/-- `Loop rel` against `loopNext` (and `popLoop` when the range is exhausted) -/
theorem one_loop {mv ms : Mach} {pc t : Nat} {rel : Int} (v : VOK code mv) (hr : Rel mv ms) (hip : mv.ctx.ip = pc)
    (hop : code[pc]? = some (.loopOp rel)) (hd : dmap[pc]? = some t) :
    match ms.loopNext with
    | (.ok true, ms1) => Catch np code mv (calcJump pc rel) ms1
    | (.ok false, ms1) =>
      (match ms1.popLoop with
       | (.ok _, ms2) => Catch np code mv (pc + 1) ms2
       | (.err e, ms2) => Fails np dmap mv (.err e) t ms2
       | (.panic p, ms2) => Fails np dmap mv (.panic p) t ms2)
    | (.err e, ms1) => Fails np dmap mv (.err e) t ms1
    | (.panic p, ms1) => Fails np dmap mv (.panic p) t ms1 := by
  obtain ⟨he, v2⟩ := vok_step np v (.loopOp rel) (by rw [hip]; exact hop) (by intro n e; cases e)
  have hc : (({ mv with meter := mv.meter + 1 } : Mach).loopNext).2.ctx = mv.ctx := by
    obtain ⟨seg, r⟩ := loopNext_rev ({ mv with meter := mv.meter + 1 } : Mach); exact r.ctx
  have hsim := loopNext_sim _ ms (rel_bump hr)
  simp only [exec] at he
  generalize Mach.loopNext { mv with meter := mv.meter + 1 } = ra at hsim hc he
  generalize ms.loopNext = rb at hsim ⊢
  obtain ⟨oa, ma⟩ := ra
  obtain ⟨ob, mb⟩ := rb
  obtain ⟨h1, h2⟩ := hsim
  simp only at h1 h2 hc
  subst h1
  cases oa with
  | ok more =>
    cases more with
    | true =>
      simp only at he ⊢
      rw [he] at v2
      exact ⟨1, _, stepN_one np _ _ he, by simp [setIp, logStep, hip], (rel_setIp ma _).trans h2, v2⟩
    | false =>
      simp only at he ⊢
      have hc2 : (ma.popLoop).2.ctx = ma.ctx := by obtain ⟨seg, r⟩ := popLoop_rev ma; exact r.ctx
      have hsim2 := popLoop_sim ma mb h2
      generalize ma.popLoop = ra2 at hsim2 hc2 he
      generalize mb.popLoop = rb2 at hsim2 ⊢
      obtain ⟨oa2, ma2⟩ := ra2
      obtain ⟨ob2, mb2⟩ := rb2
      obtain ⟨g1, g2⟩ := hsim2
      simp only at g1 g2 hc2
      subst g1
      cases oa2 with
      | ok l =>
        simp only at he ⊢
        rw [he] at v2
        exact ⟨1, _, stepN_one np _ _ he, by simp [nextIp, setIp, logStep, hc2, hc, hip], (rel_nextIp ma2).trans g2, v2⟩
      | err e =>
        simp only at he ⊢
        exact ⟨0, mv, _, rfl, he, by simp, g2, by rw [hip]; exact hd⟩
      | panic p =>
        simp only at he ⊢
        exact ⟨0, mv, _, rfl, he, by simp, g2, by rw [hip]; exact hd⟩
  | err e =>
    simp only at he ⊢
    exact ⟨0, mv, _, rfl, he, by simp, h2, by rw [hip]; exact hd⟩
  | panic p =>
    simp only at he ⊢
    exact ⟨0, mv, _, rfl, he, by simp, h2, by rw [hip]; exact hd⟩

/-- `Call addr`: a frame is pushed and execution continues at the entry of the word -/
theorem one_call {mv ms : Mach} {pc addr : Nat} (v : VOK code mv) (hr : Rel mv ms) (hip : mv.ctx.ip = pc)
    (hop : code[pc]? = some (.call addr)) :
    Catch np code mv addr (ms.pushReturn { fnAddr := addr, returnTo := pc + 1, locals := [] }) := by
  obtain ⟨he, v2⟩ := vok_step np v (.call addr) (by rw [hip]; exact hop) (by intro n e; cases e)
  simp only [exec] at he
  rw [he] at v2
  refine ⟨1, _, stepN_one np _ _ he, by simp [setIp, logStep], ?_, v2⟩
  rw [hip]
  exact (rel_setIp _ _).trans (pushReturn_sim _ _ ms (rel_bump hr))

/-- `Ret` against `popReturn` -/
theorem one_ret {mv ms : Mach} {pc t : Nat} (v : VOK code mv) (hr : Rel mv ms) (hip : mv.ctx.ip = pc)
    (hop : code[pc]? = some .ret) (hd : dmap[pc]? = some t) :
    match ms.popReturn with
    | (.ok f, ms1) => Catch np code mv f.returnTo ms1
    | (.err e, ms1) => Fails np dmap mv (.err e) t ms1
    | (.panic p, ms1) => Fails np dmap mv (.panic p) t ms1 := by
  obtain ⟨he, v2⟩ := vok_step np v .ret (by rw [hip]; exact hop) (by intro n e; cases e)
  have hsim := popReturn_sim _ ms (rel_bump hr)
  simp only [exec] at he
  generalize Mach.popReturn { mv with meter := mv.meter + 1 } = ra at hsim he
  generalize ms.popReturn = rb at hsim ⊢
  obtain ⟨oa, ma⟩ := ra
  obtain ⟨ob, mb⟩ := rb
  obtain ⟨h1, h2⟩ := hsim
  simp only at h1 h2
  subst h1
  cases oa with
  | ok f =>
    simp only at he ⊢
    rw [he] at v2
    exact ⟨1, _, stepN_one np _ _ he, by simp [setIp, logStep], (rel_setIp ma _).trans h2, v2⟩
  | err e =>
    simp only at he ⊢
    exact ⟨0, mv, _, rfl, he, by simp, h2, by rw [hip]; exact hd⟩
  | panic p =>
    simp only at he ⊢
    exact ⟨0, mv, _, rfl, he, by simp, h2, by rw [hip]; exact hd⟩

end one

/-! ### the simulation statement -/

/-- the compositional compiler emits exactly `size st` opcodes, in every context -/
theorem compileS_length (st : Stmt) : ∀ (bk : BK) (ce : Option Nat), (compileS st bk ce).length = size st := by
  induction st with
  | skip => intro _ _; rfl
  | op t o => intro _ _; rfl
  | seq a b iha ihb => intro bk ce; simp [compileS, size, iha, ihb]
  | ifThen t a ih => intro bk ce; simp [compileS, size, ih]; omega
  | ifElse t te a b iha ihb => intro bk ce; simp [compileS, size, iha, ihb]; omega
  | untilLoop t a ih => intro bk ce; simp [compileS, size, ih]
  | whileLoop tw tr c a ihc iha => intro bk ce; simp [compileS, size, ihc, iha]; omega
  | repeatLoop tr a ih => intro bk ce; simp [compileS, size, ih]
  | doLoop td tl a ih => intro bk ce; simp [compileS, size, ih]; omega
  | brk t => intro bk ce; cases bk <;> rfl
  | caseS a ih => intro bk ce; simp [compileS, size, ih]
  | arm tOf tEndof body ih => intro bk ce; simp [compileS, size, ih]; omega
  | defn tc ts body ih => intro bk ce; simp [compileS, size, ih]; omega
  | call t addr ret => intro bk ce; rfl

/-- the instruction at `ipb` is the compiled `break` of token `t`: a jump (or a `Break`, inside a counted loop)
    to `k` opcodes past `endpc` -/
def BreakAt (code : List Op) (dmap : List Nat) (ipb : Nat) (bk : BK) (endpc : Nat) (t : Nat) : Prop :=
  dmap[ipb]? = some t ∧
  match bk with
  | .jump k => ∃ rel, code[ipb]? = some (.jump rel) ∧ calcJump ipb rel = endpc + k
  | .loop k => ∃ rel, code[ipb]? = some (.breakOp rel) ∧ calcJump ipb rel = endpc + k
  | .none => False

theorem BreakAt.shift {code : List Op} {dmap : List Nat} {ipb : Nat} {bk : BK} {e n t : Nat}
    (h : BreakAt code dmap ipb (bk.shift n) e t) : BreakAt code dmap ipb bk (e + n) t := by
  obtain ⟨h1, h2⟩ := h
  refine ⟨h1, ?_⟩
  cases bk with
  | none => exact h2
  | jump k => obtain ⟨rel, a, b⟩ := h2; exact ⟨rel, a, by rw [b]; omega⟩
  | loop k => obtain ⟨rel, a, b⟩ := h2; exact ⟨rel, a, by rw [b]; omega⟩

/-- what the VM does when the evaluator returns `r`: `E` = end of the fragment, `cend` = where a finished
    `of … endof` arm continues -/
def SimT (np : String → Option Prog) (code : List Op) (dmap : List Nat) (mv : Mach) (E : Nat) (bk : BK) (cend : Nat) : Res → Prop
  | .ok ms' => Catch np code mv E ms'
  | .err e tok ms' => Fails np dmap mv (.err e) tok ms'
  | .panic s tok ms' => Fails np dmap mv (.panic s) tok ms'
  | .brk t ms' => ∃ ipb, Catch np code mv ipb ms' ∧ BreakAt code dmap ipb bk E t
  | .exitCase ms' => Catch np code mv cend ms'
  | .timeout => True

/-- the VM first catches up to an intermediate point, then behaves as `r` says from there -/
theorem SimT.after {np : String → Option Prog} {code : List Op} {dmap : List Nat} {mv : Mach} {ip1 : Nat} {ms1 : Mach}
    {E : Nat} {bk : BK} {cend : Nat} (r : Res) (h1 : Catch np code mv ip1 ms1)
    (h2 : ∀ mv1, mv1.ctx.ip = ip1 → Rel mv1 ms1 → VOK code mv1 → SimT np code dmap mv1 E bk cend r) :
    SimT np code dmap mv E bk cend r := by
  cases r with
  | ok m => exact h1.trans h2
  | err e tok m => exact h1.fails h2
  | panic p tok m => exact h1.fails h2
  | brk t m =>
    obtain ⟨n1, mv1, s1, e1, r1, v1⟩ := h1
    obtain ⟨ipb, ⟨n2, mv2, s2, e2, r2, v2⟩, b⟩ := h2 mv1 e1 r1 v1
    exact ⟨ipb, ⟨n1 + n2, mv2, stepN_add np n1 n2 mv mv1 mv2 s1 s2, e2, r2, v2⟩, b⟩
  | exitCase m => exact h1.trans h2
  | timeout => trivial

/-! ### a `break` never travels out of a context that does not allow it -/

def NoBrk (r : Res) : Prop := ∀ t m, r ≠ .brk t m

theorem ofR_noBrk {α : Type} (r : R α) (tok : Nat) (k : α → Mach → Res) (h : ∀ a m, NoBrk (k a m)) : NoBrk (ofR r tok k) := by
  unfold ofR
  split
  · exact h _ _
  · intro t m e; cases e
  · intro t m e; cases e

theorem noBrk_ok (m : Mach) : NoBrk (.ok m) := fun _ _ e => by cases e
theorem noBrk_timeout : NoBrk .timeout := fun _ _ e => by cases e

/-- neither a statement evaluated where `break` is not allowed, nor the iterations of a counted loop, ever
    hand a travelling `break` to their surroundings -/
theorem no_brk_aux (np : String → Option Prog) (F : FunTab) : ∀ f,
    (∀ st m r, WFS st false r = true → NoBrk (evalS np F f st m)) ∧ (∀ tl a m, NoBrk (doIter np F f tl a m)) := by
  intro f
  induction f with
  | zero => exact ⟨fun _ _ _ _ => by simp only [evalS]; exact noBrk_timeout, fun _ _ _ => by simp only [doIter]; exact noBrk_timeout⟩
  | succ f ih =>
    obtain ⟨ihE, ihD⟩ := ih
    refine ⟨fun st m r hw => ?_, fun tl a m => ?_⟩
    · cases st with
      | skip => simp only [evalS]; exact noBrk_ok m
      | op t o => simp only [evalS]; exact ofR_noBrk _ _ _ (fun _ m => noBrk_ok m)
      | seq a b =>
        simp only [WFS, Bool.and_eq_true] at hw
        simp only [evalS]
        have ha := ihE a m r hw.1
        split
        · exact ihE b _ r hw.2
        · exact ha
      | ifThen t a =>
        simp only [WFS] at hw
        simp only [evalS]
        exact ofR_noBrk _ _ _ (fun c m => by split; exact ihE a m false hw; exact noBrk_ok m)
      | ifElse t te a b =>
        simp only [WFS, Bool.and_eq_true] at hw
        simp only [evalS]
        exact ofR_noBrk _ _ _ (fun c m => by split; exact ihE a m false hw.1; exact ihE b m false hw.2)
      | untilLoop t a =>
        simp only [WFS] at hw
        simp only [evalS]
        have ha := ihE a m false hw
        split
        · exact ofR_noBrk _ _ _ (fun c m => by split; exact noBrk_ok m; exact ihE (.untilLoop t a) m r (by simpa [WFS] using hw))
        · exact ha
      | whileLoop tw tr c a =>
        simp only [evalS]
        have hc : WFS c false false = true := by simp only [WFS, Bool.and_eq_true] at hw; exact hw.1
        have hcn := ihE c m false hc
        split
        · refine ofR_noBrk _ _ _ (fun b m => ?_)
          split
          · split
            · exact ihE (.whileLoop tw tr c a) _ r hw
            · exact noBrk_ok _
            · rename_i r1 hne1 hne2
              intro t2 m2 e2
              exact hne2 t2 m2 e2
          · exact noBrk_ok m
        · exact hcn
      | repeatLoop tr a =>
        simp only [evalS]
        split
        · exact ihE (.repeatLoop tr a) _ r hw
        · exact noBrk_ok _
        · rename_i r1 hne1 hne2
          intro t2 m2 e2
          exact hne2 t2 m2 e2
      | doLoop td tl a =>
        simp only [evalS]
        exact ofR_noBrk _ _ _ (fun l m => by split; exact ihD tl a _; exact noBrk_ok m)
      | brk t => simp [WFS] at hw
      | caseS a =>
        simp only [WFS] at hw
        simp only [evalS]
        have ha := ihE a m true hw
        split
        · exact noBrk_ok _
        · exact ha
      | arm tOf tEndof body =>
        simp only [WFS, Bool.and_eq_true] at hw
        simp only [evalS]
        refine ofR_noBrk _ _ _ (fun hit m => ?_)
        split
        · have hb := ihE body m false hw.2
          split
          · intro t m e; cases e
          · exact hb
        · exact noBrk_ok m
      | defn tc ts body => simp only [evalS]; exact noBrk_ok m
      | call t addr ret =>
        simp only [evalS]
        split
        · rename_i body ts hF
          split
          · exact ofR_noBrk _ _ _ (fun _ m => noBrk_ok m)
          · intro t m e; cases e
          · intro t m e; cases e
          · rename_i r h1 h2 h3
            intro t m e; exact h2 t m e
        · intro t m e; cases e
    · simp only [doIter]
      split
      · refine ofR_noBrk _ _ _ (fun more m => ?_)
        split
        · exact ihD tl a m
        · exact ofR_noBrk _ _ _ (fun _ m => noBrk_ok m)
      · exact ofR_noBrk _ _ _ (fun _ m => noBrk_ok m)
      · rename_i r1 hne1 hne2
        intro t2 m2 e2
        exact hne2 t2 m2 e2

/-! ### `exitCase` only comes out of an arm in the spine of a `case` -/

def NoExit (r : Res) : Prop := ∀ m, r ≠ .exitCase m

theorem ofR_noExit {α : Type} (r : R α) (tok : Nat) (k : α → Mach → Res) (h : ∀ a m, NoExit (k a m)) : NoExit (ofR r tok k) := by
  unfold ofR
  split
  · exact h _ _
  · intro m e; cases e
  · intro m e; cases e

theorem noExit_ok (m : Mach) : NoExit (.ok m) := fun _ e => by cases e
theorem noExit_timeout : NoExit .timeout := fun _ e => by cases e

theorem no_exit_aux (np : String → Option Prog) (F : FunTab) : ∀ f,
    (∀ st m k, WFS st k false = true → NoExit (evalS np F f st m)) ∧
    (∀ tl a m, WFS a true false = true → NoExit (doIter np F f tl a m)) := by
  intro f
  induction f with
  | zero => exact ⟨fun _ _ _ _ => by simp only [evalS]; exact noExit_timeout, fun _ _ _ _ => by simp only [doIter]; exact noExit_timeout⟩
  | succ f ih =>
    obtain ⟨ihE, ihD⟩ := ih
    refine ⟨fun st m k hw => ?_, fun tl a m hw => ?_⟩
    · cases st with
      | skip => simp only [evalS]; exact noExit_ok m
      | op t o => simp only [evalS]; exact ofR_noExit _ _ _ (fun _ m => noExit_ok m)
      | seq a b =>
        simp only [WFS, Bool.and_eq_true] at hw
        simp only [evalS]
        have ha := ihE a m k hw.1
        split
        · exact ihE b _ k hw.2
        · exact ha
      | ifThen t a =>
        simp only [WFS] at hw
        simp only [evalS]
        exact ofR_noExit _ _ _ (fun c m => by split; exact ihE a m k hw; exact noExit_ok m)
      | ifElse t te a b =>
        simp only [WFS, Bool.and_eq_true] at hw
        simp only [evalS]
        exact ofR_noExit _ _ _ (fun c m => by split; exact ihE a m k hw.1; exact ihE b m k hw.2)
      | untilLoop t a =>
        simp only [evalS]
        have hwa : WFS a false false = true := by simpa [WFS] using hw
        have ha := ihE a m false hwa
        split
        · exact ofR_noExit _ _ _ (fun c m => by split; exact noExit_ok m; exact ihE (.untilLoop t a) m k hw)
        · exact ha
      | whileLoop tw tr c a =>
        simp only [evalS]
        have hc : WFS c false false = true := by simp only [WFS, Bool.and_eq_true] at hw; exact hw.1
        have haw : WFS a true false = true := by simp only [WFS, Bool.and_eq_true] at hw; exact hw.2
        have hcn := ihE c m false hc
        split
        · refine ofR_noExit _ _ _ (fun b m => ?_)
          split
          · have hb := ihE a m true haw
            split
            · exact ihE (.whileLoop tw tr c a) _ k hw
            · exact noExit_ok _
            · exact hb
          · exact noExit_ok m
        · exact hcn
      | repeatLoop tr a =>
        simp only [evalS]
        have haw : WFS a true false = true := by simpa [WFS] using hw
        have hb := ihE a m true haw
        split
        · exact ihE (.repeatLoop tr a) _ k hw
        · exact noExit_ok _
        · exact hb
      | doLoop td tl a =>
        simp only [evalS]
        have haw : WFS a true false = true := by simpa [WFS] using hw
        exact ofR_noExit _ _ _ (fun l m => by split; exact ihD tl a _ haw; exact noExit_ok m)
      | brk t => simp only [evalS]; intro m e; cases e
      | caseS a =>
        simp only [evalS]
        split
        · exact noExit_ok _
        · rename_i r hne; exact hne
      | arm tOf tEndof body => simp [WFS] at hw
      | defn tc ts body => simp only [evalS]; exact noExit_ok m
      | call t addr ret =>
        simp only [evalS]
        split
        · split
          · exact ofR_noExit _ _ _ (fun _ m => noExit_ok m)
          · intro m e; cases e
          · intro m e; cases e
          · rename_i r h1 h2 h3
            intro m e; exact h3 m e
        · intro m e; cases e
    · simp only [doIter]
      have hb := ihE a m true hw
      split
      · refine ofR_noExit _ _ _ (fun more m => ?_)
        split
        · exact ihD tl a m hw
        · exact ofR_noExit _ _ _ (fun _ m => noExit_ok m)
      · exact ofR_noExit _ _ _ (fun _ m => noExit_ok m)
      · exact hb

/-! ### what structural evaluation does to the return stack

Only a call pushes a frame (and pops it when the callee ends); `local` changes the locals of the top frame;
nothing else touches the return stack. So when a statement completes, the return stack is the one it started
with, except possibly for the locals of its top frame — in particular the return address in that frame is
intact, which is what `;` relies on. -/

def SameFrames (a b : List Frame) : Prop :=
  a.length = b.length ∧ a.tail = b.tail ∧
    (a.head?.map fun f => (f.fnAddr, f.returnTo)) = (b.head?.map fun f => (f.fnAddr, f.returnTo))

theorem SameFrames.refl (a : List Frame) : SameFrames a a := ⟨rfl, rfl, rfl⟩
theorem SameFrames.trans {a b c : List Frame} (h1 : SameFrames a b) (h2 : SameFrames b c) : SameFrames a c :=
  ⟨h1.1.trans h2.1, h1.2.1.trans h2.2.1, h1.2.2.trans h2.2.2⟩
theorem SameFrames.of_eq {a b : List Frame} (h : a = b) : SameFrames a b := h ▸ SameFrames.refl a

theorem pushData_rs (m : Mach) (c : Cell) : (m.pushData c).2.rs = m.rs := by
  simp only [pushData]; split <;> (try split) <;> rfl
theorem popData_rs (m : Mach) : m.popData.2.rs = m.rs := by
  simp only [popData]; split <;> (try split) <;> rfl
theorem topData_rs (m : Mach) : m.topData.2.rs = m.rs := by
  simp only [topData]; split <;> (try split) <;> rfl
theorem dupData_rs (m : Mach) : m.dupData.2.rs = m.rs := by
  simp only [dupData]
  have h1 := topData_rs m
  rcases ht : m.topData with ⟨o, m1⟩
  rw [ht] at h1
  cases o with
  | ok c => simp only []; rw [pushData_rs, h1]
  | err e => exact h1
  | panic p => exact h1
theorem swapData_rs (m : Mach) : m.swapData.2.rs = m.rs := by
  simp only [swapData]; split <;> (try split) <;> rfl
theorem rotData_rs (m : Mach) : m.rotData.2.rs = m.rs := by
  simp only [rotData]; split <;> (try split) <;> rfl
theorem overData_rs (m : Mach) : m.overData.2.rs = m.rs := by
  simp only [overData]; split
  · split
    · rw [pushData_rs]; rfl
    · rfl
  · rfl
theorem swapCellRef_rs (m : Mach) (idx : Nat) (v : Cell) : (m.swapCellRef idx v).2.rs = m.rs := by
  simp only [swapCellRef]; split <;> (try split) <;> rfl
theorem popSpecial_rs (m : Mach) : m.popSpecial.2.rs = m.rs := by
  simp only [popSpecial]; split <;> (try split) <;> rfl
theorem setLoopItems_rs (m : Mach) (c : Cell) : (m.setLoopItems c).2.rs = m.rs := by
  simp only [setLoopItems]; split <;> (try split) <;> rfl
theorem loopNext_rs (m : Mach) : m.loopNext.2.rs = m.rs := by
  simp only [loopNext]; split <;> (try split) <;> rfl
theorem popLoop_rs (m : Mach) : m.popLoop.2.rs = m.rs := by
  simp only [popLoop]; split <;> (try split) <;> rfl

theorem runProg_rs (p : Prog) : ∀ m : Mach, (runProg p m).2.rs = m.rs := by
  induction p with
  | done => intro m; rfl
  | fail e => intro m; rfl
  | panic s => intro m; rfl
  | pop k ih =>
    intro m; simp only [runProg]
    have h1 := popData_rs m
    rcases hp : m.popData with ⟨o, m1⟩
    rw [hp] at h1
    cases o with
    | ok c => simp only []; rw [ih c m1, h1]
    | err e => exact h1
    | panic s => exact h1
  | push c k ih =>
    intro m; simp only [runProg]
    have h1 := pushData_rs m c
    rcases hp : m.pushData c with ⟨o, m1⟩
    rw [hp] at h1
    cases o with
    | ok u => simp only []; rw [ih m1, h1]
    | err e => exact h1
    | panic s => exact h1
  | top k ih =>
    intro m; simp only [runProg]
    have h1 := topData_rs m
    rcases hp : m.topData with ⟨o, m1⟩
    rw [hp] at h1
    cases o with
    | ok c => simp only []; rw [ih c m1, h1]
    | err e => exact h1
    | panic s => exact h1
  | dup k ih =>
    intro m; simp only [runProg]
    have h1 := dupData_rs m
    rcases hp : m.dupData with ⟨o, m1⟩
    rw [hp] at h1
    cases o with
    | ok u => simp only []; rw [ih m1, h1]
    | err e => exact h1
    | panic s => exact h1
  | swap k ih =>
    intro m; simp only [runProg]
    have h1 := swapData_rs m
    rcases hp : m.swapData with ⟨o, m1⟩
    rw [hp] at h1
    cases o with
    | ok u => simp only []; rw [ih m1, h1]
    | err e => exact h1
    | panic s => exact h1
  | rot k ih =>
    intro m; simp only [runProg]
    have h1 := rotData_rs m
    rcases hp : m.rotData with ⟨o, m1⟩
    rw [hp] at h1
    cases o with
    | ok u => simp only []; rw [ih m1, h1]
    | err e => exact h1
    | panic s => exact h1
  | over k ih =>
    intro m; simp only [runProg]
    have h1 := overData_rs m
    rcases hp : m.overData with ⟨o, m1⟩
    rw [hp] at h1
    cases o with
    | ok u => simp only []; rw [ih m1, h1]
    | err e => exact h1
    | panic s => exact h1
  | depth k ih => intro m; simp only [runProg]; exact ih _ m
  | rawLen k ih => intro m; simp only [runProg]; exact ih _ m
  | rawFrom ptr k ih => intro m; simp only [runProg]; exact ih _ m
  | getVar idx k ih =>
    intro m; simp only [runProg]
    split
    · exact ih _ m
    · rfl
    · rfl
  | setVar idx c k ih =>
    intro m; simp only [runProg]
    have h1 := swapCellRef_rs m idx c
    rcases hp : m.swapCellRef idx c with ⟨o, m1⟩
    rw [hp] at h1
    cases o with
    | ok u => simp only []; rw [ih m1, h1]
    | err e => exact h1
    | panic s => exact h1
  | print s k ih => intro m; simp only [runProg]; rw [ih]
  | pushSpecial p k ih => intro m; simp only [runProg]; rw [ih]; rfl
  | popSpecial k ih =>
    intro m; simp only [runProg]
    rw [ih, popSpecial_rs]
  | loopAt n k ih => intro m; simp only [runProg]; exact ih _ m
  | setLoopItems c k ih =>
    intro m; simp only [runProg]
    have h1 := setLoopItems_rs m c
    rcases hp : m.setLoopItems c with ⟨o, m1⟩
    rw [hp] at h1
    cases o with
    | ok u => simp only []; rw [ih m1, h1]
    | err e => exact h1
    | panic s => exact h1
  | stop k ih => intro m; simp only [runProg]; rw [ih]

theorem popCond_rs (m : Mach) : (popCond m).2.rs = m.rs := by
  unfold popCond
  have h1 := popData_rs m
  rcases hp : m.popData with ⟨o, m1⟩
  rw [hp] at h1
  cases o with
  | ok c => simp only []; cases c.condTrue <;> exact h1
  | err e => exact h1
  | panic s => exact h1

theorem caseTest_rs (m : Mach) : (caseTest m).2.rs = m.rs := by
  unfold caseTest
  have h1 := popData_rs m
  rcases hp : m.popData with ⟨o, m1⟩
  rw [hp] at h1
  cases o with
  | ok a =>
    simp only []
    have h2 := topData_rs m1
    rcases ht : m1.topData with ⟨o2, m2⟩
    rw [ht] at h2
    cases o2 with
    | ok b =>
      simp only []
      split
      · have h3 := popData_rs m2
        rcases hp2 : m2.popData with ⟨o3, m3⟩
        rw [hp2] at h3
        cases o3 <;> simp only [] <;> rw [h3, h2, h1]
      · rw [h2, h1]
    | err e => simp only []; rw [h2, h1]
    | panic s => simp only []; rw [h2, h1]
  | err e => exact h1
  | panic s => exact h1

theorem doInit_rs (m : Mach) : m.doInit.2.rs = m.rs := by
  simp only [doInit]
  have h1 := popData_rs m
  rcases hp : m.popData with ⟨o, m1⟩
  rw [hp] at h1
  cases o with
  | ok a =>
    simp only []
    have h2 := popData_rs m1
    rcases hp2 : m1.popData with ⟨o2, m2⟩
    rw [hp2] at h2
    cases o2 with
    | ok b =>
      simp only []
      cases a.toIsize <;> simp only [] <;> (try cases b.toIsize <;> simp only []) <;> rw [h2, h1]
    | err e => simp only []; rw [h2, h1]
    | panic p => simp only []; rw [h2, h1]
  | err e => exact h1
  | panic p => exact h1

theorem straightEff_frames (np : String → Option Prog) (m : Mach) (o : Op) : SameFrames (straightEff np m o).2.rs m.rs := by
  cases o <;> simp only [straightEff] <;> try exact SameFrames.refl _
  case native name =>
    cases hn : np name with
    | none => exact SameFrames.refl _
    | some p => exact SameFrames.of_eq (runProg_rs p m)
  case loadStr s => exact SameFrames.of_eq (pushData_rs m _)
  case loadF64 x => exact SameFrames.of_eq (pushData_rs m _)
  case loadI64 x => exact SameFrames.of_eq (pushData_rs m _)
  case loadNil => exact SameFrames.of_eq (pushData_rs m _)
  case loadCell c => exact SameFrames.of_eq (pushData_rs m _)
  case load idx =>
    cases hc : m.cellRef idx with
    | ok c => exact SameFrames.of_eq (pushData_rs m _)
    | err e => exact SameFrames.refl _
    | panic s => exact SameFrames.refl _
  case store idx =>
    have h1 := popData_rs m
    rcases hp : m.popData with ⟨o1, m1⟩
    rw [hp] at h1
    cases o1 with
    | ok v => simp only []; exact SameFrames.of_eq (by rw [swapCellRef_rs, h1])
    | err e => exact SameFrames.of_eq h1
    | panic s => exact SameFrames.of_eq h1
  case initLocal idx =>
    have h1 := popData_rs m
    rcases hp : m.popData with ⟨o1, m1⟩
    rw [hp] at h1
    cases o1 with
    | ok v =>
      simp only []
      cases hrs : m1.rs with
      | nil => simp only []; exact SameFrames.of_eq h1
      | cons f rest =>
        simp only []
        split
        · simp only [logStep]
          rw [← h1, hrs]
          exact ⟨rfl, rfl, rfl⟩
        · exact SameFrames.of_eq h1
    | err e => exact SameFrames.of_eq h1
    | panic s => exact SameFrames.of_eq h1
  case loadLocal i =>
    cases ht : m.topFrame with
    | ok f =>
      simp only []
      cases hl : f.locals[i]? with
      | some v => exact SameFrames.of_eq (pushData_rs m _)
      | none => exact SameFrames.refl _
    | err e => exact SameFrames.refl _
    | panic s => exact SameFrames.refl _

/-- the machine of a result that lets execution continue -/
def Res.cont : Res → Option Mach
  | .ok m | .brk _ m | .exitCase m => some m
  | _ => none

def KeepsFr (m : Mach) (r : Res) : Prop := ∀ m', r.cont = some m' → SameFrames m'.rs m.rs

theorem keepsFr_ofR {α : Type} {m : Mach} (r : R α) (tok : Nat) (k : α → Mach → Res) (hr : SameFrames r.2.rs m.rs)
    (hk : ∀ a m1, r = (.ok a, m1) → KeepsFr m1 (k a m1)) : KeepsFr m (ofR r tok k) := by
  obtain ⟨o, m1⟩ := r
  cases o with
  | ok a => intro m' hm; exact (hk a m1 rfl m' hm).trans hr
  | err e => intro m' hm; cases hm
  | panic p => intro m' hm; cases hm

theorem KeepsFr.trans_left {m m1 : Mach} {r : Res} (h1 : SameFrames m1.rs m.rs) (h2 : KeepsFr m1 r) : KeepsFr m r :=
  fun m' hm => (h2 m' hm).trans h1

theorem popReturn_ok (m m' : Mach) (f : Frame) (h : m.popReturn = (.ok f, m')) : m'.rs = m.rs.tail ∧ m.rs.head? = some f := by
  simp only [popReturn] at h
  split at h
  · rename_i f0 rest hl
    split at h
    · cases h; simp [logStep, hl]
    · cases h
  · cases h

/-- completion (and a travelling break, and a finished arm) leaves the return stack as it was, up to the
    locals of the top frame -/
theorem frames_aux (np : String → Option Prog) (F : FunTab) : ∀ f,
    (∀ st m, KeepsFr m (evalS np F f st m)) ∧ (∀ tl a m, KeepsFr m (doIter np F f tl a m)) := by
  intro f
  induction f with
  | zero => exact ⟨fun st m m' h => by simp [evalS, Res.cont] at h, fun tl a m m' h => by simp [doIter, Res.cont] at h⟩
  | succ f ih =>
    obtain ⟨ihE, ihD⟩ := ih
    have okR : ∀ m : Mach, KeepsFr m (.ok m) := fun m m' h => by cases h; exact SameFrames.refl _
    refine ⟨fun st m => ?_, fun tl a m => ?_⟩
    · cases st with
      | skip => simp only [evalS]; exact okR m
      | op t o => simp only [evalS]; exact keepsFr_ofR _ _ _ (straightEff_frames np m o) (fun _ m1 _ => okR m1)
      | seq a b =>
        simp only [evalS]
        have ha := ihE a m
        generalize evalS np F f a m = ra at ha ⊢
        cases ra with
        | ok m1 => exact KeepsFr.trans_left (ha m1 rfl) (ihE b m1)
        | err e t m1 => exact ha
        | panic p t m1 => exact ha
        | brk t m1 => exact ha
        | exitCase m1 => exact ha
        | timeout => exact ha
      | ifThen t a =>
        simp only [evalS]
        exact keepsFr_ofR _ _ _ (SameFrames.of_eq (popCond_rs m)) (fun c m1 _ => by split; exact ihE a m1; exact okR m1)
      | ifElse t te a b =>
        simp only [evalS]
        exact keepsFr_ofR _ _ _ (SameFrames.of_eq (popCond_rs m)) (fun c m1 _ => by split; exact ihE a m1; exact ihE b m1)
      | untilLoop t a =>
        simp only [evalS]
        have ha := ihE a m
        generalize evalS np F f a m = ra at ha ⊢
        cases ra with
        | ok m1 =>
          refine KeepsFr.trans_left (ha m1 rfl) ?_
          exact keepsFr_ofR _ _ _ (SameFrames.of_eq (popCond_rs m1)) (fun c m2 _ => by split; exact okR m2; exact ihE _ m2)
        | err e t m1 => exact ha
        | panic p t m1 => exact ha
        | brk t m1 => exact ha
        | exitCase m1 => exact ha
        | timeout => exact ha
      | whileLoop tw tr c a =>
        simp only [evalS]
        have hc := ihE c m
        generalize evalS np F f c m = rc at hc ⊢
        cases rc with
        | ok m1 =>
          refine KeepsFr.trans_left (hc m1 rfl) ?_
          refine keepsFr_ofR _ _ _ (SameFrames.of_eq (popCond_rs m1)) (fun b m2 _ => ?_)
          split
          · have ha := ihE a m2
            generalize evalS np F f a m2 = ra at ha ⊢
            cases ra with
            | ok m3 => exact KeepsFr.trans_left (ha m3 rfl) (ihE _ m3)
            | brk t m3 => intro m' h; cases h; exact ha m3 rfl
            | err e t m3 => exact ha
            | panic p t m3 => exact ha
            | exitCase m3 => exact ha
            | timeout => exact ha
          · exact okR m2
        | err e t m1 => exact hc
        | panic p t m1 => exact hc
        | brk t m1 => exact hc
        | exitCase m1 => exact hc
        | timeout => exact hc
      | repeatLoop tr a =>
        simp only [evalS]
        have ha := ihE a m
        generalize evalS np F f a m = ra at ha ⊢
        cases ra with
        | ok m1 => exact KeepsFr.trans_left (ha m1 rfl) (ihE _ m1)
        | brk t m1 => intro m' h; cases h; exact ha m1 rfl
        | err e t m1 => exact ha
        | panic p t m1 => exact ha
        | exitCase m1 => exact ha
        | timeout => exact ha
      | doLoop td tl a =>
        simp only [evalS]
        refine keepsFr_ofR _ _ _ (SameFrames.of_eq (doInit_rs m)) (fun l m1 _ => ?_)
        split
        · exact KeepsFr.trans_left (SameFrames.refl _) (ihD tl a (m1.pushLoop l))
        · exact okR m1
      | brk t => simp only [evalS]; intro m' h; cases h; exact SameFrames.refl _
      | caseS a =>
        simp only [evalS]
        have ha := ihE a m
        generalize evalS np F f a m = ra at ha ⊢
        cases ra with
        | exitCase m1 => intro m' h; cases h; exact ha m1 rfl
        | ok m1 => exact ha
        | err e t m1 => exact ha
        | panic p t m1 => exact ha
        | brk t m1 => exact ha
        | timeout => exact ha
      | arm tOf tEndof body =>
        simp only [evalS]
        refine keepsFr_ofR _ _ _ (SameFrames.of_eq (caseTest_rs m)) (fun hit m1 _ => ?_)
        split
        · have hb := ihE body m1
          generalize evalS np F f body m1 = rb at hb ⊢
          cases rb with
          | ok m2 => intro m' h; cases h; exact hb m2 rfl
          | err e t m2 => exact hb
          | panic p t m2 => exact hb
          | brk t m2 => exact hb
          | exitCase m2 => exact hb
          | timeout => exact hb
        · exact okR m1
      | defn tc ts body => simp only [evalS]; exact okR m
      | call t addr ret =>
        simp only [evalS]
        split
        · rename_i body ts hFa
          have hb := ihE body (m.pushReturn { fnAddr := addr, returnTo := ret, locals := [] })
          generalize evalS np F f body (m.pushReturn { fnAddr := addr, returnTo := ret, locals := [] }) = rb at hb ⊢
          cases rb with
          | ok m2 =>
            simp only [ofR]
            have h2 := hb m2 rfl
            rcases hp : m2.popReturn with ⟨o, m3⟩
            cases o with
            | ok fr =>
              simp only []
              intro m' h; cases h
              have := (popReturn_ok m2 m3 fr hp).1
              have h3 : m2.rs.tail = m.rs := by rw [h2.2.1]; simp [pushReturn, logStep]
              exact SameFrames.of_eq (by rw [this, h3])
            | err e => simp only []; intro m' h; cases h
            | panic p => simp only []; intro m' h; cases h
          | err e t m2 => intro m' h; cases h
          | panic p t m2 => intro m' h; cases h
          | brk t m2 => intro m' h; cases h
          | exitCase m2 => intro m' h; cases h
          | timeout => intro m' h; cases h
        · intro m' h; cases h
    · simp only [doIter]
      have ha := ihE a m
      generalize evalS np F f a m = ra at ha ⊢
      cases ra with
      | ok m1 =>
        refine KeepsFr.trans_left (ha m1 rfl) ?_
        refine keepsFr_ofR _ _ _ (SameFrames.of_eq (loopNext_rs m1)) (fun more m2 _ => ?_)
        split
        · exact ihD tl a m2
        · exact keepsFr_ofR _ _ _ (SameFrames.of_eq (popLoop_rs m2)) (fun _ m3 _ m' h => by cases h; exact SameFrames.refl _)
      | brk tb m1 =>
        refine KeepsFr.trans_left (ha m1 rfl) ?_
        exact keepsFr_ofR _ _ _ (SameFrames.of_eq (popLoop_rs m1)) (fun _ m3 _ m' h => by cases h; exact SameFrames.refl _)
      | err e t m1 => exact ha
      | panic p t m1 => exact ha
      | exitCase m1 => exact ha
      | timeout => exact ha

/-! ### the simulation -/

theorem shift_ne_none (bk : BK) (n : Nat) : (bk.shift n != BK.none) = (bk != BK.none) := by
  cases bk <;> rfl

theorem CodeAt.bound {code : List Op} {dmap : List Nat} {pc : Nat} {frag : List (Op × Nat)} (h : CodeAt code dmap pc frag)
    (i : Nat) (hi : i < frag.length) : pc + i < code.length := by
  have := (h i hi).1
  rcases Nat.lt_or_ge (pc + i) code.length with h1 | h1
  · exact h1
  · rw [List.getElem?_eq_none h1] at this; cases this

/-- `ofR` against a one-instruction lemma -/
theorem simT_ofR {np : String → Option Prog} {code : List Op} {dmap : List Nat} {mv : Mach} {α : Type}
    {E : Nat} {bk : BK} {cend : Nat} (r : R α) (tok : Nat) (k : α → Mach → Res)
    (hok : ∀ a ms1, r = (.ok a, ms1) → SimT np code dmap mv E bk cend (k a ms1))
    (herr : ∀ e ms1, r = (.err e, ms1) → Fails np dmap mv (.err e) tok ms1)
    (hpanic : ∀ p ms1, r = (.panic p, ms1) → Fails np dmap mv (.panic p) tok ms1) :
    SimT np code dmap mv E bk cend (ofR r tok k) := by
  obtain ⟨o, m⟩ := r
  cases o with
  | ok a => exact hok a m rfl
  | err e => exact herr e m rfl
  | panic p => exact hpanic p m rfl

theorem calcJump_fwd' (ip n : Nat) (rel : Int) (hrel : rel = (n : Int)) (h : ip + n < 2^64) : calcJump ip rel = ip + n := by
  subst hrel; exact calcJump_fwd ip n h

theorem calcJump_back' (ip k : Nat) (rel : Int) (hrel : rel = -(k : Int)) (h : k ≤ ip) (h2 : ip < 2^64) : calcJump ip rel = ip - k := by
  subst hrel; exact calcJump_back ip k h h2

/-- where a finished arm continues is irrelevant for a result that is not `exitCase` -/
theorem SimT.recend {np : String → Option Prog} {code : List Op} {dmap : List Nat} {mv : Mach} {E : Nat} {bk : BK} {c c' : Nat}
    {r : Res} (hn : NoExit r) (h : SimT np code dmap mv E bk c r) : SimT np code dmap mv E bk c' r := by
  cases r with
  | exitCase m => exact absurd rfl (hn m)
  | ok m => exact h
  | err e t m => exact h
  | panic p t m => exact h
  | brk t m => exact h
  | timeout => trivial

/-- the target of a `break` lies inside the code -/
def BKOk (code : List Op) (bk : BK) (E : Nat) : Prop :=
  match bk with
  | .jump k => E + k ≤ code.length
  | .loop k => E + k ≤ code.length
  | .none => True

theorem BKOk.shift {code : List Op} {bk : BK} {E n : Nat} (h : BKOk code bk (E + n)) : BKOk code (bk.shift n) E := by
  cases bk <;> simp only [BKOk, BK.shift] at h ⊢ <;> omega

def isLoop : Stmt → Bool
  | .untilLoop .. | .whileLoop .. | .repeatLoop .. | .doLoop .. => true
  | _ => false

/-- the function table describes the code: at every entry address sits the compiled body followed by `Ret`,
    the body is well-formed and its calls carry the right return addresses -/
def FunsOK (code : List Op) (dmap : List Nat) (F : FunTab) : Prop :=
  ∀ addr body ts, F addr = some (body, ts) →
    CodeAt code dmap addr (compileS body BK.none none ++ [(Op.ret, ts)]) ∧ WFS body false false = true ∧ placed F body addr = true

/-- the definitions found in the tree sit in the code where the table says -/
theorem funsOf_ok (F : FunTab) (code : List Op) (dmap : List Nat) : ∀ (st : Stmt) (bk : BK) (ce : Option Nat) (pc : Nat) (k r : Bool),
    CodeAt code dmap pc (compileS st bk ce) → WFS st k r = true → placed F st pc = true →
    ∀ e ∈ funsOf st pc, CodeAt code dmap e.1 (compileS e.2.1 BK.none none ++ [(Op.ret, e.2.2)]) ∧
      WFS e.2.1 false false = true ∧ placed F e.2.1 e.1 = true := by
  intro st
  induction st with
  | skip => intro bk ce pc k r _ _ _ e he; simp [funsOf] at he
  | op t o => intro bk ce pc k r _ _ _ e he; simp [funsOf] at he
  | brk t => intro bk ce pc k r _ _ _ e he; simp [funsOf] at he
  | call t a rt => intro bk ce pc k r _ _ _ e he; simp [funsOf] at he
  | seq a b iha ihb =>
    intro bk ce pc k r hc hw hp e he
    simp only [compileS] at hc
    simp only [WFS, Bool.and_eq_true] at hw
    simp only [placed, Bool.and_eq_true] at hp
    simp only [funsOf, List.mem_append] at he
    rcases he with he | he
    · exact iha _ _ pc k r hc.left hw.1 hp.1 e he
    · have := hc.right; rw [compileS_length] at this
      exact ihb _ _ _ k r this hw.2 hp.2 e he
  | ifThen t a ih =>
    intro bk ce pc k r hc hw hp e he
    simp only [compileS] at hc; simp only [WFS] at hw; simp only [placed] at hp; simp only [funsOf] at he
    exact ih _ _ _ k false hc.tail hw hp e he
  | ifElse t te a b iha ihb =>
    intro bk ce pc k r hc hw hp e he
    simp only [compileS] at hc
    simp only [WFS, Bool.and_eq_true] at hw
    simp only [placed, Bool.and_eq_true] at hp
    simp only [funsOf, List.mem_append] at he
    rcases he with he | he
    · exact iha _ _ _ k false hc.tail.left hw.1 hp.1 e he
    · have := hc.tail.right; rw [compileS_length] at this
      exact ihb _ _ _ k false this.tail hw.2 hp.2 e he
  | untilLoop t a ih =>
    intro bk ce pc k r hc hw hp e he
    simp only [compileS] at hc; simp only [WFS] at hw; simp only [placed] at hp; simp only [funsOf] at he
    exact ih _ _ _ false false hc.left hw hp e he
  | whileLoop tw tr c a ihc iha =>
    intro bk ce pc k r hc hw hp e he
    simp only [compileS] at hc
    simp only [WFS, Bool.and_eq_true] at hw
    simp only [placed, Bool.and_eq_true] at hp
    simp only [funsOf, List.mem_append] at he
    rcases he with he | he
    · exact ihc _ _ _ false false hc.left.left hw.1 hp.1 e he
    · have := hc.left.right; rw [compileS_length] at this
      exact iha _ _ _ true false this.tail hw.2 hp.2 e he
  | repeatLoop tr a ih =>
    intro bk ce pc k r hc hw hp e he
    simp only [compileS] at hc; simp only [WFS] at hw; simp only [placed] at hp; simp only [funsOf] at he
    exact ih _ _ _ true false hc.left hw hp e he
  | doLoop td tl a ih =>
    intro bk ce pc k r hc hw hp e he
    simp only [compileS] at hc; simp only [WFS] at hw; simp only [placed] at hp; simp only [funsOf] at he
    exact ih _ _ _ true false hc.tail.left hw hp e he
  | caseS a ih =>
    intro bk ce pc k r hc hw hp e he
    simp only [compileS] at hc; simp only [WFS] at hw; simp only [placed] at hp; simp only [funsOf] at he
    exact ih _ _ _ k true hc hw hp e he
  | arm tOf tEndof body ih =>
    intro bk ce pc k r hc hw hp e he
    simp only [compileS] at hc
    simp only [WFS, Bool.and_eq_true] at hw
    simp only [placed] at hp; simp only [funsOf] at he
    exact ih _ _ _ k false hc.tail.left hw.2 hp e he
  | defn tc ts body ih =>
    intro bk ce pc k r hc hw hp e he
    simp only [compileS] at hc; simp only [WFS] at hw; simp only [placed] at hp
    simp only [funsOf, List.mem_cons] at he
    rcases he with rfl | he
    · exact ⟨hc.tail, hw, hp⟩
    · exact ih _ _ _ false false hc.tail.left hw hp e he

section main
variable (np : String → Option Prog) (F : FunTab) (code : List Op) (dmap : List Nat) (hlen : code.length < 2^62)
  (hF : FunsOK code dmap F)
include hlen hF

/-- statement for statements -/
def SimStmt (f : Nat) : Prop :=
  ∀ (st : Stmt) (bk : BK) (ce : Option Nat) (pc : Nat) (mv ms : Mach), VOK code mv → Rel mv ms → mv.ctx.ip = pc →
    CodeAt code dmap pc (compileS st bk ce) → WFS st (bk != BK.none) ce.isSome = true → BKOk code bk (pc + size st) →
    pc + size st + ce.getD 0 ≤ code.length → placed F st pc = true →
    SimT np code dmap mv (pc + size st) bk (pc + size st + ce.getD 0) (evalS np F f st ms)

/-- statement for the iterations of a counted loop: the VM stands at the first opcode of the body (`pc + 1`),
    the loop record is pushed; when the evaluator is done the VM is behind the `Loop` opcode -/
def SimIter (f : Nat) : Prop :=
  ∀ (td tl : Nat) (a : Stmt) (bk : BK) (ce : Option Nat) (pc : Nat) (mv ms : Mach), VOK code mv → Rel mv ms →
    mv.ctx.ip = pc + 1 → CodeAt code dmap pc (compileS (.doLoop td tl a) bk ce) → WFS a true false = true →
    placed F a (pc + 1) = true →
    SimT np code dmap mv (pc + size a + 2) BK.none 0 (doIter np F f tl a ms)

theorem sim_acyclic (f : Nat) (ihE : SimStmt np F code dmap f) (ihD : SimIter np F code dmap f)
    (st : Stmt) (bk : BK) (ce : Option Nat) (pc : Nat) (mv ms : Mach) (v : VOK code mv) (hr : Rel mv ms)
    (hip : mv.ctx.ip = pc) (hc : CodeAt code dmap pc (compileS st bk ce))
    (hw : WFS st (bk != BK.none) ce.isSome = true) (hbk : BKOk code bk (pc + size st))
    (hend : pc + size st + ce.getD 0 ≤ code.length) (hpl : placed F st pc = true)
    (hacyc : isLoop st = false) :
    SimT np code dmap mv (pc + size st) bk (pc + size st + ce.getD 0) (evalS np F (f + 1) st ms) := by
  cases st with
  | skip =>
    simp only [evalS, size, Nat.add_zero]
    rw [← hip]; exact Catch.refl np v hr
  | op t o =>
    simp only [evalS, size]
    simp only [WFS] at hw
    simp only [compileS] at hc
    have h1 := one_straight np (dmap := dmap) v hr hip hc.head.1 hc.head.2 hw
    generalize straightEff np ms o = r at h1 ⊢
    obtain ⟨oo, m1⟩ := r
    cases oo <;> exact h1
  | seq a b =>
    simp only [evalS, size]
    simp only [WFS, Bool.and_eq_true] at hw
    simp only [placed, Bool.and_eq_true] at hpl
    simp only [compileS] at hc
    have hla := compileS_length a (bk.shift (size b)) (ce.map (· + size b))
    have ha := ihE a (bk.shift (size b)) (ce.map (· + size b)) pc mv ms v hr hip hc.left
      (by rw [shift_ne_none]; simpa using hw.1) (BKOk.shift (by simpa [size, Nat.add_assoc] using hbk))
      (by cases ce <;> simp [size] at hend ⊢ <;> omega) hpl.1
    have hcb : CodeAt code dmap (pc + size a) (compileS b bk ce) := by have := hc.right; rwa [hla] at this
    -- what the first part returns decides
    generalize hra : evalS np F f a ms = ra at ha
    cases ra with
    | ok ms1 =>
      simp only
      have := SimT.after (E := pc + size a + size b) (bk := bk) (cend := pc + size a + size b + ce.getD 0)
        (evalS np F f b ms1) ha (fun mv1 e1 r1 v1 => ihE b bk ce (pc + size a) mv1 ms1 v1 r1 e1 hcb hw.2 (by simpa [size, Nat.add_assoc] using hbk)
          (by simp [size] at hend; omega) hpl.2)
      simpa [Nat.add_assoc] using this
    | err e tok m => exact ha
    | panic p tok m => exact ha
    | brk t m =>
      obtain ⟨ipb, c, bb⟩ := ha
      exact ⟨ipb, c, by have := bb.shift; simpa [Nat.add_assoc] using this⟩
    | exitCase m =>
      simp only [SimT] at ha ⊢
      cases ce with
      | none =>
        -- no arm outside the spine of a `case`
        exact absurd hra ((no_exit_aux np F f).1 a ms _ (by simpa using hw.1) m)
      | some c =>
        simp only [Option.map, Option.getD] at ha ⊢
        have : pc + size a + (c + size b) = pc + (size a + size b) + c := by omega
        rw [← this]; exact ha
    | timeout => trivial
  | ifThen t a =>
    simp only [evalS, size]
    simp only [WFS] at hw
    simp only [compileS] at hc
    have h1 := one_cond np (dmap := dmap) v hr hip hc.head.1 hc.head.2
    have hla := compileS_length a bk none
    have hb : pc + size a < code.length := hc.bound (size a) (by simp [hla])
    have hE : pc + (1 + size a) = pc + 1 + size a := by omega
    generalize popCond ms = r at h1 ⊢
    obtain ⟨oo, m1⟩ := r
    cases oo with
    | ok b =>
      cases b with
      | true =>
        simp only [ofR, if_true] at h1 ⊢
        have := SimT.after (evalS np F f a m1) h1 (fun mv1 e1 r1 v1 =>
          ihE a bk none (pc + 1) mv1 m1 v1 r1 e1 hc.tail (by simpa using hw) (by simpa [size, hE] using hbk)
            (by simp [size] at hend ⊢; omega) (by simpa [placed] using hpl))
        rw [hE]
        exact SimT.recend ((no_exit_aux np F f).1 a m1 _ (by simpa using hw)) this
      | false =>
        simp only [ofR] at h1 ⊢
        have hj : calcJump pc (↑(size a) + 1) = pc + (1 + size a) :=
          (calcJump_fwd' pc (size a + 1) _ (by omega) (by omega)).trans (by omega)
        rw [hj] at h1
        exact h1
    | err e => exact h1
    | panic p => exact h1
  | ifElse t te a b =>
    simp only [evalS, size]
    simp only [WFS, Bool.and_eq_true] at hw
    simp only [compileS] at hc
    have h1 := one_cond np (dmap := dmap) v hr hip hc.head.1 hc.head.2
    have hla := compileS_length a (bk.shift (1 + size b)) none
    have hlb := compileS_length b bk none
    have hca : CodeAt code dmap (pc + 1) (compileS a (bk.shift (1 + size b)) none) := hc.tail.left
    have hcr := hc.tail.right
    rw [hla] at hcr
    have hcj := hcr.head
    have hcb : CodeAt code dmap (pc + 1 + size a + 1) (compileS b bk none) := hcr.tail
    have hb : pc + 1 + size a + size b < code.length := by
      have := hc.bound (1 + size a + size b) (by simp [hla, hlb]; omega); omega
    have hE : pc + (1 + size a + 1 + size b) = pc + 1 + size a + 1 + size b := by omega
    generalize popCond ms = r at h1 ⊢
    obtain ⟨oo, m1⟩ := r
    cases oo with
    | ok c =>
      cases c with
      | true =>
        simp only [ofR, if_true] at h1 ⊢
        have hra := SimT.after (evalS np F f a m1) h1 (fun mv1 e1 r1 v1 =>
          ihE a (bk.shift (1 + size b)) none (pc + 1) mv1 m1 v1 r1 e1 hca (by rw [shift_ne_none]; simpa using hw.1)
            (BKOk.shift (by simpa [size, hE, Nat.add_assoc] using hbk)) (by simp; omega)
            (by simp only [placed, Bool.and_eq_true] at hpl; exact hpl.1))
        have hne := (no_exit_aux np F f).1 a m1 _ (by simpa using hw.1)
        generalize evalS np F f a m1 = ra at hra hne ⊢
        rw [hE]
        cases ra with
        | ok m2 =>
          -- the jump over the else part
          refine Catch.trans hra (fun mv2 e2 r2 v2 => ?_)
          have hj := one_jump np v2 r2 e2 hcj.1
          have : calcJump (pc + 1 + size a) (↑(size b) + 1) = pc + 1 + size a + 1 + size b :=
            (calcJump_fwd' _ (size b + 1) _ (by omega) (by omega)).trans (by omega)
          rw [this] at hj; exact hj
        | err e tok m => exact hra
        | panic p tok m => exact hra
        | brk t2 m =>
          obtain ⟨ipb, c, bb⟩ := hra
          exact ⟨ipb, c, by have := bb.shift; simpa [Nat.add_assoc] using this⟩
        | exitCase m => exact absurd rfl (hne m)
        | timeout => trivial
      | false =>
        simp only [ofR] at h1 ⊢
        have hj : calcJump pc (↑(size a) + 2) = pc + 1 + size a + 1 :=
          (calcJump_fwd' pc (size a + 2) _ (by omega) (by omega)).trans (by omega)
        rw [hj] at h1
        have := SimT.after (evalS np F f b m1) h1 (fun mv1 e1 r1 v1 =>
          ihE b bk none (pc + 1 + size a + 1) mv1 m1 v1 r1 e1 hcb (by simpa using hw.2) (by simpa [size, hE] using hbk)
            (by simp; omega) (by simp only [placed, Bool.and_eq_true] at hpl; exact hpl.2))
        rw [hE]
        exact SimT.recend ((no_exit_aux np F f).1 b m1 _ (by simpa using hw.2)) this
    | err e => exact h1
    | panic p => exact h1
  | brk t =>
    simp only [evalS, size]
    cases bk with
    | none => simp [WFS] at hw
    | jump k =>
      simp only [compileS] at hc
      simp only [BKOk, size] at hbk
      refine ⟨pc, by rw [← hip]; exact Catch.refl np v hr, hc.head.2, ↑k + 1, hc.head.1, ?_⟩
      exact (calcJump_fwd' pc (k + 1) _ (by omega) (by omega)).trans (by omega)
    | loop k =>
      simp only [compileS] at hc
      simp only [BKOk, size] at hbk
      refine ⟨pc, by rw [← hip]; exact Catch.refl np v hr, hc.head.2, ↑k + 1, hc.head.1, ?_⟩
      exact (calcJump_fwd' pc (k + 1) _ (by omega) (by omega)).trans (by omega)
  | caseS a =>
    simp only [evalS, size]
    simp only [WFS] at hw
    simp only [compileS] at hc
    have ha := ihE a bk (some 0) pc mv ms v hr hip hc (by simpa using hw) (by simpa [size] using hbk)
      (by simp [size] at hend ⊢; omega) (by simpa [placed] using hpl)
    generalize evalS np F f a ms = ra at ha ⊢
    cases ra with
    | exitCase m => simpa [SimT] using ha
    | ok m => exact ha
    | err e tok m => exact ha
    | panic p tok m => exact ha
    | brk t m => exact ha
    | timeout => trivial
  | arm tOf tEndof body =>
    simp only [evalS, size]
    simp only [WFS, Bool.and_eq_true] at hw
    obtain ⟨c, rfl⟩ : ∃ c, ce = some c := by cases ce with | none => simp at hw | some c => exact ⟨c, rfl⟩
    simp only [compileS] at hc
    have h1 := one_case np (dmap := dmap) v hr hip hc.head.1 hc.head.2
    have hlb := compileS_length body (bk.shift 1) none
    have hcb : CodeAt code dmap (pc + 1) (compileS body (bk.shift 1) none) := hc.tail.left
    have hcr := hc.tail.right
    rw [hlb] at hcr
    have hcj := hcr.head
    have hb : pc + 1 + size body < code.length := by
      have := hc.bound (1 + size body) (by simp [hlb]; omega); omega
    have hE : pc + (1 + size body + 1) = pc + 1 + size body + 1 := by omega
    generalize caseTest ms = r at h1 ⊢
    obtain ⟨oo, m1⟩ := r
    cases oo with
    | ok hit =>
      cases hit with
      | true =>
        simp only [ofR, if_true] at h1 ⊢
        have hra := SimT.after (evalS np F f body m1) h1 (fun mv1 e1 r1 v1 =>
          ihE body (bk.shift 1) none (pc + 1) mv1 m1 v1 r1 e1 hcb (by rw [shift_ne_none]; simpa using hw.2)
            (BKOk.shift (by simpa [size, hE] using hbk)) (by simp; omega) (by simpa [placed] using hpl))
        have hne := (no_exit_aux np F f).1 body m1 _ (by simpa using hw.2)
        generalize evalS np F f body m1 = ra at hra hne ⊢
        rw [hE]
        cases ra with
        | ok m2 =>
          -- `endof`: jump to the end of the whole case
          show Catch np code mv _ m2
          refine Catch.trans hra (fun mv2 e2 r2 v2 => ?_)
          have hj := one_jump np v2 r2 e2 hcj.1
          simp only [size, Option.getD] at hend
          have : calcJump (pc + 1 + size body) (↑((some c).getD 0) + 1) = pc + 1 + size body + 1 + (some c).getD 0 :=
            (calcJump_fwd' _ (c + 1) _ (by simp) (by omega)).trans (by simp; omega)
          rw [this] at hj; exact hj
        | err e tok m => exact hra
        | panic p tok m => exact hra
        | brk t2 m =>
          obtain ⟨ipb, cc, bb⟩ := hra
          exact ⟨ipb, cc, by have := bb.shift; simpa [Nat.add_assoc] using this⟩
        | exitCase m => exact absurd rfl (hne m)
        | timeout => trivial
      | false =>
        simp only [ofR] at h1 ⊢
        have hj : calcJump pc (↑(size body) + 2) = pc + (1 + size body + 1) :=
          (calcJump_fwd' pc (size body + 2) _ (by omega) (by omega)).trans (by omega)
        rw [hj] at h1
        exact h1
    | err e => exact h1
    | panic p => exact h1
  | defn tc ts body =>
    simp only [evalS, size]
    simp only [compileS] at hc
    have hlb := compileS_length body BK.none none
    have hb : pc + 1 + size body < code.length := by
      have := hc.bound (1 + size body) (by simp [hlb]; omega); omega
    have hj := one_jump np v hr hip hc.head.1
    have : calcJump pc (↑(size body) + 2) = pc + (1 + size body + 1) :=
      (calcJump_fwd' pc (size body + 2) _ (by omega) (by omega)).trans (by omega)
    rw [this] at hj
    exact hj
  | call t addr ret =>
    simp only [placed, Bool.and_eq_true, beq_iff_eq] at hpl
    obtain ⟨hret, hsome⟩ := hpl
    simp only [evalS, size]
    simp only [compileS] at hc
    obtain ⟨⟨body, ts⟩, hFa⟩ := Option.isSome_iff_exists.mp hsome
    obtain ⟨hcf, hwf, hplf⟩ := hF addr body ts hFa
    simp only [hFa]
    subst hret
    have hlb := compileS_length body BK.none none
    have hcb : CodeAt code dmap addr (compileS body BK.none none) := hcf.left
    have hcr := (by have := hcf.right; rwa [hlb] at this : CodeAt code dmap (addr + size body) [(Op.ret, ts)]).head
    have hbb : addr + size body < code.length := by
      have := hcf.bound (size body) (by simp [hlb]); exact this
    have hcall := one_call np v hr hip hc.head.1
    have hfr := (frames_aux np F f).1 body (ms.pushReturn { fnAddr := addr, returnTo := pc + 1, locals := [] })
    have hnb := (no_brk_aux np F f).1 body (ms.pushReturn { fnAddr := addr, returnTo := pc + 1, locals := [] }) false hwf
    have hne := (no_exit_aux np F f).1 body (ms.pushReturn { fnAddr := addr, returnTo := pc + 1, locals := [] }) false hwf
    have hbody := SimT.after (E := addr + size body) (bk := BK.none) (cend := addr + size body + 0)
      (evalS np F f body (ms.pushReturn { fnAddr := addr, returnTo := pc + 1, locals := [] })) hcall
      (fun mv1 e1 r1 v1 => ihE body BK.none none addr mv1 _ v1 r1 e1 hcb (by simpa using hwf) trivial (by simp; omega) hplf)
    generalize evalS np F f body (ms.pushReturn { fnAddr := addr, returnTo := pc + 1, locals := [] }) = rb at hfr hnb hne hbody ⊢
    cases rb with
    | ok m2 =>
      simp only
      refine SimT.after _ hbody (fun mv2 e2 r2 v2 => ?_)
      have h1 := one_ret np (dmap := dmap) v2 r2 e2 hcr.1 hcr.2
      have hsf := hfr m2 rfl
      rcases hp : m2.popReturn with ⟨o, m3⟩
      rw [hp] at h1
      cases o with
      | ok fr =>
        simp only [ofR] at h1 ⊢
        -- the frame `;` pops is the one the call pushed: its return address is the opcode after the call
        have hhd := (popReturn_ok m2 m3 fr hp).2
        have := hsf.2.2
        rw [hhd] at this
        simp [pushReturn, logStep] at this
        rw [this.2] at h1
        exact h1
      | err e => exact h1
      | panic p => exact h1
    | err e tok m2 => exact hbody
    | panic p tok m2 => exact hbody
    | brk t2 m2 => exact absurd rfl (hnb t2 m2)
    | exitCase m2 => exact absurd rfl (hne m2)
    | timeout => trivial
  | untilLoop t a => simp [isLoop] at hacyc
  | whileLoop tw tr c a => simp [isLoop] at hacyc
  | repeatLoop tr a => simp [isLoop] at hacyc
  | doLoop td tl a => simp [isLoop] at hacyc

theorem sim_loops (f : Nat) (ihE : SimStmt np F code dmap f) (ihD : SimIter np F code dmap f)
    (st : Stmt) (bk : BK) (ce : Option Nat) (pc : Nat) (mv ms : Mach) (v : VOK code mv) (hr : Rel mv ms)
    (hip : mv.ctx.ip = pc) (hc : CodeAt code dmap pc (compileS st bk ce))
    (hw : WFS st (bk != BK.none) ce.isSome = true) (hbk : BKOk code bk (pc + size st))
    (hend : pc + size st + ce.getD 0 ≤ code.length) (hpl : placed F st pc = true)
    (hloop : isLoop st = true) :
    SimT np code dmap mv (pc + size st) bk (pc + size st + ce.getD 0) (evalS np F (f + 1) st ms) := by
  cases st with
  | untilLoop t a =>
    have hw0 := hw; have hc0 := hc
    simp only [evalS, size]
    simp only [WFS] at hw
    simp only [compileS] at hc
    have hla := compileS_length a BK.none none
    have hcj := (by have := hc.right; rwa [hla] at this : CodeAt code dmap (pc + size a) [(Op.jumpIfNot (-(size a : Int)), t)]).head
    have hb : pc + size a < code.length := by have := hc.bound (size a) (by simp [hla]); exact this
    have ha := ihE a BK.none none pc mv ms v hr hip hc.left (by simpa using hw) trivial (by simp; omega) (by simpa [placed] using hpl)
    have hne := (no_exit_aux np F f).1 a ms _ hw
    generalize evalS np F f a ms = ra at ha hne ⊢
    cases ra with
    | ok m1 =>
      simp only
      refine SimT.after _ ha (fun mv1 e1 r1 v1 => ?_)
      have h1 := one_cond np (dmap := dmap) v1 r1 e1 hcj.1 hcj.2
      generalize popCond m1 = r at h1 ⊢
      obtain ⟨oo, m2⟩ := r
      cases oo with
      | ok b =>
        cases b with
        | true => simp only [ofR, if_true] at h1 ⊢; exact h1
        | false =>
          simp only [ofR] at h1 ⊢
          have hj : calcJump (pc + size a) (-(size a : Int)) = pc :=
            (calcJump_back' _ (size a) _ rfl (by omega) (by omega)).trans (by omega)
          rw [hj] at h1
          exact SimT.after _ h1 (fun mv2 e2 r2 v2 => by
            have := ihE (.untilLoop t a) bk ce pc mv2 m2 v2 r2 e2 hc0 hw0 hbk hend hpl
            simpa [size] using this)
      | err e => exact h1
      | panic p => exact h1
    | err e tok m => exact ha
    | panic p tok m => exact ha
    | brk t2 m => obtain ⟨ipb, c, bb⟩ := ha; exact bb.2.elim
    | exitCase m => exact absurd rfl (hne m)
    | timeout => trivial
  | repeatLoop tr a =>
    have hw0 := hw; have hc0 := hc
    simp only [evalS, size]
    simp only [WFS] at hw
    simp only [compileS] at hc
    have hla := compileS_length a (BK.jump 1) none
    have hcj := (by have := hc.right; rwa [hla] at this : CodeAt code dmap (pc + size a) [(Op.jump (-(size a : Int)), tr)]).head
    have hb : pc + size a < code.length := by have := hc.bound (size a) (by simp [hla]); exact this
    have ha := ihE a (BK.jump 1) none pc mv ms v hr hip hc.left (by exact hw) (by simp only [BKOk]; omega) (by simp; omega) (by simpa [placed] using hpl)
    have hne := (no_exit_aux np F f).1 a ms _ hw
    generalize evalS np F f a ms = ra at ha hne ⊢
    cases ra with
    | ok m1 =>
      simp only
      refine SimT.after _ ha (fun mv1 e1 r1 v1 => ?_)
      have hj := one_jump np v1 r1 e1 hcj.1
      have : calcJump (pc + size a) (-(size a : Int)) = pc :=
        (calcJump_back' _ (size a) _ rfl (by omega) (by omega)).trans (by omega)
      rw [this] at hj
      exact SimT.after _ hj (fun mv2 e2 r2 v2 => by
        have := ihE (.repeatLoop tr a) bk ce pc mv2 m1 v2 r2 e2 hc0 hw0 hbk hend hpl
        simpa [size] using this)
    | err e tok m => exact ha
    | panic p tok m => exact ha
    | brk t2 m =>
      obtain ⟨ipb, c, hd, rel, hop, hj⟩ := ha
      simp only
      exact c.trans (fun mv1 e1 r1 v1 => by
        have := one_jump np v1 r1 e1 hop
        rw [hj] at this; exact this)
    | exitCase m => exact absurd rfl (hne m)
    | timeout => trivial
  | whileLoop tw tr c a =>
    have hw0 := hw; have hc0 := hc
    simp only [evalS, size]
    simp only [WFS, Bool.and_eq_true] at hw
    simp only [compileS] at hc
    have hlc := compileS_length c BK.none none
    have hla := compileS_length a (BK.jump 1) none
    have hcc : CodeAt code dmap pc (compileS c BK.none none) := hc.left.left
    have hcr := hc.left.right
    rw [hlc] at hcr
    have hcw := hcr.head
    have hca : CodeAt code dmap (pc + size c + 1) (compileS a (BK.jump 1) none) := hcr.tail
    have hcj := (by
      have := hc.right; simp only [List.length_append, List.length_cons, hlc, hla] at this
      have e : pc + (size c + (size a + 1)) = pc + size c + 1 + size a := by omega
      rwa [e] at this :
      CodeAt code dmap (pc + size c + 1 + size a) [(Op.jump (-((size c + 1 + size a : Nat) : Int)), tr)]).head
    have hb : pc + size c + 1 + size a < code.length := by
      have := hc.bound (size c + 1 + size a) (by simp [hlc, hla]; omega); omega
    have hE : pc + (size c + 1 + size a + 1) = pc + size c + 1 + size a + 1 := by omega
    have hpl0 := hpl
    simp only [placed, Bool.and_eq_true] at hpl
    have hcn := ihE c BK.none none pc mv ms v hr hip hcc (by simpa using hw.1) trivial (by simp; omega) hpl.1
    have hnec := (no_exit_aux np F f).1 c ms _ hw.1
    generalize evalS np F f c ms = rc at hcn hnec ⊢
    rw [hE]
    cases rc with
    | ok m1 =>
      simp only
      refine SimT.after _ hcn (fun mv1 e1 r1 v1 => ?_)
      have h1 := one_cond np (dmap := dmap) v1 r1 e1 hcw.1 hcw.2
      generalize popCond m1 = r at h1 ⊢
      obtain ⟨oo, m2⟩ := r
      cases oo with
      | ok b =>
        cases b with
        | true =>
          simp only [ofR, if_true] at h1 ⊢
          refine SimT.after _ h1 (fun mv2 e2 r2 v2 => ?_)
          have ha := ihE a (BK.jump 1) none (pc + size c + 1) mv2 m2 v2 r2 e2 hca (by exact hw.2)
            (by simp only [BKOk]; omega) (by simp; omega) hpl.2
          have hne := (no_exit_aux np F f).1 a m2 _ hw.2
          generalize evalS np F f a m2 = ra at ha hne ⊢
          cases ra with
          | ok m3 =>
            simp only
            refine SimT.after _ ha (fun mv3 e3 r3 v3 => ?_)
            have hj := one_jump np v3 r3 e3 hcj.1
            have : calcJump (pc + size c + 1 + size a) (-((size c + 1 + size a : Nat) : Int)) = pc :=
              (calcJump_back' _ (size c + 1 + size a) _ rfl (by omega) (by omega)).trans (by omega)
            rw [this] at hj
            exact SimT.after _ hj (fun mv4 e4 r4 v4 => by
              have := ihE (.whileLoop tw tr c a) bk ce pc mv4 m3 v4 r4 e4 hc0 hw0 hbk hend hpl0
              simpa [size, hE] using this)
          | err e tok m => exact ha
          | panic p tok m => exact ha
          | brk t2 m =>
            obtain ⟨ipb, cc, hd, rel, hop, hj⟩ := ha
            simp only
            exact cc.trans (fun mv3 e3 r3 v3 => by
              have := one_jump np v3 r3 e3 hop
              rw [hj] at this; exact this)
          | exitCase m => exact absurd rfl (hne m)
          | timeout => trivial
        | false =>
          simp only [ofR] at h1 ⊢
          have hj : calcJump (pc + size c) (↑(size a) + 2) = pc + size c + 1 + size a + 1 :=
            (calcJump_fwd' _ (size a + 2) _ (by omega) (by omega)).trans (by omega)
          rw [hj] at h1
          exact h1
      | err e => exact h1
      | panic p => exact h1
    | err e tok m => exact hcn
    | panic p tok m => exact hcn
    | brk t2 m => obtain ⟨ipb, cc, bb⟩ := hcn; exact bb.2.elim
    | exitCase m => exact absurd rfl (hnec m)
    | timeout => trivial
  | doLoop td tl a =>
    have hc0 := hc
    simp only [evalS, size]
    simp only [WFS] at hw
    simp only [compileS] at hc
    have hla := compileS_length a (BK.loop 1) none
    have hb : pc + 1 + size a < code.length := by
      have := hc.bound (1 + size a) (by simp [hla]; omega); omega
    have hE : pc + (1 + size a + 1) = pc + size a + 2 := by omega
    have h1 := one_do np (dmap := dmap) v hr hip hc.head.1 hc.head.2
    generalize ms.doInit = r at h1 ⊢
    obtain ⟨oo, m1⟩ := r
    rw [hE]
    cases oo with
    | ok l =>
      simp only [ofR] at h1 ⊢
      by_cases hl : l.start < l.stop
      · simp only [hl, if_true] at h1 ⊢
        have := SimT.after (E := pc + size a + 2) (bk := BK.none) (cend := 0) (doIter np F f tl a (m1.pushLoop l)) h1
          (fun mv1 e1 r1 v1 => ihD td tl a bk ce pc mv1 (m1.pushLoop l) v1 r1 e1 hc0 hw (by simpa [placed] using hpl))
        have hne := (no_exit_aux np F f).2 tl a (m1.pushLoop l) hw
        generalize doIter np F f tl a (m1.pushLoop l) = rd at this hne ⊢
        cases rd with
        | ok m => exact this
        | err e tok m => exact this
        | panic p tok m => exact this
        | brk t2 m => obtain ⟨ipb, cc, bb⟩ := this; exact bb.2.elim
        | exitCase m => exact absurd rfl (hne m)
        | timeout => trivial
      · simp only [hl, if_false] at h1 ⊢
        have hj : calcJump pc (↑(size a) + 2) = pc + size a + 2 :=
          (calcJump_fwd' pc (size a + 2) _ (by omega) (by omega))
        rw [hj] at h1
        exact h1
    | err e => exact h1
    | panic p => exact h1
  | skip => simp [isLoop] at hloop
  | op t o => simp [isLoop] at hloop
  | seq a b => simp [isLoop] at hloop
  | ifThen t a => simp [isLoop] at hloop
  | ifElse t te a b => simp [isLoop] at hloop
  | brk t => simp [isLoop] at hloop
  | caseS a => simp [isLoop] at hloop
  | arm tOf tEndof body => simp [isLoop] at hloop
  | defn tc ts body => simp [isLoop] at hloop
  | call t addr ret => simp [isLoop] at hloop

theorem sim_iter (f : Nat) (ihE : SimStmt np F code dmap f) (ihD : SimIter np F code dmap f) : SimIter np F code dmap (f + 1) := by
  intro td tl a bk ce pc mv ms v hr hip hc hw hpl
  have hc0 := hc
  simp only [compileS] at hc
  have hla := compileS_length a (BK.loop 1) none
  have hca : CodeAt code dmap (pc + 1) (compileS a (BK.loop 1) none) := hc.tail.left
  have hcl := (by have := hc.tail.right; rwa [hla] at this : CodeAt code dmap (pc + 1 + size a) [(Op.loopOp (-(size a : Int)), tl)]).head
  have hb : pc + 1 + size a < code.length := by
    have := hc.bound (1 + size a) (by simp [hla]; omega); omega
  simp only [doIter]
  have ha := ihE a (BK.loop 1) none (pc + 1) mv ms v hr hip hca (by exact hw) (by simp only [BKOk]; omega) (by simp; omega) hpl
  have hne := (no_exit_aux np F f).1 a ms _ hw
  generalize evalS np F f a ms = ra at ha hne ⊢
  cases ra with
  | ok m1 =>
    simp only
    refine SimT.after _ ha (fun mv1 e1 r1 v1 => ?_)
    have h1 := one_loop np (dmap := dmap) v1 r1 e1 hcl.1 hcl.2
    generalize m1.loopNext = r at h1 ⊢
    obtain ⟨oo, m2⟩ := r
    cases oo with
    | ok more =>
      cases more with
      | true =>
        simp only [ofR, if_true] at h1 ⊢
        have hj : calcJump (pc + 1 + size a) (-(size a : Int)) = pc + 1 :=
          (calcJump_back' _ (size a) _ rfl (by omega) (by omega)).trans (by omega)
        rw [hj] at h1
        exact SimT.after _ h1 (fun mv2 e2 r2 v2 => ihD td tl a bk ce pc mv2 m2 v2 r2 e2 hc0 hw hpl)
      | false =>
        simp only [ofR] at h1 ⊢
        generalize m2.popLoop = r2 at h1 ⊢
        obtain ⟨o2, m3⟩ := r2
        cases o2 with
        | ok l =>
          simp only at h1 ⊢
          have : pc + 1 + size a + 1 = pc + size a + 2 := by omega
          rw [this] at h1; exact h1
        | err e => exact h1
        | panic p => exact h1
    | err e => exact h1
    | panic p => exact h1
  | brk tb m1 =>
    obtain ⟨ipb, c, hd, rel, hop, hj⟩ := ha
    simp only
    refine SimT.after _ c (fun mv1 e1 r1 v1 => ?_)
    have h1 := one_break np (dmap := dmap) v1 r1 e1 hop hd
    generalize m1.popLoop = r at h1 ⊢
    obtain ⟨oo, m2⟩ := r
    cases oo with
    | ok l =>
      simp only [ofR] at h1 ⊢
      rw [hj] at h1
      have : pc + 1 + size a + 1 = pc + size a + 2 := by omega
      rw [this] at h1; exact h1
    | err e => exact h1
    | panic p => exact h1
  | err e tok m => exact ha
  | panic p tok m => exact ha
  | exitCase m => exact absurd rfl (hne m)
  | timeout => trivial

/-- **forward simulation**: whatever the structural evaluator returns for a statement (with any fuel), the VM
    running the compiled fragment does the same — it reaches the end of the fragment in an agreeing state, or
    stands on the compiled `break`, or behind the `endof` jump, or fails at the instruction of the same token
    with the same error in an agreeing state -/
theorem sim_all : ∀ f, SimStmt np F code dmap f ∧ SimIter np F code dmap f := by
  intro f
  induction f with
  | zero =>
    exact ⟨fun st bk ce pc mv ms _ _ _ _ _ _ _ _ => by simp only [evalS]; trivial,
           fun td tl a bk ce pc mv ms _ _ _ _ _ _ => by simp only [doIter]; trivial⟩
  | succ f ih =>
    obtain ⟨ihE, ihD⟩ := ih
    refine ⟨fun st bk ce pc mv ms v hr hip hc hw hbk hend hpl => ?_, sim_iter np F code dmap hlen hF f ihE ihD⟩
    by_cases hl : isLoop st = true
    · exact sim_loops np F code dmap hlen hF f ihE ihD st bk ce pc mv ms v hr hip hc hw hbk hend hpl hl
    · exact sim_acyclic np F code dmap hlen hF f ihE ihD st bk ce pc mv ms v hr hip hc hw hbk hend hpl (by simpa using hl)

end main

end Xeh.Structured
