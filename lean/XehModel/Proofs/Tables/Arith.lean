/-
Tie B, tables (DESIGN §4.2) — the operator table of arith.rs and the words it registers: the `src_*` side is regenerated from /repo/src/*.rs by
`tools/extract.py` on every run (Generated/Tables.lean), the expected side is written by hand from the source as it is now
(after the `fix:` commits). One module per table, so that a property depends on — and is alarmed by — exactly the tables
its theorems rest on.
-/
import XehModel.Generated.Tables
import XehModel.Model.Arith

namespace Xeh.LeafBridge
open Xeh.Generated

/-- arith.rs, word by word: which Rust operation implements the integer arm and which the real arm
    (next to the model words of Model/Arith.lean: `wordAdd` = `wrap128 (a + b)` ↔ `wrapping_add`,
    `wordDiv` = zero test, `tdiv`, range test ↔ `== 0 DivisionByZero checked_div IntegerOverflow`,
    `wordRem` ↔ `wrapping_rem`, `wordNeg`/`wordAbs` ↔ `checked_neg`/`checked_abs`, `shl128`/`shr128`
    with `shiftCount` ↔ `wrapping_shl/shr(a, b as u32)`, …); last the shared helpers: operands are
    popped right then left, the integer arm is taken on the *right* operand's type, `ops(a, b)`
    keeps the operand order. -/
def expectedArithOps : List (String × String) := [
  ("+", "int: wrapping_add real: Add::add"),
  ("-", "int: wrapping_sub real: Sub::sub"),
  ("*", "int: wrapping_mul real: Mul::mul"),
  ("/", "int: to_xint == 0 DivisionByZero checked_div IntegerOverflow real: to_real == 0.0 DivisionByZero /"),
  ("neg", "int: checked_neg IntegerOverflow real: neg"),
  ("abs", "int: checked_abs IntegerOverflow real: abs"),
  ("<", "int: to_xint cmp real: to_real compare_reals() then: is_lt"),
  ("<=", "int: to_xint cmp real: to_real compare_reals() then: is_le"),
  (">", "int: to_xint cmp real: to_real compare_reals() then: is_gt"),
  (">=", "int: to_xint cmp real: to_real compare_reals() then: is_ge"),
  ("==", "int: to_xint cmp real: to_real compare_reals() then: is_eq"),
  ("<>", "int: to_xint cmp real: to_real compare_reals() then: is_ne"),
  ("rem", "int: to_xint == 0 DivisionByZero wrapping_rem real: to_real %"),
  ("and", "to_bool & to_bool"),
  ("or", "to_bool | to_bool"),
  ("xor", "to_bool ^ to_bool"),
  ("not", "to_bool not"),
  ("band", "int: BitAnd::bitand"),
  ("bor", "int: BitOr::bitor"),
  ("bxor", "int: BitXor::bitxor"),
  ("bnot", "to_xint not"),
  ("bsl", "int: wrapping_shl as u32"),
  ("bsr", "int: wrapping_shr as u32"),
  ("round", "to_real round"),
  ("random", "getrandom::getrandom u32::from_le_bytes as Xreal / u32::MAX as Xreal"),
  ("min", "int: min real: min"),
  ("max", "int: max real: max"),
  (">real", "to_xint as Xreal"),
  (">int", "to_real as Xint"),
  ("zero?", "int: == 0 real: == 0.0"),
  ("positive?", "int: > 0 real: > 0.0"),
  ("negative?", "int: < 0 real: < 0.0"),
  ("popcnt", "to_xint count_ones"),
  ("fn arithmetic_ops_int", "to_xint to_xint ops_int(a,b)"),
  ("fn arithmetic_ops_real", "int: to_xint ops_int(a,*b) real: to_real ops_real(a,*b)"),
  ("fn compare_cells", "int: to_xint cmp real: to_real compare_reals()"),
  ("fn compare_reals", "< Ordering::Less > Ordering::Greater Ordering::Equal")
]

theorem arith_table_matches : src_arith = expectedArithOps := rfl

/-- the words arith.rs registers (all non-immediate), in registration order -/
def expectedArithWords : List String := [
  "+", "-", "*", "/", "neg", "abs", "<", "<=", ">", ">=",
  "==", "<>", "rem", "and", "or", "xor", "not", "band", "bor", "bxor",
  "bnot", "bsl", "bsr", "round", "random", "min", "max", ">real", ">int", "zero?",
  "positive?", "negative?", "popcnt"
]

theorem arith_words_match : src_arith_words = expectedArithWords := rfl

/-- every word of the model's arithmetic table (`Xeh.arithTable`, Model/Arith.lean) is registered by
    arith.rs … -/
theorem arith_words_registered : ∀ w ∈ Xeh.arithTable.map (·.1), w ∈ src_arith_words := by
  decide +kernel

/-- … and the model covers every word arith.rs registers, except `random` -/
theorem arith_words_modelled :
    ∀ w ∈ src_arith_words, w = "random" ∨ w ∈ Xeh.arithTable.map (·.1) := by
  decide +kernel

end Xeh.LeafBridge
