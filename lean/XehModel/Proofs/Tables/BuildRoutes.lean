/-
Tie B, tables (DESIGN §4.2) — the two routes into the compiler (a text, a file) and who unwinds / forgets a build: the `src_*` side is regenerated from /repo/src/*.rs by
`tools/extract.py` on every run (Generated/Tables.lean), the expected side is written by hand from the source as it is now
(after the `fix:` commits). One module per table, so that a property depends on — and is alarmed by — exactly the tables
its theorems rest on.
-/
import XehModel.Generated.Tables

namespace Xeh.LeafBridge
open Xeh.Generated

/-- One build, statement by statement — what `Sess.buildSource` (Model/Session.lean) is a model of: take the mark, open the
    context, make the text the current input, build; a build that fails is unwound to the mark; one that succeeds keeps
    its constants' undo records no longer, forgets what it wrote to the reverse log, and closes the context (which, for
    `eval`, runs the program). -/
def expectedBuild : List String := [
  "let mark=self.build_mark()",
  "self.context_open(mode)?",
  "self.intern_source(_)?",
  "if let Err(e)=self.build0(){self.build_unwind(mark);return Err(e);}",
  "self.const_undo.truncate(mark.const_undo_len)",
  "self.forget_build_log(&mark)",
  "self.context_close()"
]

theorem build_from_source_matches : src_build_from_source = expectedBuild := rfl

/-- a FILE is built exactly like a text: `build_from_file` is reading the file (a file that cannot be read is an error with
    no location, and nothing else has happened) followed by the very same statements — the mark is taken before the text
    becomes an input, so a rejected file is taken back like a rejected text -/
theorem a_file_is_built_like_a_text : src_build_from_file.drop 1 = src_build_from_source := by
  rw [build_from_source_matches]; rfl

theorem reading_the_file_comes_first :
    src_build_from_file.head? = some "let s=crate::file::fs_overlay::read_source_file(&path).map_err(|e|{self.last_error=Some(ErrorContext{err:e.clone(),location:None,});e})?" := rfl

/-- `build_unwind` (a rejected build is taken back) and `forget_build_log` (what a finished build left in the reverse log
    is dropped) are called by the two build routes and by nothing else -/
theorem both_build_routes_unwind_and_forget :
    src_call_sites.filter (fun r => r.1 == "build_unwind" || r.1 == "forget_build_log") =
      [("build_unwind", "build_from_file", "state.rs"), ("forget_build_log", "build_from_file", "state.rs"),
       ("build_unwind", "build_from_source", "state.rs"), ("forget_build_log", "build_from_source", "state.rs")] := by
  decide +kernel

end Xeh.LeafBridge
