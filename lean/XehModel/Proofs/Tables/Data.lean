/-
Tie B, tables (DESIGN §4.2) — the macro-generated `uN / iN / fN` data words of bitstr_ext.rs: the `src_*` side is regenerated from /repo/src/*.rs by
`tools/extract.py` on every run (Generated/Tables.lean), the expected side is written by hand from the source as it is now
(after the `fix:` commits). One module per table, so that a property depends on — and is alarmed by — exactly the tables
its theorems rest on.
-/
import XehModel.Generated.Tables

namespace Xeh.LeafBridge
open Xeh.Generated

/-- the macro-generated data words: for every width the twelve integer words, for 32/64 the six
    float words, each bound to the reader / writer with that width and byte order -/
def expectedDataWords : List (String × String) :=
  (["8", "16", "32", "64"].flatMap fun n => [
    ("u" ++ n, "|xs|read_unsigned_n(xs," ++ n ++ ")"),
    ("u" ++ n ++ "le", "|xs|read_unsigned(xs," ++ n ++ ",Byteorder::Little)"),
    ("u" ++ n ++ "be", "|xs|read_unsigned(xs," ++ n ++ ",Byteorder::Big)"),
    ("i" ++ n, "|xs|read_signed_n(xs," ++ n ++ ")"),
    ("i" ++ n ++ "le", "|xs|read_signed(xs," ++ n ++ ",Byteorder::Little)"),
    ("i" ++ n ++ "be", "|xs|read_signed(xs," ++ n ++ ",Byteorder::Big)"),
    ("u" ++ n ++ "!", "|xs|pack_int(xs," ++ n ++ ")"),
    ("u" ++ n ++ "le!", "|xs|pack_int_bo(xs," ++ n ++ ",Byteorder::Little)"),
    ("u" ++ n ++ "be!", "|xs|pack_int_bo(xs," ++ n ++ ",Byteorder::Big)"),
    ("i" ++ n ++ "!", "|xs|pack_int(xs," ++ n ++ ")"),
    ("i" ++ n ++ "le!", "|xs|pack_int_bo(xs," ++ n ++ ",Byteorder::Little)"),
    ("i" ++ n ++ "be!", "|xs|pack_int_bo(xs," ++ n ++ ",Byteorder::Big)")]) ++
  (["32", "64"].flatMap fun n => [
    ("f" ++ n, "|xs|read_float_n(xs," ++ n ++ ")"),
    ("f" ++ n ++ "le", "|xs|read_float(xs," ++ n ++ ",Byteorder::Little)"),
    ("f" ++ n ++ "be", "|xs|read_float(xs," ++ n ++ ",Byteorder::Big)"),
    ("f" ++ n ++ "!", "|xs|pack_float(xs," ++ n ++ ")"),
    ("f" ++ n ++ "le!", "|xs|pack_float_bo(xs," ++ n ++ ",Byteorder::Little)"),
    ("f" ++ n ++ "be!", "|xs|pack_float_bo(xs," ++ n ++ ",Byteorder::Big)")])

theorem data_words_match : src_data_words = expectedDataWords := by decide +kernel

end Xeh.LeafBridge
