/-
Tie B, tables (DESIGN §4.2) — who clears the last error, who gives a program up: the `src_*` side is regenerated from /repo/src/*.rs by
`tools/extract.py` on every run (Generated/Tables.lean), the expected side is written by hand from the source as it is now
(after the `fix:` commits). One module per table, so that a property depends on — and is alarmed by — exactly the tables
its theorems rest on.
-/
import XehModel.Generated.Tables

namespace Xeh.LeafBridge
open Xeh.Generated

/-- The last error is cleared when something new starts — a build, an immediate word, a run, a step in either direction —
    and by nothing else; in particular not by `abort_run`, which a host calls BEFORE it asks where the program failed.
    The REPL is the only caller of `abort_run` inside the crate. -/
theorem last_error_cleared_only_by_a_new_start :
    src_call_sites.filter (fun r => r.1 == "clear_last_error" || r.1 == "abort_run") =
      [("abort_run", "run_line", "repl.rs"),
       ("clear_last_error", "build0", "state.rs"), ("clear_last_error", "run_immediate", "state.rs"),
       ("clear_last_error", "run", "state.rs"), ("clear_last_error", "next", "state.rs"),
       ("clear_last_error", "rnext", "state.rs")] := by
  decide +kernel

theorem abort_run_keeps_the_last_error :
    ∀ r ∈ src_call_sites, r.1 = "clear_last_error" → r.2.1 ≠ "abort_run" := by
  decide +kernel

end Xeh.LeafBridge
