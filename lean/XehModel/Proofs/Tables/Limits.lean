/-
Tie B, tables (DESIGN §4.2) — the three limit comparisons and every write of the limit bookkeeping: the `src_*` side is regenerated from /repo/src/*.rs by
`tools/extract.py` on every run (Generated/Tables.lean), the expected side is written by hand from the source as it is now
(after the `fix:` commits). One module per table, so that a property depends on — and is alarmed by — exactly the tables
its theorems rest on.
-/
import XehModel.Generated.Tables

namespace Xeh.LeafBridge
open Xeh.Generated

/-- the three resource-limit tests: each compares the *current* size with `>=` against the limit
    (so a limit of `n` admits exactly `n` cells / heap slots / instructions), an unset limit is
    `usize::MAX`, and the outcome is an error return — not a panic, not a silent clamp -/
def expectedLimitChecks : List (String × String × String × String × String × String) := [
  ("check_stack_limit", "self.data_stack.len()", ">=", "limit", "self.stack_limit.unwrap_or(usize::MAX)", "return Err(Xerr::ErrorMsg(..))"),
  ("check_heap_limit", "self.heap.len()", ">=", "limit", "self.heap_limit.unwrap_or(usize::MAX)", "return Err(Xerr::ErrorMsg(..))"),
  ("insn_meter_increase", "self.insn_meter", ">=", "limit", "self.insn_limit.unwrap_or(usize::MAX)", "return Err(Xerr::ErrorMsg(..))")
]

theorem limit_comparisons_match_source :
    src_limit_checks = expectedLimitChecks ∧
    src_limit_effects = [("insn_meter_increase", "self.insn_meter+=1")] := ⟨rfl, rfl⟩

/-- The bookkeeping of the three limits — `insn_meter insn_limit stack_limit heap_limit` — is written in exactly these
    places (assignments, compound assignments and mutable borrows, anywhere in the crate outside `#[cfg(test)]` and the
    `verif_hooks` block): each limit by its own setter, the meter reset by `set_insn_limit` and counted up by
    `insn_meter_increase`. Nothing else touches them: no other setter restarts the count, no word saves the meter and
    puts it back, switching recording on or off leaves it alone. This is what lets the machine-level theorems of
    Props/C14.lean (the meter only grows while the limit stays set) speak about whole histories of host calls. -/
def expectedLimitFieldWrites : List (String × String × String) := [
  ("self.stack_limit=limit", "set_stack_limit", "state.rs"),
  ("self.heap_limit=limit", "set_heap_limit", "state.rs"),
  ("self.insn_meter=0", "set_insn_limit", "state.rs"),
  ("self.insn_limit=limit", "set_insn_limit", "state.rs"),
  ("self.insn_meter+=1", "insn_meter_increase", "state.rs")
]

theorem limit_fields_written_only_by_their_setters : src_limit_field_writes = expectedLimitFieldWrites := rfl

/-- … in particular: outside `set_insn_limit` the only thing that ever happens to the meter is `+= 1`, and the
    instruction limit itself is assigned by `set_insn_limit` alone -/
theorem meter_only_counts_up_between_settings :
    ∀ r ∈ src_limit_field_writes, r.2.1 ≠ "set_insn_limit" →
      r.1 = "self.insn_meter+=1" ∨ r.1 = "self.stack_limit=limit" ∨ r.1 = "self.heap_limit=limit" := by
  rw [limit_fields_written_only_by_their_setters]; decide +kernel

end Xeh.LeafBridge
