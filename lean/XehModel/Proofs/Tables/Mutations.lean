/-
Tie B, tables (DESIGN §4.2) — every direct mutation of an interpreter stack / table: the `src_*` side is regenerated from /repo/src/*.rs by
`tools/extract.py` on every run (Generated/Tables.lean), the expected side is written by hand from the source as it is now
(after the `fix:` commits). One module per table, so that a property depends on — and is alarmed by — exactly the tables
its theorems rest on.
-/
import XehModel.Generated.Tables

namespace Xeh.LeafBridge
open Xeh.Generated

/-- Every place of the crate (outside `#[cfg(test)]` and the `verif_hooks` block) that mutates one of
    the interpreter's stacks / tables directly, as (field.operation, enclosing function), in source
    order. `&mut` = a mutable borrow of the field or of one of its elements, `[]=` = assignment
    through an index. Read it as: the run-time stacks (`data_stack return_stack loops special heap`)
    are touched only by the primitives `push_data … alloc_heap`, their inverse `reverse_changes`,
    the two unwinders `build_unwind` / `abort_run`, and `foreach_next` (logged since the C02 repair);
    everything else is compile-time state (`code debug_map dict flow_stack nested input`). -/
def expectedMutationSites : List (String × String) := [
  ("input.truncate", "build_unwind"),
  ("nested.truncate", "build_unwind"),
  ("flow_stack.truncate", "build_unwind"),
  ("code.truncate", "build_unwind"),
  ("debug_map.truncate", "build_unwind"),
  ("dict.get_mut", "build_unwind"),
  ("dict.truncate", "build_unwind"),
  ("heap.truncate", "build_unwind"),
  ("data_stack.truncate", "build_unwind"),
  ("return_stack.truncate", "build_unwind"),
  ("loops.truncate", "build_unwind"),
  ("special.truncate", "build_unwind"),
  ("input.push", "intern_source"),
  ("input.last_mut", "next_token"),
  ("input.pop", "next_token"),
  ("nested.push", "context_open"),
  ("nested.pop", "context_close"),
  ("code.truncate", "context_close"),
  ("debug_map.truncate", "context_close"),
  ("dict.swap_remove", "context_close"),
  -- repair 0bda475: the results of a meta block are taken off the stack without a reverse-log entry;
  -- the model function that accounts for it is `Session.emitResults` (Model/Session.lean)
  ("data_stack.pop", "context_close"),
  ("dict.push", "dict_insert"),
  ("debug_map.[]=", "code_emit"),
  ("debug_map.push", "code_emit"),
  ("code.push", "code_emit"),
  ("code.[]=", "backpatch"),
  ("heap.get_mut", "swap_cell_ref"),
  ("heap.push", "alloc_heap"),
  ("return_stack.truncate", "abort_run"),
  ("loops.truncate", "abort_run"),
  ("special.truncate", "abort_run"),
  -- `Resolve` inside a meta block binds for one execution: swap the opcode in, run it, put `Resolve` back
  -- (Model/VM.lean `patchCode`)
  ("code.&mut", "fetch_and_run"),
  ("code.[]=", "fetch_and_run"),
  ("data_stack.pop", "reverse_changes"),
  ("data_stack.push", "reverse_changes"),
  ("data_stack.swap", "reverse_changes"),
  ("data_stack.swap", "reverse_changes"),
  ("return_stack.pop", "reverse_changes"),
  ("return_stack.push", "reverse_changes"),
  ("loops.push", "reverse_changes"),
  ("loops.pop", "reverse_changes"),
  ("loops.last_mut", "reverse_changes"),
  ("special.push", "reverse_changes"),
  ("special.pop", "reverse_changes"),
  ("heap.get_mut", "reverse_changes"),
  ("flow_stack.pop", "pop_flow"),
  ("flow_stack.push", "push_flow"),
  ("data_stack.push", "push_data"),
  ("data_stack.pop", "pop_data"),
  ("data_stack.swap", "swap_data"),
  ("data_stack.swap", "rot_data"),
  ("return_stack.push", "push_return"),
  ("return_stack.pop", "pop_return"),
  ("return_stack.&mut", "top_frame"),
  ("loops.push", "push_loop"),
  ("loops.pop", "pop_loop"),
  ("loops.last_mut", "loop_next"),
  ("special.push", "push_special"),
  ("special.pop", "pop_special"),
  ("flow_stack.remove", "take_first_cond_flow"),
  ("dict.get_mut", "core_word_def_end"),
  ("dict.get_mut", "core_word_immediate"),
  ("dict.&mut", "core_word_const"),
  ("loops.last_mut", "foreach_next"),
  ("flow_stack.last_mut", "enum_field_default"),
  ("flow_stack.last_mut", "enum_field_set_value")
]

theorem mutation_sites_match : src_mutation_sites = expectedMutationSites := rfl

/-- all of them are in state.rs (the fields are private to that module) -/
theorem mutation_sites_in_state_rs : src_mutation_files = List.replicate 66 "state.rs" := by decide +kernel

/-- the functions that may touch a run-time stack (`data_stack return_stack loops special heap`), in
    source order: the unwinder of a failed build, the closing of a meta block (it takes the block's results off the
    stack to re-emit them as literals: `Session.emitResults`), the heap primitives, the run-time unwinder, the
    reverse interpreter, the stack primitives `Prog` is built from (Model/Prog.lean) and
    `foreach_next` (logged since the C02 repair) -/
def runtimePrimitives : List String := [
  "build_unwind", "context_close", "swap_cell_ref", "alloc_heap", "abort_run", "reverse_changes", "push_data",
  "pop_data", "swap_data", "rot_data", "push_return", "pop_return", "top_frame",
  "push_loop", "pop_loop", "loop_next", "push_special", "pop_special", "foreach_next"]

/-- the statement that justifies modelling native words as programs over the primitives: no
    function outside `runtimePrimitives` — in particular no `core_word_*` — mutates a run-time stack
    directly -/
theorem runtime_mutators_match : src_runtime_mutators = runtimePrimitives := rfl

def isRuntimeField (site : String) : Bool :=
  ["data_stack.", "return_stack.", "loops.", "special.", "heap."].any fun f => f.isPrefixOf site

/-- the same, derived in Lean from the full site list (not from the translator's digest) -/
theorem runtime_mutations_only_in_primitives :
    ∀ s ∈ src_mutation_sites, isRuntimeField s.1 = true → s.2 ∈ runtimePrimitives := by
  decide +kernel

end Xeh.LeafBridge
