/-
Tie B, tables (DESIGN §4.2) — the range operations of `Bitstr` (src/bitstr.rs `seek read peek substr split_at`), which
every read word of the language goes through: the `src_*` side is regenerated from /repo/src/*.rs by `tools/extract.py` on
every run (Generated/Tables.lean), the expected side is written by hand from the source as it is now. One module per
table, so that a property depends on — and is alarmed by — exactly the tables its theorems rest on.
-/
import XehModel.Generated.Tables

namespace Xeh.LeafBridge
open Xeh.Generated

/-- Statement by statement, what Model/Bitstr.lean's `seek read peek substr splitAt` are written after (positions are
    ABSOLUTE positions in the buffer — `start()`/`end()` are part of the API —; every result is a clone of the receiver,
    i.e. one more count on the same buffer, with a new range; `read` moves the receiver's own start; an overflowing or
    out-of-range request is `None` and changes nothing):

    | source | model |
    |---|---|
    | `if self.range.start<=pos&&pos<=self.range.end{…s.range.start=pos…}else{None}` | `seek`: `if s.start ≤ pos ∧ pos ≤ s.end_ then (h.incRc s.buf, some { s with start := pos }) else (h, none)` |
    | `checked_add` + `if pos>self.range.end{return None;}` + `result.range.end=pos` + `self.range.start=pos` | `read` |
    | `checked_add` + `if self.range.start<=end&&end<=self.range.end{…s.range.end=end…}` | `peek` |
    | `if start<=end&&self.range.start<=start&&end<=self.range.end{…s.range=start..end…}` | `substr` |
    | `checked_add` + `if mid>self.range.end{return None;}` + two clones | `splitAt` | -/
def expectedRangeOps : List (String × String) := [
  ("seek", "if self.range.start<=pos&&pos<=self.range.end{let mut s=self.clone();s.range.start=pos;Some(s)}else{None}"),
  ("read", "let pos=self.range.start.checked_add(num_bits)?"),
  ("read", "if pos>self.range.end{return None;}"),
  ("read", "let mut result=self.clone()"),
  ("read", "result.range.end=pos"),
  ("read", "self.range.start=pos"),
  ("read", "Some(result)"),
  ("peek", "let end=self.start().checked_add(num_bits)?"),
  ("peek", "if self.range.start<=end&&end<=self.range.end{let mut s=self.clone();s.range.end=end;Some(s)}else{None}"),
  ("substr", "if start<=end&&self.range.start<=start&&end<=self.range.end{let mut s=self.clone();s.range=start..end;Some(s)}else{None}"),
  ("split_at", "let mid=self.range.start.checked_add(bit_index)?"),
  ("split_at", "if mid>self.range.end{return None;}"),
  ("split_at", "let mut left=self.clone()"),
  ("split_at", "left.range.end=mid"),
  ("split_at", "let mut right=self.clone()"),
  ("split_at", "right.range.start=mid"),
  ("split_at", "Some((left,right))")
]

theorem range_ops_match_source : src_range_ops = expectedRangeOps := rfl

end Xeh.LeafBridge
