/-
Tie B, tables (DESIGN §4.2) — where the reverse log changes: the `src_*` side is regenerated from /repo/src/*.rs by
`tools/extract.py` on every run (Generated/Tables.lean), the expected side is written by hand from the source as it is now
(after the `fix:` commits). One module per table, so that a property depends on — and is alarmed by — exactly the tables
its theorems rest on.
-/
import XehModel.Generated.Tables

namespace Xeh.LeafBridge
open Xeh.Generated

/-- Where the reverse log can change: records are appended by `add_reverse_step` (the one function the logged primitives
    call); one record at a time is taken off by `rnext`; the log is cut back to a mark by `build_unwind` and
    `forget_build_log`; `set_recording_enabled` creates or drops it. A forward step (`next`, `run`) never shortens it. -/
def expectedReverseLogSites : List (String × String × String) := [
  ("as_mut:truncate", "forget_build_log", "state.rs"),
  ("as_mut:truncate", "build_unwind", "state.rs"),
  ("as_mut:pop", "rnext", "state.rs"),
  ("=", "set_recording_enabled", "state.rs"),
  ("=", "set_recording_enabled", "state.rs"),
  ("as_mut:push", "add_reverse_step", "state.rs")
]

theorem reverse_log_sites_match : src_reverse_log_sites = expectedReverseLogSites := rfl

theorem forward_steps_only_append_to_the_log :
    ∀ r ∈ src_reverse_log_sites, r.2.1 ∉ ["forget_build_log", "build_unwind", "rnext", "set_recording_enabled"] →
      r.1 = "as_mut:push" ∧ r.2.1 = "add_reverse_step" := by
  rw [reverse_log_sites_match]; decide +kernel

end Xeh.LeafBridge
