/-
Tie B, tables (DESIGN §4.2) — the immediate (compile-time) words registered by `State::boot()`: the `src_*` side is regenerated from /repo/src/*.rs by
`tools/extract.py` on every run (Generated/Tables.lean), the expected side is written by hand from the source as it is now
(after the `fix:` commits). One module per table, so that a property depends on — and is alarmed by — exactly the tables
its theorems rest on.
-/
import XehModel.Generated.Tables

namespace Xeh.LeafBridge
open Xeh.Generated

/-- the immediate (compile-time) words, in registration order -/
def expectedImmediates : List String := [
  "if", "else", "then", "case", "of", "endof", "endcase", "begin", "while", "until",
  "break", "repeat", "[", "]", "{", "}", ":", ";", "late", "immediate",
  "local", "var", "!", "nil", "#(", "#)", "~)", "const", "do", "loop",
  "foreach", "defined", "let", "include", "require", "^{", "^}", "^hex", "^dec", "^oct",
  "^bin", "fmt/prefix", "fmt/tags", "fmt/upcase", "see", "enum", "endenum"
]

theorem immediates_match : src_immediates = expectedImmediates := rfl

end Xeh.LeafBridge
