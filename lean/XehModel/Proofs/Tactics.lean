import XehModel.Proofs.ProgLemmas
import XehModel.Model.Arith
open Xeh Prog

/-- evaluate a word's `Prog` on a stack with concrete constructors -/
macro "run_simp" : tactic => `(tactic|
  simp (disch := first | omega | (simp only [List.length_cons]; omega))
    [runStack_pop_cons, runStack_top_cons, Cell.value, Cell.toXint, Cell.toReal, Cell.toBool, ofOutcome])
