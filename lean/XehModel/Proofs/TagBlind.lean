/-
Helper file for C13: per-word-family proofs that a word cannot tell a tagged argument from its
stripped version (`Blind`), in the style of Proofs/ArithGood.lean.
-/
import XehModel.Proofs.TagStrip
import XehModel.Model.Arith
import XehModel.Proofs.CollSeq

set_option linter.unusedSimpArgs false
set_option linter.unusedVariables false

namespace Xeh
open Prog Coll

def StackWF (s : List Cell) : Prop := ∀ c ∈ s, c.TagWF

/-- running on a stack and on its stripped copy gives the same outcome up to tags:
    same success/failure, same error variant with the same (stripped) payload, stripped results equal -/
def Blind (p : Prog) : Prop :=
  ∀ s : List Cell, StackWF s → stripOutcome (p.runStack 0 s) = stripOutcome (p.runStack 0 (s.map Cell.strip))

theorem StackWF.head {c : Cell} {s : List Cell} (h : StackWF (c :: s)) : c.TagWF := h c List.mem_cons_self
theorem StackWF.tail {c : Cell} {s : List Cell} (h : StackWF (c :: s)) : StackWF s :=
  fun x hx => h x (List.mem_cons_of_mem _ hx)

@[simp] theorem map_strip_idem (s : List Cell) : (s.map Cell.strip).map Cell.strip = s.map Cell.strip := by
  rw [List.map_map]; congr 1; funext c; exact strip_idem c

@[simp] theorem strip_comp_strip : Cell.strip ∘ Cell.strip = Cell.strip := by funext c; exact strip_idem c

attribute [simp] strip_idem stripList_idem stripPairs_idem strip_value strip_value_self

@[simp] theorem value_nil : Cell.value .nil = .nil := rfl
@[simp] theorem value_flag (b) : Cell.value (.flag b) = .flag b := rfl
@[simp] theorem value_int (i) : Cell.value (.int i) = .int i := rfl
@[simp] theorem value_real (r) : Cell.value (.real r) = .real r := rfl
@[simp] theorem value_str (x) : Cell.value (.str x) = .str x := rfl
@[simp] theorem value_vec (x) : Cell.value (.vec x) = .vec x := rfl
@[simp] theorem value_map (x) : Cell.value (.map x) = .map x := rfl
@[simp] theorem value_fn (n a) : Cell.value (.fn n a) = .fn n a := rfl
@[simp] theorem value_bitstr (x) : Cell.value (.bitstr x) = .bitstr x := rfl
@[simp] theorem value_any (x) : Cell.value (.any x) = .any x := rfl

theorem runStack_ite (c : Prop) [Decidable c] (p q : Prog) (h : Nat) (s : List Cell) :
    runStack (if c then p else q) h s = if c then runStack p h s else runStack q h s := by split <;> rfl

theorem stripOutcome_ite (c : Prop) [Decidable c] (x y : Outcome (List Cell)) :
    stripOutcome (if c then x else y) = if c then stripOutcome x else stripOutcome y := by split <;> rfl

@[simp] theorem stripOutcome_ok (s : List Cell) : stripOutcome (.ok s) = .ok (s.map Cell.strip) := rfl
@[simp] theorem stripOutcome_err (e : Xerr) : stripOutcome (.err e) = .err e.strip := rfl
@[simp] theorem stripOutcome_panic (m : String) : stripOutcome (.panic m) = .panic m := rfl

macro "shape_cases " c:term " , " h:term " with " hv:ident hs:ident : tactic => `(tactic| (
  have sc := shape_of_topWF $h
  generalize $hv:ident : Cell.value $c = cv at sc
  generalize $hs:ident : Cell.strip $c = cs at sc
  cases sc))

macro "blind_simp" : tactic => `(tactic|
  simp (disch := first | omega | (simp only [List.length_cons, List.length_map]; omega))
    [*, runStack_ite, stripOutcome_ite, runStack_pop_cons, runStack_top_cons, Cell.toXint, Cell.toReal, Cell.toBool, Cell.toVec, Cell.toMap,
     Cell.toStr, Cell.toUsize, Cell.toIsize, ofOutcome, Xerr.strip, Cell.strip, numErr, runStack])


/-- unary word: case analysis on the shape of the top cell -/
macro "blind1" : tactic => `(tactic| (
  intro s hs
  rcases s with _ | ⟨a, s⟩
  · simp [stripOutcome, runStack]
  · have ha := hs.head.top
    simp only [List.map_cons]
    shape_cases a, ha with hav has <;> blind_simp <;> (try split) <;> (try simp_all)))

/-- binary word inspecting both cells -/
macro "blind2" : tactic => `(tactic| (
  intro s hs
  rcases s with _ | ⟨b, _ | ⟨a, s⟩⟩
  · simp [stripOutcome, runStack]
  · have hb := hs.head.top
    simp only [List.map_cons, List.map_nil]
    shape_cases b, hb with hbv hbs <;> blind_simp <;> (try split) <;> (try simp_all)
  · have hb := hs.head.top; have ha := hs.tail.head.top
    simp only [List.map_cons]
    shape_cases b, hb with hbv hbs <;> shape_cases a, ha with hav has <;> blind_simp <;> (try split) <;> (try split) <;> (try simp_all)))

theorem blind_arithOpsReal (fi fr) : Blind (arithOpsReal fi fr) := by unfold arithOpsReal; blind2
theorem blind_arithOpsInt (fi) : Blind (arithOpsInt fi) := by unfold arithOpsInt; blind2
theorem blind_wordDiv : Blind wordDiv := by unfold wordDiv; blind2
theorem blind_wordRem : Blind wordRem := by unfold wordRem; blind2
theorem blind_wordCmp (t) : Blind (wordCmp t) := by unfold wordCmp; blind2
theorem blind_wordLogic (f) : Blind (wordLogic f) := by unfold wordLogic; blind2
theorem blind_wordNeg : Blind wordNeg := by unfold wordNeg; blind1
theorem blind_unaryNum (c : Int → Prop) [DecidablePred c] (f : Int → Int) (g : UInt64 → UInt64) :
    Blind (.pop fun a => match a.value with
      | .int ai => if c ai then .push (.int (f ai)) .done else .fail .integerOverflow
      | .real ar => .push (.real (g ar)) .done
      | _ => .fail (numErr a)) := by blind1

theorem blind_wordAbs : Blind wordAbs :=
  blind_unaryNum (fun ai => InRange (Int.natAbs ai : Int)) (fun ai => (Int.natAbs ai : Int)) SF.abs64
theorem blind_wordNot : Blind wordNot := by unfold wordNot; blind1
theorem blind_wordBnot : Blind wordBnot := by unfold wordBnot; blind1
theorem blind_wordPopcnt : Blind wordPopcnt := by unfold wordPopcnt; blind1
theorem blind_wordRound : Blind wordRound := by unfold wordRound; blind1
theorem blind_wordNumTest (ti tr) : Blind (wordNumTest ti tr) := by unfold wordNumTest; blind1
theorem blind_wordIntoReal : Blind wordIntoReal := by unfold wordIntoReal; blind1
theorem blind_wordIntoInt : Blind wordIntoInt := by unfold wordIntoInt; blind1

/-! ### collection words -/

theorem TagWF_vec {c : Cell} {xs : CellList} (h : c.TagWF) (hv : c.value = .vec xs) : xs.TagWF := by
  cases c <;> simp [Cell.value] at hv
  · subst hv; simpa [Cell.TagWF] using h
  · subst hv; simp [Cell.TagWF] at h; exact h.2.1

theorem TagWF_map {c : Cell} {m : PairList} (h : c.TagWF) (hv : c.value = .map m) : m.TagWF := by
  cases c <;> simp [Cell.value] at hv
  · subst hv; simpa [Cell.TagWF] using h
  · subst hv; simp [Cell.TagWF] at h; exact h.2.1

theorem keysTopWF_of_TagWF {m : PairList} (h : m.TagWF) : KeysTopWF m.toList :=
  fun p hp => (PairList.TagWF_mem h p hp).1.top

theorem elemsTopWF_of_TagWF {xs : CellList} (h : xs.TagWF) : ∀ y ∈ xs.toList, TopWF y :=
  fun y hy => (CellList.TagWF_mem h y hy).top

theorem PairList.insert_strip (m : PairList) (k v : Cell) (hk : TopWF k) (hm : m.TagWF) :
    (m.insert k v).strip = m.strip.insert k.strip v.strip := by
  simp only [PairList.insert, PairList.strip_ofList, PairList.strip_toList]
  rw [← insertL_strip v hk _ (keysTopWF_of_TagWF hm)]

theorem PairList.erase_strip (m : PairList) (k : Cell) (hk : TopWF k) (hm : m.TagWF) :
    (m.erase k).strip = m.strip.erase k.strip := by
  simp only [PairList.erase, PairList.strip_ofList, PairList.strip_toList]
  rw [← eraseL_strip hk _ (keysTopWF_of_TagWF hm)]

theorem PairList.lookup_strip (m : PairList) (k : Cell) (hk : TopWF k) (hm : m.TagWF) :
    ((m.lookup k).getD .nil).strip = (m.strip.lookup k.strip).getD .nil := by
  simp only [PairList.lookup, PairList.strip_toList]
  rw [← lookupL_strip hk _ (keysTopWF_of_TagWF hm)]
  cases lookupL k m.toList <;> simp [Cell.strip]

theorem sort_strip (xs : CellList) (hx : xs.TagWF) :
    (CellList.ofList (sortL xs.toList)).strip = CellList.ofList (sortL xs.strip.toList) := by
  rw [CellList.strip_ofList, sortL_strip _ (elemsTopWF_of_TagWF hx), CellList.strip_toList]

theorem blind_wordInsert : Blind wordInsert := by
  unfold wordInsert
  intro s hs
  rcases s with _ | ⟨k, _ | ⟨v, _ | ⟨c, s⟩⟩⟩
  · simp [runStack]
  · simp [runStack]
  · simp [runStack]
  · have hc := hs.tail.tail.head
    have hk := hs.head.top
    simp only [List.map_cons]
    shape_cases c, hc.top with hcv hcs
    all_goals try (blind_simp; done)
    rename_i m
    have hm : m.TagWF := TagWF_map hc hcv
    blind_simp
    rw [← PairList.insert_strip m k v hk hm]; simp

theorem blind_wordRemove : Blind wordRemove := by
  unfold wordRemove
  intro s hs
  rcases s with _ | ⟨k, _ | ⟨c, s⟩⟩
  · simp [runStack]
  · simp [runStack]
  · have hc := hs.tail.head
    have hk := hs.head.top
    simp only [List.map_cons]
    shape_cases c, hc.top with hcv hcs
    all_goals try (blind_simp; done)
    rename_i m
    have hm : m.TagWF := TagWF_map hc hcv
    blind_simp
    rw [← PairList.erase_strip m k hk hm]; simp

/-- unary word, leaving the goals that `simp` does not close -/
macro "blind1_open" : tactic => `(tactic| (
  intro s hs
  rcases s with _ | ⟨a, s⟩
  case nil => simp [runStack]
  have ha := hs.head.top
  simp only [List.map_cons]
  shape_cases a, ha with hav has
  all_goals try (blind_simp; done)))

theorem blind_wordLength : Blind wordLength := by
  unfold wordLength natCell; blind1_open
  all_goals (blind_simp; try simp [CellList.strip_length])

theorem blind_wordIs (t : Cell → Bool) (ht : ∀ c, TopWF c → t c.strip = t c) : Blind (wordIs t) := by
  unfold wordIs
  intro s hs
  rcases s with _ | ⟨a, s⟩
  · simp [runStack]
  · simp [runStack, ht a hs.head.top, Cell.strip]

theorem isNil_strip (c : Cell) (h : TopWF c) : isNil c.strip = isNil c := by
  unfold isNil; shape_cases c, h with hv hs <;> simp [*]
theorem isBool_strip (c : Cell) (h : TopWF c) : isBool c.strip = isBool c := by
  unfold isBool; shape_cases c, h with hv hs <;> simp [*]
theorem isInt_strip (c : Cell) (h : TopWF c) : isInt c.strip = isInt c := by
  unfold isInt; shape_cases c, h with hv hs <;> simp [*]
theorem isReal_strip (c : Cell) (h : TopWF c) : isReal c.strip = isReal c := by
  unfold isReal; shape_cases c, h with hv hs <;> simp [*]
theorem isStr_strip (c : Cell) (h : TopWF c) : isStr c.strip = isStr c := by
  unfold isStr; shape_cases c, h with hv hs <;> simp [*]
theorem isBitstr_strip (c : Cell) (h : TopWF c) : isBitstr c.strip = isBitstr c := by
  unfold isBitstr; shape_cases c, h with hv hs <;> simp [*]
theorem isVec_strip (c : Cell) (h : TopWF c) : isVec c.strip = isVec c := by
  unfold isVec; shape_cases c, h with hv hs <;> simp [*]

theorem blind_wordSort : Blind wordSort := by
  unfold wordSort
  intro s hs
  rcases s with _ | ⟨c, s⟩
  · simp [runStack]
  · have hc := hs.head
    simp only [List.map_cons]
    shape_cases c, hc.top with hcv hcs
    all_goals try (blind_simp; done)
    rename_i xs
    blind_simp
    rw [← sort_strip xs (TagWF_vec hc hcv)]; simp

theorem blind_wordReverse : Blind wordReverse := by
  unfold wordReverse; blind1_open
  all_goals (blind_simp; try simp [CellList.strip_ofList, CellList.strip_toList, List.map_reverse])

theorem blind_wordUnbox : Blind wordUnbox := by
  unfold wordUnbox; blind1_open
  all_goals (blind_simp; try simp [runStack_pushAll, CellList.strip_toList, List.map_reverse])

theorem blind_wordPush : Blind wordPush := by
  unfold wordPush
  intro s hs
  rcases s with _ | ⟨c, _ | ⟨x, s⟩⟩
  · simp [runStack]
  · have hc := hs.head.top
    simp only [List.map_cons, List.map_nil]
    shape_cases c, hc with hcv hcs <;> blind_simp
  · have hc := hs.head.top
    simp only [List.map_cons]
    shape_cases c, hc with hcv hcs <;> blind_simp
    simp [CellList.strip_ofList, CellList.strip_toList]

/-! ### words that convert an operand with a typed accessor first -/

def Outcome.mapErr (f : Xerr → Xerr) : Outcome α → Outcome α
  | .ok a => .ok a
  | .err e => .err (f e)
  | .panic m => .panic m

theorem Xerr.strip_idem (e : Xerr) : e.strip.strip = e.strip := by
  cases e <;> simp [Xerr.strip]

theorem toXint_strip (c : Cell) (h : TopWF c) : c.strip.toXint = Outcome.mapErr Xerr.strip c.toXint := by
  unfold Cell.toXint; shape_cases c, h with hv hs <;> simp [*, Outcome.mapErr, Xerr.strip, Cell.strip]

theorem toIsize_strip (c : Cell) (h : TopWF c) : c.strip.toIsize = Outcome.mapErr Xerr.strip c.toIsize := by
  unfold Cell.toIsize; shape_cases c, h with hv hs <;> simp [*, Outcome.mapErr, Xerr.strip, Cell.strip]
  split <;> simp [Outcome.mapErr, Xerr.strip]

theorem toUsize_strip (c : Cell) (h : TopWF c) : c.strip.toUsize = Outcome.mapErr Xerr.strip c.toUsize := by
  unfold Cell.toUsize; shape_cases c, h with hv hs <;> simp [*, Outcome.mapErr, Xerr.strip, Cell.strip]
  split
  · simp [Outcome.mapErr, Xerr.strip, hs]
  · split <;> simp [Outcome.mapErr, Xerr.strip]

theorem sliceList_map (f : α → β) (l : List α) (a b : Int) : sliceList (l.map f) a b = (sliceList l a b).map f := by
  unfold sliceList; simp [List.map_drop, List.map_take]

theorem runStack_panic (m : String) (h : Nat) (s : List Cell) : runStack (.panic m) h s = .panic m := by simp [runStack]

theorem runStack_popN_drop : ∀ (n : Nat) (k : Prog) (s : List Cell), n ≤ s.length →
    runStack (popN n k) 0 s = runStack k 0 (s.drop n)
  | 0, _, _, _ => by simp [popN]
  | n + 1, k, [], h => by simp at h
  | n + 1, k, c :: s, h => by
    simp only [popN]
    rw [runStack_pop_cons _ 0 _ _ (Nat.zero_le _)]
    simpa using runStack_popN_drop n k s (by simpa using h)

theorem blind_wordGet : Blind wordGet := by
  unfold wordGet
  intro s hs
  rcases s with _ | ⟨k, _ | ⟨c, s⟩⟩
  · simp [runStack]
  · simp [runStack]
  · have hc := hs.tail.head
    have hk := hs.head.top
    simp only [List.map_cons]
    rw [runStack_pop_cons _ 0 _ _ (Nat.zero_le _), runStack_pop_cons _ 0 _ _ (Nat.zero_le _),
      runStack_pop_cons _ 0 _ _ (Nat.zero_le _), runStack_pop_cons _ 0 _ _ (Nat.zero_le _)]
    shape_cases c, hc.top with hcv hcs
    all_goals try (blind_simp; done)
    · rename_i xs
      simp only [hcv, hcs, value_vec, toUsize_strip k hk]
      cases hu : k.toUsize <;> simp [Outcome.mapErr, ofOutcome, Xerr.strip_idem, runStack_panic]
      rename_i idx
      simp only [CellList.strip_toList, List.getElem?_map, CellList.strip_length]
      cases xs.toList[idx]? <;> simp [Xerr.strip]
    · rename_i m
      simp only [hcv, hcs, value_map]
      simp
      rw [← PairList.lookup_strip m k hk (TagWF_map hc hcv)]; simp

theorem blind_wordNth : Blind wordNth := by
  unfold wordNth
  intro s hs
  rcases s with _ | ⟨ic, s⟩
  · simp [runStack]
  · have hi := hs.head.top
    simp only [List.map_cons]
    rw [runStack_pop_cons _ 0 _ _ (Nat.zero_le _), runStack_pop_cons _ 0 _ _ (Nat.zero_le _), toIsize_strip ic hi]
    cases hu : ic.toIsize <;> simp [Outcome.mapErr, ofOutcome, Xerr.strip_idem, runStack_panic]
    rename_i i
    rcases s with _ | ⟨c, s⟩
    · simp [runStack]
    · have hc := hs.tail.head
      simp only [List.map_cons]
      rw [runStack_pop_cons _ 0 _ _ (Nat.zero_le _), runStack_pop_cons _ 0 _ _ (Nat.zero_le _)]
      shape_cases c, hc.top with hcv hcs
      all_goals try (blind_simp; done)
      rename_i xs
      simp only [Cell.toVec, hcv, hcs, value_vec, ofOutcome, CellList.strip_length, CellList.strip_toList, List.getElem?_map]
      cases relativeIndex xs.length i <;> simp [Xerr.strip]
      rename_i a
      cases xs.toList[a]? <;> simp [Xerr.strip]

theorem blind_wordSlice : Blind wordSlice := by
  unfold wordSlice
  intro s hs
  rcases s with _ | ⟨ec, s⟩
  · simp [runStack]
  · have he := hs.head.top
    simp only [List.map_cons]
    rw [runStack_pop_cons _ 0 _ _ (Nat.zero_le _), runStack_pop_cons _ 0 _ _ (Nat.zero_le _), toXint_strip ec he]
    cases hu : ec.toXint <;> simp [Outcome.mapErr, ofOutcome, Xerr.strip_idem, runStack_panic]
    rename_i ei
    rcases s with _ | ⟨sc, s⟩
    · simp [runStack]
    · have hsc := hs.tail.head.top
      simp only [List.map_cons]
      rw [runStack_pop_cons _ 0 _ _ (Nat.zero_le _), runStack_pop_cons _ 0 _ _ (Nat.zero_le _), toXint_strip sc hsc]
      cases hu2 : sc.toXint <;> simp [Outcome.mapErr, ofOutcome, Xerr.strip_idem, runStack_panic]
      rename_i si
      rcases s with _ | ⟨c, s⟩
      · simp [runStack]
      · have hc := hs.tail.tail.head
        simp only [List.map_cons]
        rw [runStack_pop_cons _ 0 _ _ (Nat.zero_le _), runStack_pop_cons _ 0 _ _ (Nat.zero_le _)]
        shape_cases c, hc.top with hcv hcs
        all_goals try (blind_simp; done)
        rename_i xs
        simp only [hcv, hcs, value_vec]
        simp [Cell.strip, CellList.strip_ofList, CellList.strip_toList, sliceList_map]

theorem blind_wordCollect : Blind wordCollect := by
  unfold wordCollect
  intro s hs
  rcases s with _ | ⟨nc, s⟩
  · simp [runStack]
  · have hn := hs.head.top
    simp only [List.map_cons]
    rw [runStack_pop_cons _ 0 _ _ (Nat.zero_le _), runStack_pop_cons _ 0 _ _ (Nat.zero_le _), toUsize_strip nc hn]
    cases hu : nc.toUsize <;> simp [Outcome.mapErr, ofOutcome, Xerr.strip_idem, runStack_panic]
    rename_i n
    simp only [runStack, List.length_map, Nat.sub_zero]
    by_cases hd : n > s.length
    · simp [hd, runStack]
    · simp only [hd, if_false, runStack, List.length_map]
      rw [runStack_popN_drop n _ _ (by omega), runStack_popN_drop n _ _ (by simp; omega)]
      simp [Cell.strip, CellList.strip_ofList, List.map_drop, List.map_reverse]

end Xeh
