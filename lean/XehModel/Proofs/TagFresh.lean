/- Helper for C13 `fresh_untagged`: programs that, when they succeed, end by pushing an untagged cell. -/
import XehModel.Proofs.TagBlind

namespace Xeh
open Prog Coll

/-- every successful path of the program ends with `push c; done` for a cell `c` that carries no tag -/
inductive Fresh : Prog → Prop
  | push (c : Cell) (h : c.tags = none) : Fresh (.push c .done)
  | fail (e : Xerr) : Fresh (.fail e)
  | panic (m : String) : Fresh (.panic m)
  | pop (k : Cell → Prog) (h : ∀ c, Fresh (k c)) : Fresh (.pop k)
  | depth (k : Nat → Prog) (h : ∀ n, Fresh (k n)) : Fresh (.depth k)
  | rawLen (k : Nat → Prog) (h : ∀ n, Fresh (k n)) : Fresh (.rawLen k)
  | rawFrom (p : Nat) (k : List Cell → Prog) (h : ∀ l, Fresh (k l)) : Fresh (.rawFrom p k)

theorem Fresh.sound {p : Prog} (hp : Fresh p) : ∀ (h : Nat) (s r : List Cell), p.runStack h s = .ok r →
    ∃ c rest, r = c :: rest ∧ c.tags = none := by
  induction hp with
  | push c hc => intro h s r hr; simp [runStack] at hr; exact ⟨c, s, hr.symm, hc⟩
  | fail e => intro h s r hr; simp [runStack] at hr
  | panic m => intro h s r hr; simp [runStack] at hr
  | pop k _ ih =>
    intro h s r hr
    cases s with
    | nil => simp [runStack] at hr
    | cons c s =>
      simp only [runStack] at hr
      split at hr
      · exact ih c h s r hr
      · cases hr
  | depth k _ ih => intro h s r hr; simp only [runStack] at hr; exact ih _ h s r hr
  | rawLen k _ ih => intro h s r hr; simp only [runStack] at hr; exact ih _ h s r hr
  | rawFrom p k _ ih => intro h s r hr; simp only [runStack] at hr; exact ih _ h s r hr

theorem Fresh.popN (n : Nat) (k : Prog) (hk : Fresh k) : Fresh (popN n k) := by
  induction n with
  | zero => exact hk
  | succ n ih => exact Fresh.pop _ fun _ => ih

theorem Fresh.ofOutcome {α} (o : Outcome α) (k : α → Prog) (hk : ∀ a, Fresh (k a)) : Fresh (ofOutcome o k) := by
  cases o <;> simp only [Prog.ofOutcome]
  · exact hk _
  · exact Fresh.fail _
  · exact Fresh.panic _

macro "fresh_tac" : tactic => `(tactic| (
  repeat (first
    | exact Fresh.push _ rfl
    | exact Fresh.fail _
    | apply Fresh.pop; intro _
    | apply Fresh.ofOutcome; intro _
    | apply Fresh.depth; intro _
    | apply Fresh.rawLen; intro _
    | apply Fresh.rawFrom; intro _
    | apply Fresh.popN
    | split)))

theorem fresh_arithOpsReal (fi fr) : Fresh (arithOpsReal fi fr) := by unfold arithOpsReal; fresh_tac
theorem fresh_arithOpsInt (fi) : Fresh (arithOpsInt fi) := by unfold arithOpsInt; fresh_tac
theorem fresh_wordDiv : Fresh wordDiv := by unfold wordDiv; fresh_tac
theorem fresh_wordRem : Fresh wordRem := by unfold wordRem; fresh_tac
theorem fresh_wordNeg : Fresh wordNeg := by unfold wordNeg; fresh_tac
theorem fresh_unaryNum (c : Int → Prop) [DecidablePred c] (f : Int → Int) (g : UInt64 → UInt64) :
    Fresh (.pop fun a => match a.value with
      | .int ai => if c ai then .push (.int (f ai)) .done else .fail .integerOverflow
      | .real ar => .push (.real (g ar)) .done
      | _ => .fail (numErr a)) := by fresh_tac
theorem fresh_wordAbs : Fresh wordAbs :=
  fresh_unaryNum (fun ai => InRange (Int.natAbs ai : Int)) (fun ai => (Int.natAbs ai : Int)) SF.abs64
theorem fresh_wordCmp (t) : Fresh (wordCmp t) := by unfold wordCmp; fresh_tac
theorem fresh_wordLogic (f) : Fresh (wordLogic f) := by unfold wordLogic; fresh_tac
theorem fresh_wordNot : Fresh wordNot := by unfold wordNot; fresh_tac
theorem fresh_wordBnot : Fresh wordBnot := by unfold wordBnot; fresh_tac
theorem fresh_wordPopcnt : Fresh wordPopcnt := by unfold wordPopcnt; fresh_tac
theorem fresh_wordRound : Fresh wordRound := by unfold wordRound; fresh_tac
theorem fresh_wordNumTest (ti tr) : Fresh (wordNumTest ti tr) := by unfold wordNumTest; fresh_tac
theorem fresh_wordInsert : Fresh wordInsert := by unfold wordInsert; fresh_tac
theorem fresh_wordRemove : Fresh wordRemove := by unfold wordRemove; fresh_tac
theorem fresh_wordLength : Fresh wordLength := by unfold wordLength natCell; fresh_tac
theorem fresh_wordSlice : Fresh wordSlice := by unfold wordSlice; fresh_tac
theorem fresh_wordConcat : Fresh wordConcat := by unfold wordConcat; fresh_tac
theorem fresh_wordJoin : Fresh wordJoin := by unfold wordJoin; fresh_tac
theorem fresh_wordSort : Fresh wordSort := by unfold wordSort; fresh_tac
theorem fresh_wordReverse : Fresh wordReverse := by unfold wordReverse; fresh_tac
theorem fresh_wordPush : Fresh wordPush := by unfold wordPush; fresh_tac
theorem fresh_wordCollect : Fresh wordCollect := by unfold wordCollect; fresh_tac
theorem fresh_wordIs (t) : Fresh (wordIs t) := by unfold wordIs; fresh_tac

end Xeh
