/-
Helper lemmas for C13: recursive untagging `strip` commutes with everything the words look at.
-/
import XehModel.Proofs.Tactics
import XehModel.Proofs.CollOrder
import XehModel.Model.Tags

namespace Xeh

/-- the payload of the cell is not itself a tagged cell (true of every cell the implementation builds) -/
def TopWF (c : Cell) : Prop := c.value.tags = none

theorem Cell.TagWF.top : ∀ {c : Cell}, c.TagWF → TopWF c
  | .tagged v t, h => by simp [Cell.TagWF] at h; simpa [TopWF, Cell.value] using h.1
  | .nil, _ => rfl | .flag _, _ => rfl | .int _, _ => rfl | .real _, _ => rfl | .str _, _ => rfl
  | .vec _, _ => rfl | .map _, _ => rfl | .fn _ _, _ => rfl | .bitstr _, _ => rfl | .any _, _ => rfl

theorem strip_value (c : Cell) : c.value.strip = c.strip := by
  cases c <;> simp [Cell.value, Cell.strip]

mutual
theorem strip_idem : ∀ c : Cell, c.strip.strip = c.strip
  | .tagged v _ => by simp only [Cell.strip]; exact strip_idem v
  | .vec xs => by simp only [Cell.strip]; rw [stripList_idem xs]
  | .map kv => by simp only [Cell.strip]; rw [stripPairs_idem kv]
  | .nil => rfl | .flag _ => rfl | .int _ => rfl | .real _ => rfl | .str _ => rfl
  | .fn _ _ => rfl | .bitstr _ => rfl | .any _ => rfl
theorem stripList_idem : ∀ l : CellList, l.strip.strip = l.strip
  | .nil => rfl
  | .cons h t => by simp only [CellList.strip]; rw [strip_idem h, stripList_idem t]
theorem stripPairs_idem : ∀ l : PairList, l.strip.strip = l.strip
  | .nil => rfl
  | .cons k v t => by simp only [PairList.strip]; rw [strip_idem k, strip_idem v, stripPairs_idem t]
end

/-- a stripped cell carries no tag -/
theorem strip_tags : ∀ c : Cell, c.strip.tags = none
  | .tagged v _ => by simp only [Cell.strip]; exact strip_tags v
  | .vec _ => rfl | .map _ => rfl
  | .nil => rfl | .flag _ => rfl | .int _ => rfl | .real _ => rfl | .str _ => rfl
  | .fn _ _ => rfl | .bitstr _ => rfl | .any _ => rfl

theorem strip_value_self (c : Cell) : c.strip.value = c.strip := by
  have := strip_tags c
  cases h : c.strip <;> simp_all [Cell.value, Cell.tags]

/-- the shape of a cell and of its stripped version agree -/
inductive Shape : Cell → Cell → Prop
  | nil : Shape .nil .nil
  | flag b : Shape (.flag b) (.flag b)
  | int i : Shape (.int i) (.int i)
  | real r : Shape (.real r) (.real r)
  | str s : Shape (.str s) (.str s)
  | vec xs : Shape (.vec xs) (.vec xs.strip)
  | map kv : Shape (.map kv) (.map kv.strip)
  | fn n a : Shape (.fn n a) (.fn n a)
  | bitstr b : Shape (.bitstr b) (.bitstr b)
  | any i : Shape (.any i) (.any i)

theorem shape_of_topWF {c : Cell} (h : TopWF c) : Shape c.value c.strip := by
  rw [← strip_value c]
  unfold TopWF at h
  cases hv : c.value <;> simp [Cell.strip] <;> try constructor
  rw [hv] at h; simp [Cell.tags] at h

theorem CellList.strip_toList : ∀ l : CellList, l.strip.toList = l.toList.map Cell.strip
  | .nil => rfl
  | .cons h t => by simp [CellList.strip, CellList.toList, CellList.strip_toList t]

theorem PairList.strip_toList : ∀ l : PairList, l.strip.toList = l.toList.map fun p => (p.1.strip, p.2.strip)
  | .nil => rfl
  | .cons k v t => by simp [PairList.strip, PairList.toList, PairList.strip_toList t]

theorem CellList.strip_ofList : ∀ l : List Cell, (CellList.ofList l).strip = CellList.ofList (l.map Cell.strip)
  | [] => rfl
  | h :: t => by simp [CellList.ofList, CellList.strip, CellList.strip_ofList t]

theorem PairList.strip_ofList : ∀ l : List (Cell × Cell),
    (PairList.ofList l).strip = PairList.ofList (l.map fun p => (p.1.strip, p.2.strip))
  | [] => rfl
  | (k, v) :: t => by simp [PairList.ofList, PairList.strip, PairList.strip_ofList t]

theorem CellList.strip_length (l : CellList) : l.strip.length = l.length := by
  simp [CellList.length, CellList.strip_toList]

theorem CellList.TagWF_mem : ∀ {l : CellList}, l.TagWF → ∀ c ∈ l.toList, c.TagWF
  | .nil, _, c, hc => by simp [CellList.toList] at hc
  | .cons h t, hw, c, hc => by
    simp only [CellList.TagWF] at hw
    simp only [CellList.toList, List.mem_cons] at hc
    rcases hc with rfl | hc
    · exact hw.1
    · exact CellList.TagWF_mem hw.2 c hc

theorem PairList.TagWF_mem : ∀ {l : PairList}, l.TagWF → ∀ p ∈ l.toList, p.1.TagWF ∧ p.2.TagWF
  | .nil, _, p, hp => by simp [PairList.toList] at hp
  | .cons k v t, hw, p, hp => by
    simp only [PairList.TagWF] at hw
    simp only [PairList.toList, List.mem_cons] at hp
    rcases hp with rfl | hp
    · exact ⟨hw.1, hw.2.1⟩
    · exact PairList.TagWF_mem hw.2.2 p hp

/-! ### `cmp` does not see tags -/

theorem cmp_strip {a b : Cell} (ha : TopWF a) (hb : TopWF b) : Cell.cmp a.strip b.strip = Cell.cmp a b := by
  have sa := shape_of_topWF ha; have sb := shape_of_topWF hb
  unfold Cell.cmp Cell.partialCmp
  rw [strip_value_self a, strip_value_self b]
  generalize a.value = av at sa; generalize a.strip = a' at sa
  generalize b.value = bv at sb; generalize b.strip = b' at sb
  cases sa <;> cases sb <;> rfl

theorem cmp_strip_left {a b : Cell} (ha : TopWF a) : Cell.cmp a.strip b = Cell.cmp a b := by
  have sa := shape_of_topWF ha
  unfold Cell.cmp Cell.partialCmp
  rw [strip_value_self a]
  generalize a.value = av at sa; generalize a.strip = a' at sa
  cases sa <;> rfl

abbrev stripPair (p : Cell × Cell) : Cell × Cell := (p.1.strip, p.2.strip)

def KeysTopWF (l : Entries) : Prop := ∀ p ∈ l, TopWF p.1

theorem insertL_strip {k : Cell} (v : Cell) (hk : TopWF k) : ∀ l : Entries, KeysTopWF l →
    (insertL k v l).map stripPair = insertL k.strip v.strip (l.map stripPair)
  | [], _ => rfl
  | (h, hv) :: t, hw => by
    have hh : TopWF h := hw (h, hv) List.mem_cons_self
    simp only [insertL, List.map_cons, stripPair, cmp_strip hk hh]
    cases Cell.cmp k h <;> simp only [List.map_cons, stripPair]
    rw [← insertL_strip v hk t fun p hp => hw p (List.mem_cons_of_mem _ hp)]

theorem eraseL_strip {k : Cell} (hk : TopWF k) : ∀ l : Entries, KeysTopWF l →
    (eraseL k l).map stripPair = eraseL k.strip (l.map stripPair)
  | [], _ => rfl
  | (h, hv) :: t, hw => by
    have hh : TopWF h := hw (h, hv) List.mem_cons_self
    simp only [eraseL, List.map_cons, stripPair, cmp_strip hk hh]
    cases Cell.cmp k h <;> simp only [List.map_cons, stripPair]
    rw [← eraseL_strip hk t fun p hp => hw p (List.mem_cons_of_mem _ hp)]

theorem lookupL_strip {k : Cell} (hk : TopWF k) : ∀ l : Entries, KeysTopWF l →
    (lookupL k l).map Cell.strip = lookupL k.strip (l.map stripPair)
  | [], _ => rfl
  | (h, hv) :: t, hw => by
    have hh : TopWF h := hw (h, hv) List.mem_cons_self
    simp only [lookupL, List.map_cons, stripPair, cmp_strip hk hh]
    cases Cell.cmp k h <;> simp only [Option.map]
    exact lookupL_strip hk t fun p hp => hw p (List.mem_cons_of_mem _ hp)

theorem insertSorted_strip {x : Cell} (hx : TopWF x) : ∀ l : List Cell, (∀ y ∈ l, TopWF y) →
    (insertSorted x l).map Cell.strip = insertSorted x.strip (l.map Cell.strip)
  | [], _ => rfl
  | y :: t, hw => by
    have hy : TopWF y := hw y List.mem_cons_self
    simp only [insertSorted, List.map_cons, cmp_strip hx hy]
    split
    · simp only [List.map_cons]
      rw [insertSorted_strip hx t fun z hz => hw z (List.mem_cons_of_mem _ hz)]
    · rfl

theorem mem_insertSorted {x z : Cell} : ∀ l : List Cell, z ∈ insertSorted x l → z = x ∨ z ∈ l
  | [], h => by simp [insertSorted] at h; exact Or.inl h
  | y :: t, h => by
    simp only [insertSorted] at h
    split at h
    · rcases List.mem_cons.mp h with rfl | h
      · exact Or.inr List.mem_cons_self
      · rcases mem_insertSorted t h with h | h
        · exact Or.inl h
        · exact Or.inr (List.mem_cons_of_mem _ h)
    · rcases List.mem_cons.mp h with rfl | h
      · exact Or.inl rfl
      · exact Or.inr h

theorem mem_sortL {z : Cell} : ∀ l : List Cell, z ∈ sortL l → z ∈ l
  | [], h => by simp [sortL] at h
  | x :: t, h => by
    rcases mem_insertSorted _ h with rfl | h
    · exact List.mem_cons_self
    · exact List.mem_cons_of_mem _ (mem_sortL t h)

theorem sortL_strip : ∀ l : List Cell, (∀ y ∈ l, TopWF y) → (sortL l).map Cell.strip = sortL (l.map Cell.strip)
  | [], _ => rfl
  | x :: t, hw => by
    simp only [sortL, List.map_cons]
    rw [insertSorted_strip (hw x List.mem_cons_self) _ fun z hz => hw z (List.mem_cons_of_mem _ (mem_sortL t hz)),
      sortL_strip t fun z hz => hw z (List.mem_cons_of_mem _ hz)]

end Xeh
