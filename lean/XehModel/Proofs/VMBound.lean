/-
C14, stack and heap limits without a well-formedness hypothesis (generated from Proofs/VMMeter.lean by renaming, then
adapted): every primitive, native word, opcode, `step` and `run` leaves the stack limit and the heap limit alone,
keeps the number of heap cells, and — with a stack limit `S` — leaves at most `max S (cells before)` cells on the data
stack.
-/
import XehModel.Model.VM

namespace Xeh.Mach

/-- limits untouched, heap size unchanged, data stack within `max S (before)` -/
def Bnd (m m' : Mach) : Prop :=
  m'.stackLimit = m.stackLimit ∧ m'.heapLimit = m.heapLimit ∧ m'.heap.length = m.heap.length ∧
  (∀ S, m.stackLimit = some S → m'.ds.length ≤ max S m.ds.length) ∧ m'.code.length = m.code.length

theorem Bnd.refl (m : Mach) : Bnd m m := ⟨rfl, rfl, rfl, fun S _ => by omega, rfl⟩
theorem Bnd.trans {a b c : Mach} (h1 : Bnd a b) (h2 : Bnd b c) : Bnd a c :=
  ⟨h2.1.trans h1.1, h2.2.1.trans h1.2.1, h2.2.2.1.trans h1.2.2.1, fun S hS => by
    have x := h1.2.2.2.1 S hS
    have y := h2.2.2.2.1 S (by rw [h1.1]; exact hS)
    omega, h2.2.2.2.2.trans h1.2.2.2.2⟩

/-- close a `Bnd` goal between a machine and an explicit update of it -/
macro "bnd_auto" : tactic => `(tactic|
  (refine ⟨rfl, rfl, ?_, fun S hS => ?_, ?_⟩ <;> first | rfl | omega | (simp_all [logStep, setIp, nextIp, pushReturn, pushLoop, pushSpecial] <;> omega)))

/-! ### primitives -/

theorem logStep_bnd (m : Mach) (s : RStep) : Bnd m (m.logStep s) := (by bnd_auto)
theorem setIp_bnd (m : Mach) (n : Nat) : Bnd m (m.setIp n) := (by bnd_auto)
theorem nextIp_bnd (m : Mach) : Bnd m m.nextIp := (by bnd_auto)
theorem pushReturn_bnd (m : Mach) (f : Frame) : Bnd m (m.pushReturn f) := (by bnd_auto)
theorem pushLoop_bnd (m : Mach) (l : Loop) : Bnd m (m.pushLoop l) := (by bnd_auto)
theorem pushSpecial_bnd (m : Mach) (p : Nat) : Bnd m (m.pushSpecial p) := (by bnd_auto)

theorem pushData_bnd (m : Mach) (c : Cell) : Bnd m (m.pushData c).2 := by
  unfold pushData; split <;> (try split) <;> exact (by bnd_auto)
theorem popData_bnd (m : Mach) : Bnd m m.popData.2 := by
  unfold popData; split <;> (try split) <;> exact (by bnd_auto)
theorem topData_bnd (m : Mach) : Bnd m m.topData.2 := by
  unfold topData; split <;> (try split) <;> exact (by bnd_auto)
theorem dupData_bnd (m : Mach) : Bnd m m.dupData.2 := by
  unfold dupData
  split
  · rename_i c m1 h
    have h1 := topData_bnd m; rw [h] at h1
    exact h1.trans (pushData_bnd m1 c)
  · rename_i e m1 h; have h1 := topData_bnd m; rw [h] at h1; exact h1
  · rename_i e m1 h; have h1 := topData_bnd m; rw [h] at h1; exact h1
theorem swapData_bnd (m : Mach) : Bnd m m.swapData.2 := by
  unfold swapData; split <;> (try split) <;> exact (by bnd_auto)
theorem rotData_bnd (m : Mach) : Bnd m m.rotData.2 := by
  unfold rotData; split <;> (try split) <;> exact (by bnd_auto)
theorem overData_bnd (m : Mach) : Bnd m m.overData.2 := by
  unfold overData
  split
  · split
    · exact (logStep_bnd m _).trans (pushData_bnd _ _)
    · exact (by bnd_auto)
  · exact (by bnd_auto)
theorem popReturn_bnd (m : Mach) : Bnd m m.popReturn.2 := by
  unfold popReturn; split <;> (try split) <;> exact (by bnd_auto)
theorem popLoop_bnd (m : Mach) : Bnd m m.popLoop.2 := by
  unfold popLoop; split <;> (try split) <;> exact (by bnd_auto)
theorem loopNext_bnd (m : Mach) : Bnd m m.loopNext.2 := by
  unfold loopNext; split <;> (try split) <;> exact (by bnd_auto)
theorem popSpecial_bnd (m : Mach) : Bnd m m.popSpecial.2 := by
  unfold popSpecial; split <;> (try split) <;> exact (by bnd_auto)
theorem swapCellRef_bnd (m : Mach) (i : Nat) (v : Cell) : Bnd m (m.swapCellRef i v).2 := by
  unfold swapCellRef; split <;> (try split) <;> exact (by bnd_auto)
theorem setLoopItems_bnd (m : Mach) (c : Cell) : Bnd m (m.setLoopItems c).2 := by
  unfold setLoopItems; split <;> (try split) <;> exact (by bnd_auto)

theorem doInit_bnd (m : Mach) : Bnd m m.doInit.2 := by
  unfold doInit
  have k1 := popData_bnd m
  split
  · rename_i st m1 h1
    rw [h1] at k1
    have k2 := popData_bnd m1
    split
    · rename_i l m2 h2
      rw [h2] at k2
      split <;> (try split) <;> exact k1.trans k2
    · rename_i e m2 h2; rw [h2] at k2; exact k1.trans k2
    · rename_i e m2 h2; rw [h2] at k2; exact k1.trans k2
  · rename_i e m1 h1; rw [h1] at k1; exact k1
  · rename_i e m1 h1; rw [h1] at k1; exact k1

/-! ### programs of native words -/

theorem runProg_bnd : ∀ (p : Prog) (m : Mach), Bnd m (runProg p m).2 := by
  intro p
  induction p with
  | done => intro m; exact Bnd.refl _
  | fail e => intro m; exact Bnd.refl _
  | panic s => intro m; exact Bnd.refl _
  | pop k ih =>
    intro m; simp only [runProg]
    have k1 := popData_bnd m
    split
    · rename_i c m1 h; rw [h] at k1; exact k1.trans (ih c m1)
    · rename_i e m1 h; rw [h] at k1; exact k1
    · rename_i e m1 h; rw [h] at k1; exact k1
  | push c k ih =>
    intro m; simp only [runProg]
    have k1 := pushData_bnd m c
    split
    · rename_i m1 h; rw [h] at k1; exact k1.trans (ih m1)
    · rename_i e m1 h; rw [h] at k1; exact k1
    · rename_i e m1 h; rw [h] at k1; exact k1
  | top k ih =>
    intro m; simp only [runProg]
    have k1 := topData_bnd m
    split
    · rename_i c m1 h; rw [h] at k1; exact k1.trans (ih c m1)
    · rename_i e m1 h; rw [h] at k1; exact k1
    · rename_i e m1 h; rw [h] at k1; exact k1
  | dup k ih =>
    intro m; simp only [runProg]
    have k1 := dupData_bnd m
    split
    · rename_i m1 h; rw [h] at k1; exact k1.trans (ih m1)
    · rename_i e m1 h; rw [h] at k1; exact k1
    · rename_i e m1 h; rw [h] at k1; exact k1
  | swap k ih =>
    intro m; simp only [runProg]
    have k1 := swapData_bnd m
    split
    · rename_i m1 h; rw [h] at k1; exact k1.trans (ih m1)
    · rename_i e m1 h; rw [h] at k1; exact k1
    · rename_i e m1 h; rw [h] at k1; exact k1
  | rot k ih =>
    intro m; simp only [runProg]
    have k1 := rotData_bnd m
    split
    · rename_i m1 h; rw [h] at k1; exact k1.trans (ih m1)
    · rename_i e m1 h; rw [h] at k1; exact k1
    · rename_i e m1 h; rw [h] at k1; exact k1
  | over k ih =>
    intro m; simp only [runProg]
    have k1 := overData_bnd m
    split
    · rename_i m1 h; rw [h] at k1; exact k1.trans (ih m1)
    · rename_i e m1 h; rw [h] at k1; exact k1
    · rename_i e m1 h; rw [h] at k1; exact k1
  | depth k ih => intro m; simp only [runProg]; exact ih _ m
  | rawLen k ih => intro m; simp only [runProg]; exact ih _ m
  | rawFrom ptr k ih => intro m; simp only [runProg]; exact ih _ m
  | getVar idx k ih =>
    intro m; simp only [runProg]
    split
    · exact ih _ m
    · exact (by bnd_auto)
    · exact (by bnd_auto)
  | setVar idx c k ih =>
    intro m; simp only [runProg]
    have k1 := swapCellRef_bnd m idx c
    split
    · rename_i m1 h; rw [h] at k1; exact k1.trans (ih m1)
    · rename_i e m1 h; rw [h] at k1; exact k1
    · rename_i e m1 h; rw [h] at k1; exact k1
  | print s k ih => intro m; simp only [runProg]; exact (show Bnd m { m with out := m.out ++ s } from (by bnd_auto)).trans (ih _)
  | pushSpecial p k ih => intro m; simp only [runProg]; exact (pushSpecial_bnd m p).trans (ih _)
  | popSpecial k ih =>
    intro m; simp only [runProg]
    exact (popSpecial_bnd m).trans (ih _ _)
  | loopAt n k ih => intro m; simp only [runProg]; exact ih _ m
  | setLoopItems c k ih =>
    intro m; simp only [runProg]
    have k1 := setLoopItems_bnd m c
    split
    · rename_i m1 h; rw [h] at k1; exact k1.trans (ih m1)
    · rename_i e m1 h; rw [h] at k1; exact k1
    · rename_i e m1 h; rw [h] at k1; exact k1
  | stop k ih => intro m; simp only [runProg]; exact (show Bnd m { m with aboutToStop := true } from (by bnd_auto)).trans (ih _)

/-! ### one opcode, one step, a run -/

theorem pushData_bnd' {m m1 : Mach} {c : Cell} {o : Outcome Unit} (h : m.pushData c = (o, m1)) : Bnd m m1 := by
  have := pushData_bnd m c; rw [h] at this; exact this
theorem popData_bnd' {m m1 : Mach}  {o : Outcome Cell} (h : m.popData  = (o, m1)) : Bnd m m1 := by
  have := popData_bnd m ; rw [h] at this; exact this
theorem topData_bnd' {m m1 : Mach}  {o : Outcome Cell} (h : m.topData  = (o, m1)) : Bnd m m1 := by
  have := topData_bnd m ; rw [h] at this; exact this
theorem dupData_bnd' {m m1 : Mach}  {o : Outcome Unit} (h : m.dupData  = (o, m1)) : Bnd m m1 := by
  have := dupData_bnd m ; rw [h] at this; exact this
theorem swapData_bnd' {m m1 : Mach}  {o : Outcome Unit} (h : m.swapData  = (o, m1)) : Bnd m m1 := by
  have := swapData_bnd m ; rw [h] at this; exact this
theorem rotData_bnd' {m m1 : Mach}  {o : Outcome Unit} (h : m.rotData  = (o, m1)) : Bnd m m1 := by
  have := rotData_bnd m ; rw [h] at this; exact this
theorem overData_bnd' {m m1 : Mach}  {o : Outcome Unit} (h : m.overData  = (o, m1)) : Bnd m m1 := by
  have := overData_bnd m ; rw [h] at this; exact this
theorem popReturn_bnd' {m m1 : Mach}  {o : Outcome Frame} (h : m.popReturn  = (o, m1)) : Bnd m m1 := by
  have := popReturn_bnd m ; rw [h] at this; exact this
theorem popLoop_bnd' {m m1 : Mach}  {o : Outcome Loop} (h : m.popLoop  = (o, m1)) : Bnd m m1 := by
  have := popLoop_bnd m ; rw [h] at this; exact this
theorem loopNext_bnd' {m m1 : Mach}  {o : Outcome Bool} (h : m.loopNext  = (o, m1)) : Bnd m m1 := by
  have := loopNext_bnd m ; rw [h] at this; exact this
theorem swapCellRef_bnd' {m m1 : Mach} {i : Nat} {v : Cell} {o : Outcome Unit} (h : m.swapCellRef i v = (o, m1)) : Bnd m m1 := by
  have := swapCellRef_bnd m i v; rw [h] at this; exact this
theorem doInit_bnd' {m m1 : Mach}  {o : Outcome Loop} (h : m.doInit  = (o, m1)) : Bnd m m1 := by
  have := doInit_bnd m ; rw [h] at this; exact this
theorem setLoopItems_bnd' {m m1 : Mach} {c : Cell} {o : Outcome Unit} (h : m.setLoopItems c = (o, m1)) : Bnd m m1 := by
  have := setLoopItems_bnd m c; rw [h] at this; exact this
theorem runProg_bnd' {p : Prog} {m m1 : Mach} {o : Outcome Unit} (h : runProg p m = (o, m1)) : Bnd m m1 := by
  have := runProg_bnd p m; rw [h] at this; exact this

/-- one step of a `Bnd` proof -/
macro "bstep" : tactic => `(tactic| first
  | (refine Bnd.trans (pushData_bnd' (by with_reducible assumption)) ?_)
  | (refine Bnd.trans (popData_bnd' (by with_reducible assumption)) ?_)
  | (refine Bnd.trans (topData_bnd' (by with_reducible assumption)) ?_)
  | (refine Bnd.trans (dupData_bnd' (by with_reducible assumption)) ?_)
  | (refine Bnd.trans (swapData_bnd' (by with_reducible assumption)) ?_)
  | (refine Bnd.trans (rotData_bnd' (by with_reducible assumption)) ?_)
  | (refine Bnd.trans (overData_bnd' (by with_reducible assumption)) ?_)
  | (refine Bnd.trans (popReturn_bnd' (by with_reducible assumption)) ?_)
  | (refine Bnd.trans (popLoop_bnd' (by with_reducible assumption)) ?_)
  | (refine Bnd.trans (loopNext_bnd' (by with_reducible assumption)) ?_)
  | (refine Bnd.trans (swapCellRef_bnd' (by with_reducible assumption)) ?_)
  | (refine Bnd.trans (doInit_bnd' (by with_reducible assumption)) ?_)
  | (refine Bnd.trans (setLoopItems_bnd' (by with_reducible assumption)) ?_)
  | (refine Bnd.trans (runProg_bnd' (by with_reducible assumption)) ?_)
  | exact Bnd.refl _
  | exact setIp_bnd _ _
  | exact nextIp_bnd _
  | (refine Bnd.trans ?_ (nextIp_bnd _))
  | (refine Bnd.trans ?_ (setIp_bnd _ _))
  | exact pushLoop_bnd _ _
  | exact pushReturn_bnd _ _
  | exact logStep_bnd _ _)

theorem exec_bnd (np : String → Option Prog) (m : Mach) (ip : Nat) (op : Op) : Bnd m (exec np m ip op).2 := by
  cases op with
  | nop => exact nextIp_bnd _
  | jump rel => exact setIp_bnd _ _
  | call a => simp only [exec]; repeat bstep
  | resolve n => exact Bnd.refl _
  | native name =>
    simp only [exec]
    split
    · (repeat' split) <;> (repeat bstep)
    · exact Bnd.refl _
  | jumpIf rel => simp only [exec]; (repeat' split) <;> (repeat bstep)
  | jumpIfNot rel => simp only [exec]; (repeat' split) <;> (repeat bstep)
  | caseOf rel => simp only [exec]; (repeat' split) <;> (repeat bstep)
  | ret => simp only [exec]; (repeat' split) <;> (repeat bstep)
  | loadStr x => simp only [exec]; (repeat' split) <;> (repeat bstep)
  | loadF64 x => simp only [exec]; (repeat' split) <;> (repeat bstep)
  | loadI64 x => simp only [exec]; (repeat' split) <;> (repeat bstep)
  | loadNil => simp only [exec]; (repeat' split) <;> (repeat bstep)
  | loadCell x => simp only [exec]; (repeat' split) <;> (repeat bstep)
  | load x => simp only [exec]; (repeat' split) <;> (repeat bstep)
  | store x => simp only [exec]; (repeat' split) <;> (repeat bstep)
  | initLocal x => simp only [exec]; (repeat' split) <;> (repeat bstep) <;> exact (by bnd_auto)
  | loadLocal x => simp only [exec]; (repeat' split) <;> (repeat bstep)
  | doOp rel => simp only [exec]; (repeat' split) <;> (repeat bstep)
  | breakOp rel => simp only [exec]; (repeat' split) <;> (repeat bstep)
  | loopOp rel => simp only [exec]; (repeat' split) <;> (repeat bstep)


theorem meterIncrease_bnd (m : Mach) : Bnd m m.meterIncrease.2 := by
  unfold meterIncrease; split <;> (try split) <;> bnd_auto

theorem patchCode_bnd (m : Mach) (ip : Nat) (op : Op) : Bnd m (m.patchCode ip op) := by
  unfold patchCode; split <;> bnd_auto

/-- one `fetch_and_run`, whatever machine, whatever outcome -/
theorem step_bnd (np : String → Option Prog) (m : Mach) : Bnd m (step np m).2 := by
  unfold step
  simp only
  have k1 := meterIncrease_bnd m
  split
  · rename_i e m1 h; rw [h] at k1; exact k1
  · rename_i e m1 h; rw [h] at k1; exact k1
  · rename_i m1 h
    rw [h] at k1
    split
    · exact k1
    · split
      · exact k1
      · exact k1
      · rename_i op hr
        have k2 := patchCode_bnd m1 m.ctx.ip op
        have k3 := meterIncrease_bnd (m1.patchCode m.ctx.ip op)
        split
        · rename_i e m2 h2; rw [h2] at k3; exact k1.trans (k2.trans k3)
        · rename_i e m2 h2; rw [h2] at k3; exact k1.trans (k2.trans k3)
        · rename_i m2 h2
          rw [h2] at k3
          exact k1.trans (k2.trans (k3.trans (exec_bnd np m2 _ op)))
    · exact k1.trans (exec_bnd np m1 _ _)

/-- `State::run`, any fuel, any machine -/
theorem run_bnd (np : String → Option Prog) : ∀ (fuel : Nat) (m : Mach) (r : R Unit),
    run np fuel m = some r → Bnd m r.2 := by
  intro fuel
  induction fuel with
  | zero =>
    intro m r h; simp only [run] at h
    split at h
    · cases h
    · cases h; exact Bnd.refl _
  | succ f ih =>
    intro m r h
    simp only [run] at h
    split at h
    · have ks := step_bnd np m
      split at h
      · rename_i m1 hs; rw [hs] at ks; exact ks.trans (ih m1 r h)
      · cases h; exact ks
    · cases h; exact Bnd.refl _

end Xeh.Mach
