/-
The instruction meter and the instruction limit, without any well-formedness hypothesis: nothing but `set_insn_limit`
(outside the model's step functions) ever lowers the meter or touches the limit, a step advances the meter by at most
two (a `Resolve` is fetched twice) and never past the limit.
-/
import XehModel.Model.VM

namespace Xeh.Mach
open Xeh

/-- meter and limit are what they were -/
def Keeps (m m' : Mach) : Prop := m'.meter = m.meter ∧ m'.insnLimit = m.insnLimit

theorem Keeps.refl (m : Mach) : Keeps m m := ⟨rfl, rfl⟩
theorem Keeps.trans {a b c : Mach} (h1 : Keeps a b) (h2 : Keeps b c) : Keeps a c :=
  ⟨h2.1.trans h1.1, h2.2.trans h1.2⟩

/-- the meter has not gone down, the limit is the same, and a meter within the limit is still within it -/
structure MLe (a b : Mach) : Prop where
  limit : b.insnLimit = a.insnLimit
  mono : a.meter ≤ b.meter
  bound : ∀ N, a.insnLimit = some N → a.meter ≤ N → b.meter ≤ N

theorem MLe.refl (m : Mach) : MLe m m := ⟨rfl, Nat.le_refl _, fun _ _ h => h⟩
theorem MLe.trans {a b c : Mach} (h1 : MLe a b) (h2 : MLe b c) : MLe a c :=
  ⟨h2.limit.trans h1.limit, Nat.le_trans h1.mono h2.mono,
   fun N hN h => h2.bound N (h1.limit ▸ hN) (h1.bound N hN h)⟩
theorem Keeps.mle {a b : Mach} (h : Keeps a b) : MLe a b :=
  ⟨h.2, by rw [h.1]; exact Nat.le_refl _, fun N _ hm => by rw [h.1]; exact hm⟩

/-! ### primitives -/

theorem logStep_keeps (m : Mach) (s : RStep) : Keeps m (m.logStep s) := ⟨rfl, rfl⟩
theorem setIp_keeps (m : Mach) (n : Nat) : Keeps m (m.setIp n) := ⟨rfl, rfl⟩
theorem nextIp_keeps (m : Mach) : Keeps m m.nextIp := ⟨rfl, rfl⟩
theorem pushReturn_keeps (m : Mach) (f : Frame) : Keeps m (m.pushReturn f) := ⟨rfl, rfl⟩
theorem pushLoop_keeps (m : Mach) (l : Loop) : Keeps m (m.pushLoop l) := ⟨rfl, rfl⟩
theorem pushSpecial_keeps (m : Mach) (p : Nat) : Keeps m (m.pushSpecial p) := ⟨rfl, rfl⟩

theorem pushData_keeps (m : Mach) (c : Cell) : Keeps m (m.pushData c).2 := by
  unfold pushData; split <;> (try split) <;> exact ⟨rfl, rfl⟩
theorem popData_keeps (m : Mach) : Keeps m m.popData.2 := by
  unfold popData; split <;> (try split) <;> exact ⟨rfl, rfl⟩
theorem topData_keeps (m : Mach) : Keeps m m.topData.2 := by
  unfold topData; split <;> (try split) <;> exact ⟨rfl, rfl⟩
theorem dupData_keeps (m : Mach) : Keeps m m.dupData.2 := by
  unfold dupData
  split
  · rename_i c m1 h
    have h1 := topData_keeps m; rw [h] at h1
    exact h1.trans (pushData_keeps m1 c)
  · rename_i e m1 h; have h1 := topData_keeps m; rw [h] at h1; exact h1
  · rename_i e m1 h; have h1 := topData_keeps m; rw [h] at h1; exact h1
theorem swapData_keeps (m : Mach) : Keeps m m.swapData.2 := by
  unfold swapData; split <;> (try split) <;> exact ⟨rfl, rfl⟩
theorem rotData_keeps (m : Mach) : Keeps m m.rotData.2 := by
  unfold rotData; split <;> (try split) <;> exact ⟨rfl, rfl⟩
theorem overData_keeps (m : Mach) : Keeps m m.overData.2 := by
  unfold overData
  split
  · split
    · exact (logStep_keeps m _).trans (pushData_keeps _ _)
    · exact ⟨rfl, rfl⟩
  · exact ⟨rfl, rfl⟩
theorem popReturn_keeps (m : Mach) : Keeps m m.popReturn.2 := by
  unfold popReturn; split <;> (try split) <;> exact ⟨rfl, rfl⟩
theorem popLoop_keeps (m : Mach) : Keeps m m.popLoop.2 := by
  unfold popLoop; split <;> (try split) <;> exact ⟨rfl, rfl⟩
theorem loopNext_keeps (m : Mach) : Keeps m m.loopNext.2 := by
  unfold loopNext; split <;> (try split) <;> exact ⟨rfl, rfl⟩
theorem popSpecial_keeps (m : Mach) : Keeps m m.popSpecial.2 := by
  unfold popSpecial; split <;> (try split) <;> exact ⟨rfl, rfl⟩
theorem swapCellRef_keeps (m : Mach) (i : Nat) (v : Cell) : Keeps m (m.swapCellRef i v).2 := by
  unfold swapCellRef; split <;> (try split) <;> exact ⟨rfl, rfl⟩
theorem allocHeap_keeps (m : Mach) (v : Cell) : Keeps m (m.allocHeap v).2 := by
  unfold allocHeap; split <;> (try split) <;> (try split) <;> exact ⟨rfl, rfl⟩
theorem setLoopItems_keeps (m : Mach) (c : Cell) : Keeps m (m.setLoopItems c).2 := by
  unfold setLoopItems; split <;> (try split) <;> exact ⟨rfl, rfl⟩

theorem doInit_keeps (m : Mach) : Keeps m m.doInit.2 := by
  unfold doInit
  have k1 := popData_keeps m
  split
  · rename_i st m1 h1
    rw [h1] at k1
    have k2 := popData_keeps m1
    split
    · rename_i l m2 h2
      rw [h2] at k2
      split <;> (try split) <;> exact k1.trans k2
    · rename_i e m2 h2; rw [h2] at k2; exact k1.trans k2
    · rename_i e m2 h2; rw [h2] at k2; exact k1.trans k2
  · rename_i e m1 h1; rw [h1] at k1; exact k1
  · rename_i e m1 h1; rw [h1] at k1; exact k1

/-! ### programs of native words -/

theorem runProg_keeps : ∀ (p : Prog) (m : Mach), Keeps m (runProg p m).2 := by
  intro p
  induction p with
  | done => intro m; exact ⟨rfl, rfl⟩
  | fail e => intro m; exact ⟨rfl, rfl⟩
  | panic s => intro m; exact ⟨rfl, rfl⟩
  | pop k ih =>
    intro m; simp only [runProg]
    have k1 := popData_keeps m
    split
    · rename_i c m1 h; rw [h] at k1; exact k1.trans (ih c m1)
    · rename_i e m1 h; rw [h] at k1; exact k1
    · rename_i e m1 h; rw [h] at k1; exact k1
  | push c k ih =>
    intro m; simp only [runProg]
    have k1 := pushData_keeps m c
    split
    · rename_i m1 h; rw [h] at k1; exact k1.trans (ih m1)
    · rename_i e m1 h; rw [h] at k1; exact k1
    · rename_i e m1 h; rw [h] at k1; exact k1
  | top k ih =>
    intro m; simp only [runProg]
    have k1 := topData_keeps m
    split
    · rename_i c m1 h; rw [h] at k1; exact k1.trans (ih c m1)
    · rename_i e m1 h; rw [h] at k1; exact k1
    · rename_i e m1 h; rw [h] at k1; exact k1
  | dup k ih =>
    intro m; simp only [runProg]
    have k1 := dupData_keeps m
    split
    · rename_i m1 h; rw [h] at k1; exact k1.trans (ih m1)
    · rename_i e m1 h; rw [h] at k1; exact k1
    · rename_i e m1 h; rw [h] at k1; exact k1
  | swap k ih =>
    intro m; simp only [runProg]
    have k1 := swapData_keeps m
    split
    · rename_i m1 h; rw [h] at k1; exact k1.trans (ih m1)
    · rename_i e m1 h; rw [h] at k1; exact k1
    · rename_i e m1 h; rw [h] at k1; exact k1
  | rot k ih =>
    intro m; simp only [runProg]
    have k1 := rotData_keeps m
    split
    · rename_i m1 h; rw [h] at k1; exact k1.trans (ih m1)
    · rename_i e m1 h; rw [h] at k1; exact k1
    · rename_i e m1 h; rw [h] at k1; exact k1
  | over k ih =>
    intro m; simp only [runProg]
    have k1 := overData_keeps m
    split
    · rename_i m1 h; rw [h] at k1; exact k1.trans (ih m1)
    · rename_i e m1 h; rw [h] at k1; exact k1
    · rename_i e m1 h; rw [h] at k1; exact k1
  | depth k ih => intro m; simp only [runProg]; exact ih _ m
  | rawLen k ih => intro m; simp only [runProg]; exact ih _ m
  | rawFrom ptr k ih => intro m; simp only [runProg]; exact ih _ m
  | getVar idx k ih =>
    intro m; simp only [runProg]
    split
    · exact ih _ m
    · exact ⟨rfl, rfl⟩
    · exact ⟨rfl, rfl⟩
  | setVar idx c k ih =>
    intro m; simp only [runProg]
    have k1 := swapCellRef_keeps m idx c
    split
    · rename_i m1 h; rw [h] at k1; exact k1.trans (ih m1)
    · rename_i e m1 h; rw [h] at k1; exact k1
    · rename_i e m1 h; rw [h] at k1; exact k1
  | print s k ih => intro m; simp only [runProg]; exact (show Keeps m { m with out := m.out ++ s } from ⟨rfl, rfl⟩).trans (ih _)
  | pushSpecial p k ih => intro m; simp only [runProg]; exact (pushSpecial_keeps m p).trans (ih _)
  | popSpecial k ih =>
    intro m; simp only [runProg]
    exact (popSpecial_keeps m).trans (ih _ _)
  | loopAt n k ih => intro m; simp only [runProg]; exact ih _ m
  | setLoopItems c k ih =>
    intro m; simp only [runProg]
    have k1 := setLoopItems_keeps m c
    split
    · rename_i m1 h; rw [h] at k1; exact k1.trans (ih m1)
    · rename_i e m1 h; rw [h] at k1; exact k1
    · rename_i e m1 h; rw [h] at k1; exact k1
  | stop k ih => intro m; simp only [runProg]; exact (show Keeps m { m with aboutToStop := true } from ⟨rfl, rfl⟩).trans (ih _)

/-! ### one opcode, one step, a run -/

theorem pushData_keeps' {m m1 : Mach} {c : Cell} {o : Outcome Unit} (h : m.pushData c = (o, m1)) : Keeps m m1 := by
  have := pushData_keeps m c; rw [h] at this; exact this
theorem popData_keeps' {m m1 : Mach}  {o : Outcome Cell} (h : m.popData  = (o, m1)) : Keeps m m1 := by
  have := popData_keeps m ; rw [h] at this; exact this
theorem topData_keeps' {m m1 : Mach}  {o : Outcome Cell} (h : m.topData  = (o, m1)) : Keeps m m1 := by
  have := topData_keeps m ; rw [h] at this; exact this
theorem dupData_keeps' {m m1 : Mach}  {o : Outcome Unit} (h : m.dupData  = (o, m1)) : Keeps m m1 := by
  have := dupData_keeps m ; rw [h] at this; exact this
theorem swapData_keeps' {m m1 : Mach}  {o : Outcome Unit} (h : m.swapData  = (o, m1)) : Keeps m m1 := by
  have := swapData_keeps m ; rw [h] at this; exact this
theorem rotData_keeps' {m m1 : Mach}  {o : Outcome Unit} (h : m.rotData  = (o, m1)) : Keeps m m1 := by
  have := rotData_keeps m ; rw [h] at this; exact this
theorem overData_keeps' {m m1 : Mach}  {o : Outcome Unit} (h : m.overData  = (o, m1)) : Keeps m m1 := by
  have := overData_keeps m ; rw [h] at this; exact this
theorem popReturn_keeps' {m m1 : Mach}  {o : Outcome Frame} (h : m.popReturn  = (o, m1)) : Keeps m m1 := by
  have := popReturn_keeps m ; rw [h] at this; exact this
theorem popLoop_keeps' {m m1 : Mach}  {o : Outcome Loop} (h : m.popLoop  = (o, m1)) : Keeps m m1 := by
  have := popLoop_keeps m ; rw [h] at this; exact this
theorem loopNext_keeps' {m m1 : Mach}  {o : Outcome Bool} (h : m.loopNext  = (o, m1)) : Keeps m m1 := by
  have := loopNext_keeps m ; rw [h] at this; exact this
theorem swapCellRef_keeps' {m m1 : Mach} {i : Nat} {v : Cell} {o : Outcome Unit} (h : m.swapCellRef i v = (o, m1)) : Keeps m m1 := by
  have := swapCellRef_keeps m i v; rw [h] at this; exact this
theorem doInit_keeps' {m m1 : Mach}  {o : Outcome Loop} (h : m.doInit  = (o, m1)) : Keeps m m1 := by
  have := doInit_keeps m ; rw [h] at this; exact this
theorem setLoopItems_keeps' {m m1 : Mach} {c : Cell} {o : Outcome Unit} (h : m.setLoopItems c = (o, m1)) : Keeps m m1 := by
  have := setLoopItems_keeps m c; rw [h] at this; exact this
theorem runProg_keeps' {p : Prog} {m m1 : Mach} {o : Outcome Unit} (h : runProg p m = (o, m1)) : Keeps m m1 := by
  have := runProg_keeps p m; rw [h] at this; exact this

/-- one step of a `Keeps` proof -/
macro "kstep" : tactic => `(tactic| first
  | (refine Keeps.trans (pushData_keeps' (by with_reducible assumption)) ?_)
  | (refine Keeps.trans (popData_keeps' (by with_reducible assumption)) ?_)
  | (refine Keeps.trans (topData_keeps' (by with_reducible assumption)) ?_)
  | (refine Keeps.trans (dupData_keeps' (by with_reducible assumption)) ?_)
  | (refine Keeps.trans (swapData_keeps' (by with_reducible assumption)) ?_)
  | (refine Keeps.trans (rotData_keeps' (by with_reducible assumption)) ?_)
  | (refine Keeps.trans (overData_keeps' (by with_reducible assumption)) ?_)
  | (refine Keeps.trans (popReturn_keeps' (by with_reducible assumption)) ?_)
  | (refine Keeps.trans (popLoop_keeps' (by with_reducible assumption)) ?_)
  | (refine Keeps.trans (loopNext_keeps' (by with_reducible assumption)) ?_)
  | (refine Keeps.trans (swapCellRef_keeps' (by with_reducible assumption)) ?_)
  | (refine Keeps.trans (doInit_keeps' (by with_reducible assumption)) ?_)
  | (refine Keeps.trans (setLoopItems_keeps' (by with_reducible assumption)) ?_)
  | (refine Keeps.trans (runProg_keeps' (by with_reducible assumption)) ?_)
  | exact Keeps.refl _
  | exact setIp_keeps _ _
  | exact nextIp_keeps _
  | (refine Keeps.trans ?_ (nextIp_keeps _))
  | (refine Keeps.trans ?_ (setIp_keeps _ _))
  | exact pushLoop_keeps _ _
  | exact pushReturn_keeps _ _
  | exact logStep_keeps _ _)

theorem exec_keeps (np : String → Option Prog) (m : Mach) (ip : Nat) (op : Op) : Keeps m (exec np m ip op).2 := by
  cases op with
  | nop => exact nextIp_keeps _
  | jump rel => exact setIp_keeps _ _
  | call a => simp only [exec]; repeat kstep
  | resolve n => exact Keeps.refl _
  | native name =>
    simp only [exec]
    split
    · (repeat' split) <;> (repeat kstep)
    · exact Keeps.refl _
  | jumpIf rel => simp only [exec]; (repeat' split) <;> (repeat kstep)
  | jumpIfNot rel => simp only [exec]; (repeat' split) <;> (repeat kstep)
  | caseOf rel => simp only [exec]; (repeat' split) <;> (repeat kstep)
  | ret => simp only [exec]; (repeat' split) <;> (repeat kstep)
  | loadStr x => simp only [exec]; (repeat' split) <;> (repeat kstep)
  | loadF64 x => simp only [exec]; (repeat' split) <;> (repeat kstep)
  | loadI64 x => simp only [exec]; (repeat' split) <;> (repeat kstep)
  | loadNil => simp only [exec]; (repeat' split) <;> (repeat kstep)
  | loadCell x => simp only [exec]; (repeat' split) <;> (repeat kstep)
  | load x => simp only [exec]; (repeat' split) <;> (repeat kstep)
  | store x => simp only [exec]; (repeat' split) <;> (repeat kstep)
  | initLocal x => simp only [exec]; (repeat' split) <;> (repeat kstep) <;> exact ⟨rfl, rfl⟩
  | loadLocal x => simp only [exec]; (repeat' split) <;> (repeat kstep)
  | doOp rel => simp only [exec]; (repeat' split) <;> (repeat kstep)
  | breakOp rel => simp only [exec]; (repeat' split) <;> (repeat kstep)
  | loopOp rel => simp only [exec]; (repeat' split) <;> (repeat kstep)

theorem meterIncrease_mle (m : Mach) : MLe m m.meterIncrease.2 := by
  unfold meterIncrease
  split
  · rename_i lim hl
    split
    · exact MLe.refl _
    · rename_i hlt
      exact ⟨rfl, Nat.le_succ _, fun N hN _ => by rw [hl] at hN; cases hN; show m.meter + 1 ≤ lim; omega⟩
  · rename_i hl
    exact ⟨rfl, Nat.le_succ _, fun N hN _ => by rw [hl] at hN; cases hN⟩

theorem patchCode_keeps (m : Mach) (ip : Nat) (op : Op) : Keeps m (m.patchCode ip op) := by
  unfold patchCode; split <;> exact ⟨rfl, rfl⟩

/-- one `fetch_and_run`, whatever machine, whatever outcome -/
theorem step_mle (np : String → Option Prog) (m : Mach) : MLe m (step np m).2 := by
  unfold step
  simp only
  have k1 := meterIncrease_mle m
  split
  · rename_i e m1 h; rw [h] at k1; exact k1
  · rename_i e m1 h; rw [h] at k1; exact k1
  · rename_i m1 h
    rw [h] at k1
    split
    · exact k1
    · split
      · exact k1
      · exact k1
      · rename_i op hr
        have k2 := (patchCode_keeps m1 m.ctx.ip op).mle
        have k3 := meterIncrease_mle (m1.patchCode m.ctx.ip op)
        split
        · rename_i e m2 h2; rw [h2] at k3; exact k1.trans (k2.trans k3)
        · rename_i e m2 h2; rw [h2] at k3; exact k1.trans (k2.trans k3)
        · rename_i m2 h2
          rw [h2] at k3
          exact k1.trans (k2.trans (k3.trans (exec_keeps np m2 _ op).mle))
    · exact k1.trans (exec_keeps np m1 _ _).mle

/-- `State::run`, any fuel -/
theorem run_mle (np : String → Option Prog) : ∀ (fuel : Nat) (m : Mach) (r : R Unit),
    run np fuel m = some r → MLe m r.2 := by
  intro fuel
  induction fuel with
  | zero =>
    intro m r h; simp only [run] at h
    split at h
    · cases h
    · cases h; exact MLe.refl _
  | succ f ih =>
    intro m r h
    simp only [run] at h
    split at h
    · have ks := step_mle np m
      split at h
      · rename_i m1 hs; rw [hs] at ks; exact ks.trans (ih m1 r h)
      · cases h; exact ks
    · cases h; exact MLe.refl _

end Xeh.Mach
