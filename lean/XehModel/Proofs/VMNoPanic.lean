/-
C08, VM layer: a VM step cannot panic by itself.  Every `Outcome.panic` the step function can answer is either
the out-of-range instruction fetch (excluded by the `ip < code.len()` test that `next` and `run` make first) or
comes out of the program of a native word.
-/
import XehModel.Model.VM

namespace Xeh.Mach
open Xeh

/-- not a panic -/
def NP {α : Type} (o : Outcome α) : Prop := ∀ s, o ≠ .panic s

theorem NP_ok {α : Type} (a : α) : NP (Outcome.ok a) := fun _ h => by cases h
theorem NP_err {α : Type} (e : Xerr) : NP (Outcome.err e : Outcome α) := fun _ h => by cases h

/-! ### the primitives -/

theorem pushData_np (m : Mach) (c : Cell) : NP (m.pushData c).1 := by
  unfold pushData; intro s; split <;> (try split) <;> simp

theorem popData_np (m : Mach) : NP m.popData.1 := by
  unfold popData; intro s; split <;> (try split) <;> simp

theorem topData_np (m : Mach) : NP m.topData.1 := by
  unfold topData; intro s; split <;> (try split) <;> simp

theorem dupData_np (m : Mach) : NP m.dupData.1 := by
  unfold dupData; intro s
  split
  · exact pushData_np _ _ s
  · simp
  · rename_i p m' h
    exact absurd (congrArg Prod.fst h) (topData_np m p)

theorem swapData_np (m : Mach) : NP m.swapData.1 := by
  unfold swapData; intro s; split <;> (try split) <;> simp

theorem rotData_np (m : Mach) : NP m.rotData.1 := by
  unfold rotData; intro s; split <;> (try split) <;> simp

theorem overData_np (m : Mach) : NP m.overData.1 := by
  unfold overData; intro s
  split
  · split
    · exact pushData_np _ _ s
    · simp
  · simp

theorem popReturn_np (m : Mach) : NP m.popReturn.1 := by
  unfold popReturn; intro s; split <;> (try split) <;> simp

theorem topFrame_np (m : Mach) : NP m.topFrame := by
  unfold topFrame; intro s; split <;> (try split) <;> simp

theorem popLoop_np (m : Mach) : NP m.popLoop.1 := by
  unfold popLoop; intro s; split <;> (try split) <;> simp

theorem loopNext_np (m : Mach) : NP m.loopNext.1 := by
  unfold loopNext; intro s; split <;> (try split) <;> simp

theorem cellRef_np (m : Mach) (i : Nat) : NP (m.cellRef i) := by
  unfold cellRef; intro s; split <;> (try split) <;> simp

theorem swapCellRef_np (m : Mach) (i : Nat) (v : Cell) : NP (m.swapCellRef i v).1 := by
  unfold swapCellRef; intro s; split <;> (try split) <;> simp

theorem allocHeap_np (m : Mach) (v : Cell) : NP (m.allocHeap v).1 := by
  unfold allocHeap; intro s; split <;> (try split) <;> (try split) <;> simp

theorem meterIncrease_np (m : Mach) : NP m.meterIncrease.1 := by
  unfold meterIncrease; intro s; split <;> (try split) <;> simp

theorem setLoopItems_np (m : Mach) (c : Cell) : NP (m.setLoopItems c).1 := by
  unfold setLoopItems; intro s; split <;> (try split) <;> simp

theorem toBool_np (c : Cell) : NP c.toBool := by
  unfold Cell.toBool; intro s; split <;> simp

theorem condTrue_np (c : Cell) : NP c.condTrue := by
  unfold Cell.condTrue; intro s; split
  · simp
  · exact toBool_np c s

theorem toIsize_np (c : Cell) : NP c.toIsize := by
  unfold Cell.toIsize; intro s; split <;> (try split) <;> simp

theorem doInit_np (m : Mach) : NP m.doInit.1 := by
  unfold doInit; intro s
  split
  · split
    · split
      · split
        · simp
        · simp
        · rename_i l _ _ _ p h; exact absurd h (toIsize_np _ p)
      · simp
      · rename_i st _ _ _ p h; exact absurd h (toIsize_np _ p)
    · simp
    · rename_i m1 _ p m2 h; exact absurd (congrArg Prod.fst h) (popData_np _ p)
  · simp
  · rename_i p m2 h; exact absurd (congrArg Prod.fst h) (popData_np _ p)

/-! ### programs of native words -/

/-- a program whose reachable `panic` nodes all carry a site satisfying `P` -/
inductive PanicOnly (P : String → Prop) : Prog → Prop
  | done : PanicOnly P .done
  | fail (e : Xerr) : PanicOnly P (.fail e)
  | panic (site : String) : P site → PanicOnly P (.panic site)
  | pop (k : Cell → Prog) : (∀ c, PanicOnly P (k c)) → PanicOnly P (.pop k)
  | push (c : Cell) (k : Prog) : PanicOnly P k → PanicOnly P (.push c k)
  | top (k : Cell → Prog) : (∀ c, PanicOnly P (k c)) → PanicOnly P (.top k)
  | dup (k : Prog) : PanicOnly P k → PanicOnly P (.dup k)
  | swap (k : Prog) : PanicOnly P k → PanicOnly P (.swap k)
  | rot (k : Prog) : PanicOnly P k → PanicOnly P (.rot k)
  | over (k : Prog) : PanicOnly P k → PanicOnly P (.over k)
  | depth (k : Nat → Prog) : (∀ n, PanicOnly P (k n)) → PanicOnly P (.depth k)
  | rawLen (k : Nat → Prog) : (∀ n, PanicOnly P (k n)) → PanicOnly P (.rawLen k)
  | rawFrom (ptr : Nat) (k : List Cell → Prog) : (∀ l, PanicOnly P (k l)) → PanicOnly P (.rawFrom ptr k)
  | getVar (idx : Nat) (k : Cell → Prog) : (∀ c, PanicOnly P (k c)) → PanicOnly P (.getVar idx k)
  | setVar (idx : Nat) (c : Cell) (k : Prog) : PanicOnly P k → PanicOnly P (.setVar idx c k)
  | print (s : List Char) (k : Prog) : PanicOnly P k → PanicOnly P (.print s k)
  | pushSpecial (ptr : Nat) (k : Prog) : PanicOnly P k → PanicOnly P (.pushSpecial ptr k)
  | popSpecial (k : Option Nat → Prog) : (∀ r, PanicOnly P (k r)) → PanicOnly P (.popSpecial k)
  | loopAt (n : Nat) (k : Option Loop → Prog) : (∀ r, PanicOnly P (k r)) → PanicOnly P (.loopAt n k)
  | setLoopItems (c : Cell) (k : Prog) : PanicOnly P k → PanicOnly P (.setLoopItems c k)
  | stop (k : Prog) : PanicOnly P k → PanicOnly P (.stop k)


/-- a program with no reachable `panic` node at all -/
abbrev PanicFree : Prog → Prop := PanicOnly fun _ => False

/-- whatever machine it runs on, a program panics only at one of its own `panic` nodes -/
theorem runProg_only (P : String → Prop) (p : Prog) (hp : PanicOnly P p) :
    ∀ (m : Mach) (s : String), (runProg p m).1 = .panic s → P s := by
  induction hp with
  | done => intro m s h; simp [runProg] at h
  | fail e => intro m s h; simp [runProg] at h
  | panic site hs => intro m s h; simp only [runProg, Outcome.panic.injEq] at h; exact h ▸ hs
  | pop k _ ih =>
    intro m s h; simp only [runProg] at h
    split at h
    · exact ih _ _ s h
    · simp at h
    · rename_i p m' heq; exact absurd (congrArg Prod.fst heq) (popData_np m p)
  | push c k _ ih =>
    intro m s h; simp only [runProg] at h
    split at h
    · exact ih _ s h
    · simp at h
    · rename_i p m' heq; exact absurd (congrArg Prod.fst heq) (pushData_np m c p)
  | top k _ ih =>
    intro m s h; simp only [runProg] at h
    split at h
    · exact ih _ _ s h
    · simp at h
    · rename_i p m' heq; exact absurd (congrArg Prod.fst heq) (topData_np m p)
  | dup k _ ih =>
    intro m s h; simp only [runProg] at h
    split at h
    · exact ih _ s h
    · simp at h
    · rename_i p m' heq; exact absurd (congrArg Prod.fst heq) (dupData_np m p)
  | swap k _ ih =>
    intro m s h; simp only [runProg] at h
    split at h
    · exact ih _ s h
    · simp at h
    · rename_i p m' heq; exact absurd (congrArg Prod.fst heq) (swapData_np m p)
  | rot k _ ih =>
    intro m s h; simp only [runProg] at h
    split at h
    · exact ih _ s h
    · simp at h
    · rename_i p m' heq; exact absurd (congrArg Prod.fst heq) (rotData_np m p)
  | over k _ ih =>
    intro m s h; simp only [runProg] at h
    split at h
    · exact ih _ s h
    · simp at h
    · rename_i p m' heq; exact absurd (congrArg Prod.fst heq) (overData_np m p)
  | depth k _ ih => intro m s h; simp only [runProg] at h; exact ih _ _ s h
  | rawLen k _ ih => intro m s h; simp only [runProg] at h; exact ih _ _ s h
  | rawFrom ptr k _ ih => intro m s h; simp only [runProg] at h; exact ih _ _ s h
  | getVar idx k _ ih =>
    intro m s h; simp only [runProg] at h
    split at h
    · exact ih _ _ s h
    · simp at h
    · rename_i p heq; exact absurd heq (cellRef_np m idx p)
  | setVar idx c k _ ih =>
    intro m s h; simp only [runProg] at h
    split at h
    · exact ih _ s h
    · simp at h
    · rename_i p m' heq; exact absurd (congrArg Prod.fst heq) (swapCellRef_np m idx c p)
  | print t k _ ih => intro m s h; simp only [runProg] at h; exact ih _ s h
  | pushSpecial ptr k _ ih => intro m s h; simp only [runProg] at h; exact ih _ s h
  | popSpecial k _ ih => intro m s h; simp only [runProg] at h; exact ih _ _ s h
  | loopAt n k _ ih => intro m s h; simp only [runProg] at h; exact ih _ _ s h
  | setLoopItems c k _ ih =>
    intro m s h; simp only [runProg] at h
    split at h
    · exact ih _ s h
    · simp at h
    · rename_i p m' heq; exact absurd (congrArg Prod.fst heq) (setLoopItems_np m c p)
  | stop k _ ih => intro m s h; simp only [runProg] at h; exact ih _ s h

theorem runProg_np (p : Prog) (hp : PanicFree p) : ∀ m : Mach, NP (runProg p m).1 :=
  fun m s h => runProg_only _ p hp m s h

/-! ### one opcode -/

@[simp] theorem pushData_ne (m m' : Mach) (c : Cell) (s : String) : (m.pushData c = (Outcome.panic s, m')) = False :=
  eq_false fun h => pushData_np m c s (congrArg Prod.fst h)
@[simp] theorem popData_ne (m m' : Mach)  (s : String) : (m.popData  = (Outcome.panic s, m')) = False :=
  eq_false fun h => popData_np m  s (congrArg Prod.fst h)
@[simp] theorem topData_ne (m m' : Mach)  (s : String) : (m.topData  = (Outcome.panic s, m')) = False :=
  eq_false fun h => topData_np m  s (congrArg Prod.fst h)
@[simp] theorem dupData_ne (m m' : Mach)  (s : String) : (m.dupData  = (Outcome.panic s, m')) = False :=
  eq_false fun h => dupData_np m  s (congrArg Prod.fst h)
@[simp] theorem swapData_ne (m m' : Mach)  (s : String) : (m.swapData  = (Outcome.panic s, m')) = False :=
  eq_false fun h => swapData_np m  s (congrArg Prod.fst h)
@[simp] theorem rotData_ne (m m' : Mach)  (s : String) : (m.rotData  = (Outcome.panic s, m')) = False :=
  eq_false fun h => rotData_np m  s (congrArg Prod.fst h)
@[simp] theorem overData_ne (m m' : Mach)  (s : String) : (m.overData  = (Outcome.panic s, m')) = False :=
  eq_false fun h => overData_np m  s (congrArg Prod.fst h)
@[simp] theorem popReturn_ne (m m' : Mach)  (s : String) : (m.popReturn  = (Outcome.panic s, m')) = False :=
  eq_false fun h => popReturn_np m  s (congrArg Prod.fst h)
@[simp] theorem popLoop_ne (m m' : Mach)  (s : String) : (m.popLoop  = (Outcome.panic s, m')) = False :=
  eq_false fun h => popLoop_np m  s (congrArg Prod.fst h)
@[simp] theorem loopNext_ne (m m' : Mach)  (s : String) : (m.loopNext  = (Outcome.panic s, m')) = False :=
  eq_false fun h => loopNext_np m  s (congrArg Prod.fst h)
@[simp] theorem swapCellRef_ne (m m' : Mach) (i : Nat) (v : Cell) (s : String) : (m.swapCellRef i v = (Outcome.panic s, m')) = False :=
  eq_false fun h => swapCellRef_np m i v s (congrArg Prod.fst h)
@[simp] theorem meterIncrease_ne (m m' : Mach)  (s : String) : (m.meterIncrease  = (Outcome.panic s, m')) = False :=
  eq_false fun h => meterIncrease_np m  s (congrArg Prod.fst h)
@[simp] theorem doInit_ne (m m' : Mach)  (s : String) : (m.doInit  = (Outcome.panic s, m')) = False :=
  eq_false fun h => doInit_np m  s (congrArg Prod.fst h)
@[simp] theorem setLoopItems_ne (m m' : Mach) (c : Cell) (s : String) : (m.setLoopItems c = (Outcome.panic s, m')) = False :=
  eq_false fun h => setLoopItems_np m c s (congrArg Prod.fst h)
@[simp] theorem cellRef_ne (m : Mach) (i : Nat) (s : String) : (m.cellRef i = Outcome.panic s) = False := eq_false (cellRef_np m i s)
@[simp] theorem topFrame_ne (m : Mach) (s : String) : (m.topFrame = Outcome.panic s) = False := eq_false (topFrame_np m s)
@[simp] theorem condTrue_ne (c : Cell) (s : String) : (c.condTrue = Outcome.panic s) = False := eq_false (condTrue_np c s)

/-- the only panics of `exec`: a native word that is not in the table (a gap of the model, reported as such),
    a panic inside a native word's program, or being handed a `Resolve` (which `step` never does) -/
theorem exec_panic (np : String → Option Prog) (m : Mach) (ip : Nat) (op : Op) (s : String) (m' : Mach)
    (h : exec np m ip op = (.panic s, m')) :
    (∃ name, op = .native name ∧ ((np name = none ∧ s = s!"model: native word {name} is outside the model") ∨
      ∃ p, np name = some p ∧ (runProg p m).1 = .panic s)) ∨
    (∃ n, op = .resolve n) := by
  cases op with
  | native name =>
    left; refine ⟨name, rfl, ?_⟩
    simp only [exec] at h
    cases hn : np name with
    | none =>
      left; refine ⟨rfl, ?_⟩
      rw [hn] at h
      simp only [Prod.mk.injEq, Outcome.panic.injEq] at h
      exact h.1.symm
    | some p =>
      right; refine ⟨p, rfl, ?_⟩
      rw [hn] at h
      simp only at h
      split at h
      · simp at h
      · simp at h
      · rename_i s' m'' heq
        simp only [Prod.mk.injEq, Outcome.panic.injEq] at h
        rw [heq]; simp [h.1]
  | resolve n => right; exact ⟨n, rfl⟩
  | nop => simp [exec] at h
  | jump rel => simp [exec] at h
  | call a => simp [exec] at h
  | jumpIf rel => exfalso; simp only [exec] at h; (repeat' (split at h)) <;> simp_all
  | jumpIfNot rel => exfalso; simp only [exec] at h; (repeat' (split at h)) <;> simp_all
  | caseOf rel => exfalso; simp only [exec] at h; (repeat' (split at h)) <;> simp_all
  | ret => exfalso; simp only [exec] at h; (repeat' (split at h)) <;> simp_all
  | loadStr x => exfalso; simp only [exec] at h; (repeat' (split at h)) <;> simp_all
  | loadF64 x => exfalso; simp only [exec] at h; (repeat' (split at h)) <;> simp_all
  | loadI64 x => exfalso; simp only [exec] at h; (repeat' (split at h)) <;> simp_all
  | loadNil => exfalso; simp only [exec] at h; (repeat' (split at h)) <;> simp_all
  | loadCell x => exfalso; simp only [exec] at h; (repeat' (split at h)) <;> simp_all
  | load x => exfalso; simp only [exec] at h; (repeat' (split at h)) <;> simp_all
  | store x => exfalso; simp only [exec] at h; (repeat' (split at h)) <;> simp_all
  | initLocal x => exfalso; simp only [exec] at h; (repeat' (split at h)) <;> simp_all
  | loadLocal x => exfalso; simp only [exec] at h; (repeat' (split at h)) <;> simp_all
  | doOp rel => exfalso; simp only [exec] at h; (repeat' (split at h)) <;> simp_all
  | breakOp rel => exfalso; simp only [exec] at h; (repeat' (split at h)) <;> simp_all
  | loopOp rel => exfalso; simp only [exec] at h; (repeat' (split at h)) <;> simp_all

/-! ### a step, `next`, `run` -/

theorem resolveOp_not_resolve (m : Mach) (name n : String) : m.resolveOp name ≠ .ok (.resolve n) := by
  unfold resolveOp
  split
  · simp
  · rename_i c _
    unfold loadValueOp
    split <;> (try split) <;> simp
  · simp
  · simp
  · simp

theorem resolveOp_np (m : Mach) (name : String) : NP (m.resolveOp name) := by
  unfold resolveOp; intro s; split <;> simp

/-- a native word the no-panic statement does not cover: outside the table, or with a program that can panic -/
def Uncovered (np : String → Option Prog) (s : String) : Prop :=
  ∃ name, (np name = none ∧ s = s!"model: native word {name} is outside the model") ∨
    ∃ p m0, np name = some p ∧ (runProg p m0).1 = .panic s

/-- **a running machine's step panics only inside a native word** (or at a word the table lacks, which the
    driver reports as a gap of the model, never as an answer) -/
theorem step_panic (np : String → Option Prog) (m : Mach) (s : String) (m' : Mach)
    (hrun : m.isRunning = true) (h : step np m = (.panic s, m')) : Uncovered np s := by
  have fromExec : ∀ (m1 : Mach) (ip : Nat) (op : Op), (∀ n, op ≠ .resolve n) →
      exec np m1 ip op = (.panic s, m') → Uncovered np s := by
    intro m1 ip op hop he
    rcases exec_panic np m1 ip op s m' he with ⟨name, _, hn⟩ | ⟨n, hn⟩
    · rcases hn with hn | ⟨p, hp, hr⟩
      · exact ⟨name, Or.inl hn⟩
      · exact ⟨name, Or.inr ⟨p, m1, hp, hr⟩⟩
    · exact absurd hn (hop n)
  unfold step at h
  simp only at h
  split at h
  · simp at h
  · rename_i s' m1 heq; simp at heq
  · rename_i m1 heq
    have hcode : m1.code = m.code ∧ m1.ctx = m.ctx := by
      unfold meterIncrease at heq
      split at heq
      · split at heq
        · simp at heq
        · simp only [Prod.mk.injEq] at heq; rw [← heq.2]; exact ⟨rfl, rfl⟩
      · simp only [Prod.mk.injEq] at heq; rw [← heq.2]; exact ⟨rfl, rfl⟩
    have hlt : m.ctx.ip < m1.code.length := by
      rw [hcode.1]; simpa [isRunning] using hrun
    split at h
    · rename_i hnone
      rw [List.getElem?_eq_none_iff] at hnone; omega
    · rename_i name hsome
      split at h
      · simp at h
      · rename_i s' hr; exact absurd hr (resolveOp_np _ _ s')
      · rename_i op hr
        split at h
        · simp at h
        · rename_i s' m2 heq2; simp at heq2
        · exact fromExec _ _ op (fun n hn => resolveOp_not_resolve m1 name n (hn ▸ hr)) h
    · rename_i op hnr hsome
      exact fromExec _ _ op (fun n hn => hnr n hn) h

theorem next_panic (np : String → Option Prog) (m : Mach) (s : String) (m' : Mach)
    (h : next np m = (.panic s, m')) : Uncovered np s := by
  unfold next at h
  split at h
  · rename_i hr; exact step_panic np m s m' hr h
  · simp at h

/-- `State::run`: however long it runs, from whatever machine -/
theorem run_panic (np : String → Option Prog) : ∀ (fuel : Nat) (m : Mach) (s : String) (m' : Mach),
    run np fuel m = some (.panic s, m') → Uncovered np s := by
  intro fuel
  induction fuel with
  | zero => intro m s m' h; simp only [run] at h; split at h <;> simp at h
  | succ f ih =>
    intro m s m' h
    simp only [run] at h
    split at h
    · rename_i hr
      split at h
      · exact ih _ s m' h
      · rename_i r hne
        simp only [Option.some.injEq] at h
        exact step_panic np m s m' hr h
    · simp at h

/-- with a table of panic-free programs that has every word the code calls, nothing panics -/
theorem run_np (np : String → Option Prog) (hall : ∀ name, ∃ p, np name = some p ∧ PanicFree p)
    (fuel : Nat) (m : Mach) (s : String) (m' : Mach) : run np fuel m ≠ some (.panic s, m') := by
  intro h
  obtain ⟨name, ⟨hn, _⟩ | ⟨p, m0, hp, hr⟩⟩ := run_panic np fuel m s m' h
  · obtain ⟨p, hp, _⟩ := hall name; rw [hp] at hn; cases hn
  · obtain ⟨p', hp', hf⟩ := hall name
    rw [hp] at hp'; cases hp'
    exact runProg_np p hf m0 s hr

/-- with a table whose programs panic only at sites satisfying `P`: a run panics only there, or at a word the
    table lacks (the model's own gap marker) -/
theorem run_panic_only (np : String → Option Prog) (P : String → Prop)
    (hall : ∀ name p, np name = some p → PanicOnly P p)
    (fuel : Nat) (m : Mach) (s : String) (m' : Mach) (h : run np fuel m = some (.panic s, m')) :
    P s ∨ ∃ name, np name = none ∧ s = s!"model: native word {name} is outside the model" := by
  obtain ⟨name, ⟨hn, hs⟩ | ⟨p, m0, hp, hr⟩⟩ := run_panic np fuel m s m' h
  · exact Or.inr ⟨name, hn, hs⟩
  · exact Or.inl (runProg_only P p (hall name p hp) m0 s hr)

end Xeh.Mach
