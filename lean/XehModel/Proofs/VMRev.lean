/-
Helper lemmas for C02 / C14: every primitive — whether it succeeds or fails — logs entries whose
undoing (most recent first) restores the core it started from, leaves code / meter / limits /
dictionary / heap size alone and respects the stack limit. This composes over `Prog` (every native
word) and over every opcode.
-/
import XehModel.Model.VM

namespace Xeh.Mach

/-- marks never exceed the stacks they point into (holds initially, preserved by every operation) -/
structure WF (m : Mach) : Prop where
  ds : m.ctx.dsLen ≤ m.ds.length
  rs : m.ctx.rsLen ≤ m.rs.length
  ls : m.ctx.lsLen ≤ m.loops.length
  ss : m.ctx.ssPtr ≤ m.special.length

def isSetIp : RStep → Bool
  | .setIp _ => true
  | _ => false

/-- undo a list of entries, most recent first -/
def undoList : List RStep → Core → Outcome Core
  | [], c => .ok c
  | s :: rest, c =>
    match undoC c s with
    | (.ok (), c') => undoList rest c'
    | (.err e, _) => .err e
    | (.panic p, _) => .panic p

theorem undoList_append (a b : List RStep) (c : Core) (c' : Core) (h : undoList a c = .ok c') :
    undoList (a ++ b) c = undoList b c' := by
  induction a generalizing c with
  | nil => simp [undoList] at h; subst h; rfl
  | cons s rest ih =>
    simp only [List.cons_append, undoList] at h ⊢
    split at h <;> rename_i heq
    · exact ih _ h
    · cases h
    · cases h

/-- what no primitive, native word or opcode body touches -/
structure Fr (m m' : Mach) : Prop where
  code : m'.code = m.code
  meter : m'.meter = m.meter
  insnLimit : m'.insnLimit = m.insnLimit
  stackLimit : m'.stackLimit = m.stackLimit
  heapLimit : m'.heapLimit = m.heapLimit
  dict : m'.dict = m.dict
  heapLen : m'.heap.length = m.heap.length
  /-- the data stack never grows past the stack limit (or past where it already was) -/
  dsBound : ∀ S, m.stackLimit = some S → m'.ds.length ≤ max S m.ds.length

theorem Fr.refl (m : Mach) : Fr m m := ⟨rfl, rfl, rfl, rfl, rfl, rfl, rfl, fun S _ => by omega⟩

theorem Fr.trans {a b c : Mach} (h1 : Fr a b) (h2 : Fr b c) : Fr a c where
  code := by rw [h2.code, h1.code]
  meter := by rw [h2.meter, h1.meter]
  insnLimit := by rw [h2.insnLimit, h1.insnLimit]
  stackLimit := by rw [h2.stackLimit, h1.stackLimit]
  heapLimit := by rw [h2.heapLimit, h1.heapLimit]
  dict := by rw [h2.dict, h1.dict]
  heapLen := by rw [h2.heapLen, h1.heapLen]
  dsBound := fun S hS => by
    have a1 := h1.dsBound S hS
    have a2 := h2.dsBound S (by rw [h1.stackLimit]; exact hS)
    omega

/-- `m'` was reached from `m` by operations that logged `seg` (most recent first) and whose effect
    on the core is undone by `seg` -/
structure Rev (m m' : Mach) (seg : List RStep) : Prop where
  log : ∀ ℓ, m.log = some ℓ → m'.log = some (seg ++ ℓ)
  nolog : m.log = none → m'.log = none
  noSetIp : ∀ s ∈ seg, isSetIp s = false
  undo : undoList seg m'.core = .ok m.core
  ctx : m'.ctx = m.ctx
  wf : WF m → WF m'
  fr : Fr m m'
  /-- inside a meta block no primitive writes a variable -/
  heapMeta : m.ctx.mode = .metaEval → m'.heap = m.heap

theorem Rev.refl (m : Mach) : Rev m m [] :=
  ⟨fun _ h => by simpa using h, id, by simp, rfl, rfl, id, Fr.refl m, fun _ => rfl⟩

theorem Rev.trans {m m1 m2 : Mach} {s1 s2 : List RStep} (h1 : Rev m m1 s1) (h2 : Rev m1 m2 s2) :
    Rev m m2 (s2 ++ s1) where
  log := fun ℓ h => by rw [h2.log _ (h1.log ℓ h), List.append_assoc]
  nolog := fun h => h2.nolog (h1.nolog h)
  noSetIp := fun s hs => by
    rcases List.mem_append.mp hs with h | h
    · exact h2.noSetIp s h
    · exact h1.noSetIp s h
  undo := by rw [undoList_append _ _ _ _ h2.undo]; exact h1.undo
  ctx := by rw [h2.ctx, h1.ctx]
  wf := fun w => h2.wf (h1.wf w)
  fr := h1.fr.trans h2.fr
  heapMeta := fun h => by rw [h2.heapMeta (by rw [h1.ctx]; exact h), h1.heapMeta h]

/-- a change of `out` / `aboutToStop` only -/
theorem Rev.of_ghost (m : Mach) (o : List Char) (b : Bool) : Rev m { m with out := o, aboutToStop := b } [] :=
  ⟨fun _ h => by simpa using h, id, by simp, rfl, rfl, fun w => ⟨w.ds, w.rs, w.ls, w.ss⟩,
   ⟨rfl, rfl, rfl, rfl, rfl, rfl, rfl, fun S _ => by simp; omega⟩, fun _ => rfl⟩

theorem ex_refl (m : Mach) : ∃ seg, Rev m m seg := ⟨[], Rev.refl m⟩

@[simp] theorem logStep_core (m : Mach) (s : RStep) : (m.logStep s).core = m.core := rfl
@[simp] theorem logStep_ds (m : Mach) (s : RStep) : (m.logStep s).ds = m.ds := rfl
@[simp] theorem logStep_ctx (m : Mach) (s : RStep) : (m.logStep s).ctx = m.ctx := rfl
@[simp] theorem logStep_rs (m : Mach) (s : RStep) : (m.logStep s).rs = m.rs := rfl
@[simp] theorem logStep_loops (m : Mach) (s : RStep) : (m.logStep s).loops = m.loops := rfl
@[simp] theorem logStep_special (m : Mach) (s : RStep) : (m.logStep s).special = m.special := rfl
@[simp] theorem logStep_heap (m : Mach) (s : RStep) : (m.logStep s).heap = m.heap := rfl
@[simp] theorem logStep_stackLimit (m : Mach) (s : RStep) : (m.logStep s).stackLimit = m.stackLimit := rfl

theorem logStep_log (m : Mach) (s : RStep) (ℓ : List RStep) (h : m.log = some ℓ) :
    (m.logStep s).log = some (s :: ℓ) := by simp [logStep, h]
theorem logStep_nolog (m : Mach) (s : RStep) (h : m.log = none) : (m.logStep s).log = none := by
  simp [logStep, h]

/-- builder for the common case: `m'` is `m.logStep s` with some core fields replaced -/
theorem Rev.mk1 (m m' : Mach) (s : RStep)
    (hlog : m'.log = (m.logStep s).log) (hs : isSetIp s = false)
    (hundo : undoC m'.core s = (.ok (), m.core)) (hctx : m'.ctx = m.ctx)
    (hwf : WF m → WF m') (hfr : Fr m m')
    (hheap : m.ctx.mode = .metaEval → m'.heap = m.heap := by intro _; rfl) : Rev m m' [s] where
  log := fun ℓ h => by rw [hlog, logStep_log m s ℓ h]; rfl
  nolog := fun h => by rw [hlog, logStep_nolog m s h]
  noSetIp := by simp [hs]
  undo := by simp [undoList, hundo]
  ctx := hctx
  wf := hwf
  fr := hfr
  heapMeta := hheap

/-! ### primitives (total form: whatever the outcome) -/

theorem pushData_rev (m : Mach) (c : Cell) (w : WF m) : ∃ seg, Rev m (m.pushData c).2 seg := by
  have main : Rev m { (m.logStep .popData) with ds := c :: m.ds } [.popData] ∨ True := Or.inr trivial
  have h1 : m.ctx.dsLen < m.ds.length + 1 := by have := w.ds; omega
  have ok : (S : Option Nat) → (∀ s, S = some s → m.ds.length < s) → m.stackLimit = S →
      Rev m { (m.logStep .popData) with ds := c :: m.ds } [.popData] := by
    intro S hS hlim
    refine Rev.mk1 m _ .popData rfl rfl ?_ rfl (fun w => ⟨by simp; have := w.ds; omega, w.rs, w.ls, w.ss⟩)
      ⟨rfl, rfl, rfl, rfl, rfl, rfl, rfl, fun S' hS' => ?_⟩
    · simp [undoC, core, h1]
    · rw [hlim] at hS'; have := hS S' hS'; simp; omega
  unfold pushData
  split
  · rename_i lim hlim
    split
    · exact ex_refl m
    · rename_i hlt; exact ⟨_, ok (some lim) (fun s hs => by cases hs; omega) hlim⟩
  · rename_i hlim; exact ⟨_, ok none (fun s hs => by cases hs) hlim⟩

theorem popData_rev (m : Mach) : ∃ seg, Rev m m.popData.2 seg := by
  unfold popData
  split
  · rename_i c rest hds
    split
    · rename_i hlt
      refine ⟨_, Rev.mk1 m _ (.pushData c) rfl rfl ?_ rfl (fun w => ⟨?_, w.rs, w.ls, w.ss⟩)
        ⟨rfl, rfl, rfl, rfl, rfl, rfl, rfl, fun S _ => ?_⟩⟩
      · simp [undoC, core, hds]
      · simp [hds] at hlt ⊢; omega
      · simp [hds]; omega
    · exact ex_refl m
  · exact ex_refl m

theorem topData_same (m : Mach) : m.topData.2 = m := by
  unfold topData; split <;> (try split) <;> rfl

theorem swapData_rev (m : Mach) : ∃ seg, Rev m m.swapData.2 seg := by
  unfold swapData
  split
  · rename_i a b r hds
    split
    · rename_i hlt
      simp [hds] at hlt
      refine ⟨_, Rev.mk1 m _ .swapData rfl rfl ?_ rfl (fun w => ⟨?_, w.rs, w.ls, w.ss⟩)
        ⟨rfl, rfl, rfl, rfl, rfl, rfl, rfl, fun S _ => ?_⟩⟩
      · simp [undoC, core, hds, hlt]
      · simp; omega
      · simp [hds]; omega
    · exact ex_refl m
  · exact ex_refl m

theorem rotData_rev (m : Mach) : ∃ seg, Rev m m.rotData.2 seg := by
  unfold rotData
  split
  · rename_i a b c r hds
    split
    · rename_i hlt
      simp [hds] at hlt
      refine ⟨_, Rev.mk1 m _ .rotData rfl rfl ?_ rfl (fun w => ⟨?_, w.rs, w.ls, w.ss⟩)
        ⟨rfl, rfl, rfl, rfl, rfl, rfl, rfl, fun S _ => ?_⟩⟩
      · simp [undoC, core, hds, hlt]
      · simp; omega
      · simp [hds]; omega
    · exact ex_refl m
  · exact ex_refl m

theorem dupData_rev (m : Mach) (w : WF m) : ∃ seg, Rev m m.dupData.2 seg := by
  unfold dupData
  have hs := topData_same m
  split
  · rename_i c m1 htop
    have : m1 = m := by rw [← hs, htop]
    subst this; exact pushData_rev _ _ w
  · rename_i e m1 htop
    have : m1 = m := by rw [← hs, htop]
    subst this; exact ex_refl _
  · rename_i e m1 htop
    have : m1 = m := by rw [← hs, htop]
    subst this; exact ex_refl _

theorem overData_rev (m : Mach) (w : WF m) : ∃ seg, Rev m m.overData.2 seg := by
  unfold overData
  split
  · rename_i a b r hds
    split
    · rename_i hlt
      simp [hds] at hlt
      have h3 : m.ctx.dsLen < r.length + 1 + 1 := by omega
      have w1 : WF (m.logStep .overData) := ⟨w.ds, w.rs, w.ls, w.ss⟩
      have r1 : Rev m (m.logStep .overData) [.overData] :=
        Rev.mk1 m _ .overData rfl rfl (by simp [undoC, core, hds, h3]) rfl (fun _ => w1)
          ⟨rfl, rfl, rfl, rfl, rfl, rfl, rfl, fun S _ => by simp; omega⟩
      obtain ⟨seg, r2⟩ := pushData_rev (m.logStep .overData) b w1
      exact ⟨_, r1.trans r2⟩
    · exact ex_refl m
  · exact ex_refl m

theorem pushReturn_rev (m : Mach) (f : Frame) (w : WF m) : Rev m (m.pushReturn f) [.popReturn] := by
  have h1 : m.ctx.rsLen < m.rs.length + 1 := by have := w.rs; omega
  refine Rev.mk1 m _ .popReturn rfl rfl ?_ rfl (fun w => ⟨w.ds, ?_, w.ls, w.ss⟩)
    ⟨rfl, rfl, rfl, rfl, rfl, rfl, rfl, fun S _ => by simp [pushReturn]; omega⟩
  · simp [undoC, core, pushReturn, h1]
  · simp [pushReturn]; have := w.rs; omega

theorem popReturn_rev (m : Mach) : ∃ seg, Rev m m.popReturn.2 seg := by
  unfold popReturn
  split
  · rename_i f rest hrs
    split
    · rename_i hlt
      refine ⟨_, Rev.mk1 m _ (.pushReturn f) rfl rfl ?_ rfl (fun w => ⟨w.ds, ?_, w.ls, w.ss⟩)
        ⟨rfl, rfl, rfl, rfl, rfl, rfl, rfl, fun S _ => by simp; omega⟩⟩
      · simp [undoC, core, hrs]
      · simp [hrs] at hlt ⊢; omega
    · exact ex_refl m
  · exact ex_refl m

theorem pushLoop_rev (m : Mach) (l : Loop) (w : WF m) : Rev m (m.pushLoop l) [.popLoop] := by
  have h1 : m.ctx.lsLen < m.loops.length + 1 := by have := w.ls; omega
  refine Rev.mk1 m _ .popLoop rfl rfl ?_ rfl (fun w => ⟨w.ds, w.rs, ?_, w.ss⟩)
    ⟨rfl, rfl, rfl, rfl, rfl, rfl, rfl, fun S _ => by simp [pushLoop]; omega⟩
  · simp [undoC, core, pushLoop, h1]
  · simp [pushLoop]; have := w.ls; omega

theorem popLoop_rev (m : Mach) : ∃ seg, Rev m m.popLoop.2 seg := by
  unfold popLoop
  split
  · rename_i l rest hls
    split
    · rename_i hlt
      refine ⟨_, Rev.mk1 m _ (.pushLoop l) rfl rfl ?_ rfl (fun w => ⟨w.ds, w.rs, ?_, w.ss⟩)
        ⟨rfl, rfl, rfl, rfl, rfl, rfl, rfl, fun S _ => by simp; omega⟩⟩
      · simp [undoC, core, hls]
      · simp [hls] at hlt ⊢; omega
    · exact ex_refl m
  · exact ex_refl m

theorem loopNext_rev (m : Mach) : ∃ seg, Rev m m.loopNext.2 seg := by
  unfold loopNext
  split
  · rename_i l rest hls
    split
    · rename_i hlt
      simp [hls] at hlt
      have h3 : m.ctx.lsLen < rest.length + 1 := by omega
      refine ⟨_, Rev.mk1 m _ (.loopNextBack l) rfl rfl ?_ rfl (fun w => ⟨w.ds, w.rs, ?_, w.ss⟩)
        ⟨rfl, rfl, rfl, rfl, rfl, rfl, rfl, fun S _ => by simp; omega⟩⟩
      · simp [undoC, core, hls, h3]
      · simp; omega
    · exact ex_refl m
  · exact ex_refl m

theorem pushSpecial_rev (m : Mach) (p : Nat) (w : WF m) : Rev m (m.pushSpecial p) [.popSpecial] := by
  have h1 : m.ctx.ssPtr < m.special.length + 1 := by have := w.ss; omega
  refine Rev.mk1 m _ .popSpecial rfl rfl ?_ rfl (fun w => ⟨w.ds, w.rs, w.ls, ?_⟩)
    ⟨rfl, rfl, rfl, rfl, rfl, rfl, rfl, fun S _ => by simp [pushSpecial]; omega⟩
  · simp [undoC, core, pushSpecial, h1]
  · simp [pushSpecial]; have := w.ss; omega

theorem popSpecial_rev (m : Mach) : ∃ seg, Rev m m.popSpecial.2 seg := by
  unfold popSpecial
  split
  · rename_i p rest hsp
    split
    · rename_i hlt
      refine ⟨_, Rev.mk1 m _ (.pushSpecial p) rfl rfl ?_ rfl (fun w => ⟨w.ds, w.rs, w.ls, ?_⟩)
        ⟨rfl, rfl, rfl, rfl, rfl, rfl, rfl, fun S _ => by simp; omega⟩⟩
      · simp [undoC, core, hsp]
      · simp [hsp] at hlt ⊢; omega
    · exact ex_refl m
  · exact ex_refl m

theorem swapCellRef_rev (m : Mach) (idx : Nat) (v : Cell) : ∃ seg, Rev m (m.swapCellRef idx v).2 seg := by
  unfold swapCellRef
  split
  · exact ex_refl m
  · split
    · rename_i old hget
      have hlt : idx < m.heap.length := by
        rcases Nat.lt_or_ge idx m.heap.length with h | h
        · exact h
        · simp [List.getElem?_eq_none h] at hget
      have hold : m.heap[idx] = old := by
        rw [List.getElem?_eq_getElem hlt] at hget; exact Option.some.inj hget
      rename_i hmode _
      refine ⟨_, Rev.mk1 m _ (.swapRef idx old) rfl rfl ?_ rfl (fun w => ⟨w.ds, w.rs, w.ls, w.ss⟩)
        ⟨rfl, rfl, rfl, rfl, rfl, rfl, by simp, fun S _ => by simp; omega⟩
        (fun hm => absurd (by simp [hm]) hmode)⟩
      simp [undoC, core, hlt, ← hold]
    · exact ex_refl m

theorem setLoopItems_rev (m : Mach) (c : Cell) : ∃ seg, Rev m (m.setLoopItems c).2 seg := by
  unfold setLoopItems
  split
  · rename_i l rest hls
    split
    · rename_i hlt
      simp [hls] at hlt
      have h3 : m.ctx.lsLen < rest.length + 1 := by omega
      exact ⟨_, Rev.mk1 m _ (.loopNextBack l) rfl rfl (by simp [undoC, core, hls, h3]) rfl
        (fun w => ⟨w.ds, w.rs, by simp; omega, w.ss⟩)
        ⟨rfl, rfl, rfl, rfl, rfl, rfl, rfl, fun S _ => by simp; omega⟩⟩
    · exact ex_refl m
  · exact ex_refl m

/-! ### every native word (= every `Prog`) is reversible, whatever its outcome -/

theorem runProg_rev (p : Prog) : ∀ (m : Mach), WF m → ∃ seg, Rev m (runProg p m).2 seg := by
  induction p with
  | done => intro m _; exact ex_refl m
  | fail e => intro m _; exact ex_refl m
  | panic s => intro m _; exact ex_refl m
  | pop k ih =>
    intro m w; simp only [runProg]
    obtain ⟨s1, r1⟩ := popData_rev m
    split
    · rename_i c m1 hp
      rw [hp] at r1
      obtain ⟨s2, r2⟩ := ih c m1 (r1.wf w)
      exact ⟨_, r1.trans r2⟩
    · rename_i e m1 hp; rw [hp] at r1; exact ⟨_, r1⟩
    · rename_i e m1 hp; rw [hp] at r1; exact ⟨_, r1⟩
  | push c k ih =>
    intro m w; simp only [runProg]
    obtain ⟨s1, r1⟩ := pushData_rev m c w
    split
    · rename_i m1 hp
      rw [hp] at r1
      obtain ⟨s2, r2⟩ := ih m1 (r1.wf w)
      exact ⟨_, r1.trans r2⟩
    · rename_i e m1 hp; rw [hp] at r1; exact ⟨_, r1⟩
    · rename_i e m1 hp; rw [hp] at r1; exact ⟨_, r1⟩
  | top k ih =>
    intro m w; simp only [runProg]
    have hs := topData_same m
    split
    · rename_i c m1 hp
      have : m1 = m := by rw [← hs, hp]
      subst this; exact ih c _ w
    · rename_i e m1 hp
      have : m1 = m := by rw [← hs, hp]
      subst this; exact ex_refl _
    · rename_i e m1 hp
      have : m1 = m := by rw [← hs, hp]
      subst this; exact ex_refl _
  | dup k ih =>
    intro m w; simp only [runProg]
    obtain ⟨s1, r1⟩ := dupData_rev m w
    split
    · rename_i m1 hp
      rw [hp] at r1
      obtain ⟨s2, r2⟩ := ih m1 (r1.wf w)
      exact ⟨_, r1.trans r2⟩
    · rename_i e m1 hp; rw [hp] at r1; exact ⟨_, r1⟩
    · rename_i e m1 hp; rw [hp] at r1; exact ⟨_, r1⟩
  | swap k ih =>
    intro m w; simp only [runProg]
    obtain ⟨s1, r1⟩ := swapData_rev m
    split
    · rename_i m1 hp
      rw [hp] at r1
      obtain ⟨s2, r2⟩ := ih m1 (r1.wf w)
      exact ⟨_, r1.trans r2⟩
    · rename_i e m1 hp; rw [hp] at r1; exact ⟨_, r1⟩
    · rename_i e m1 hp; rw [hp] at r1; exact ⟨_, r1⟩
  | rot k ih =>
    intro m w; simp only [runProg]
    obtain ⟨s1, r1⟩ := rotData_rev m
    split
    · rename_i m1 hp
      rw [hp] at r1
      obtain ⟨s2, r2⟩ := ih m1 (r1.wf w)
      exact ⟨_, r1.trans r2⟩
    · rename_i e m1 hp; rw [hp] at r1; exact ⟨_, r1⟩
    · rename_i e m1 hp; rw [hp] at r1; exact ⟨_, r1⟩
  | over k ih =>
    intro m w; simp only [runProg]
    obtain ⟨s1, r1⟩ := overData_rev m w
    split
    · rename_i m1 hp
      rw [hp] at r1
      obtain ⟨s2, r2⟩ := ih m1 (r1.wf w)
      exact ⟨_, r1.trans r2⟩
    · rename_i e m1 hp; rw [hp] at r1; exact ⟨_, r1⟩
    · rename_i e m1 hp; rw [hp] at r1; exact ⟨_, r1⟩
  | depth k ih => intro m w; simp only [runProg]; exact ih _ m w
  | rawLen k ih => intro m w; simp only [runProg]; exact ih _ m w
  | rawFrom ptr k ih => intro m w; simp only [runProg]; exact ih _ m w
  | getVar idx k ih =>
    intro m w; simp only [runProg]
    split
    · exact ih _ m w
    · exact ex_refl m
    · exact ex_refl m
  | setVar idx c k ih =>
    intro m w; simp only [runProg]
    obtain ⟨s1, r1⟩ := swapCellRef_rev m idx c
    split
    · rename_i m1 hp
      rw [hp] at r1
      obtain ⟨s2, r2⟩ := ih m1 (r1.wf w)
      exact ⟨_, r1.trans r2⟩
    · rename_i e m1 hp; rw [hp] at r1; exact ⟨_, r1⟩
    · rename_i e m1 hp; rw [hp] at r1; exact ⟨_, r1⟩
  | print s k ih =>
    intro m w; simp only [runProg]
    have r1 := Rev.of_ghost m (m.out ++ s) m.aboutToStop
    obtain ⟨seg, r2⟩ := ih _ (r1.wf w)
    exact ⟨_, r1.trans r2⟩
  | pushSpecial p k ih =>
    intro m w; simp only [runProg]
    have r1 := pushSpecial_rev m p w
    obtain ⟨seg, r2⟩ := ih _ (r1.wf w)
    exact ⟨_, r1.trans r2⟩
  | popSpecial k ih =>
    intro m w; simp only [runProg]
    obtain ⟨s1, r1⟩ := popSpecial_rev m
    obtain ⟨seg, r2⟩ := ih _ _ (r1.wf w)
    exact ⟨_, r1.trans r2⟩
  | loopAt n k ih => intro m w; simp only [runProg]; exact ih _ m w
  | setLoopItems c k ih =>
    intro m w; simp only [runProg]
    obtain ⟨s1, r1⟩ := setLoopItems_rev m c
    split
    · rename_i m1 hp
      rw [hp] at r1
      obtain ⟨s2, r2⟩ := ih m1 (r1.wf w)
      exact ⟨_, r1.trans r2⟩
    · rename_i e m1 hp; rw [hp] at r1; exact ⟨_, r1⟩
    · rename_i e m1 hp; rw [hp] at r1; exact ⟨_, r1⟩
  | stop k ih =>
    intro m w; simp only [runProg]
    have r1 := Rev.of_ghost m m.out true
    obtain ⟨seg, r2⟩ := ih _ (r1.wf w)
    exact ⟨_, r1.trans r2⟩

end Xeh.Mach
