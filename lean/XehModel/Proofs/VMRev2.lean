/- C02 / C14 helper lemmas, part 2: every opcode, `step`, and `rnext ∘ step`. -/
import XehModel.Proofs.VMRev

namespace Xeh.Mach

/-- shape of the result of executing one opcode from `m`: reversible effects `seg`, then — only on
    success — exactly one `SetIp` -/
inductive Shape (m : Mach) (r : R Unit) : Prop where
  | fail (seg : List RStep) (mp : Mach) (h : Rev m mp seg) (e : r.2 = mp) (ne : r.1 ≠ .ok ()) : Shape m r
  | done (seg : List RStep) (mp : Mach) (n : Nat) (h : Rev m mp seg) (e : r = (.ok (), mp.setIp n)) : Shape m r

theorem Shape.ofErr {m mp : Mach} {seg} (h : Rev m mp seg) (e : Xerr) : Shape m (.err e, mp) :=
  .fail seg mp h rfl (by simp)
theorem Shape.ofPanic {m mp : Mach} {seg} (h : Rev m mp seg) (s : String) : Shape m (.panic s, mp) :=
  .fail seg mp h rfl (by simp)
theorem Shape.ofOk {m mp : Mach} {seg} (h : Rev m mp seg) (n : Nat) : Shape m (.ok (), mp.setIp n) :=
  .done seg mp n h rfl

theorem doInit_rev (m : Mach) : ∃ seg, Rev m m.doInit.2 seg := by
  unfold doInit
  obtain ⟨s1, r1⟩ := popData_rev m
  split
  · rename_i start m1 h1
    rw [h1] at r1
    obtain ⟨s2, r2⟩ := popData_rev m1
    split
    · rename_i limit m2 h2
      rw [h2] at r2
      split
      · split <;> exact ⟨_, r1.trans r2⟩
      · exact ⟨_, r1.trans r2⟩
      · exact ⟨_, r1.trans r2⟩
    · rename_i e m2 h2; rw [h2] at r2; exact ⟨_, r1.trans r2⟩
    · rename_i e m2 h2; rw [h2] at r2; exact ⟨_, r1.trans r2⟩
  · rename_i e m1 h1; rw [h1] at r1; exact ⟨_, r1⟩
  · rename_i e m1 h1; rw [h1] at r1; exact ⟨_, r1⟩

/-- push a literal, then advance -/
theorem push_next_shape (m : Mach) (c : Cell) (w : WF m) :
    Shape m (match m.pushData c with
      | (.ok (), m) => (.ok (), m.nextIp)
      | (.err e, m) => (.err e, m)
      | (.panic s, m) => (.panic s, m)) := by
  obtain ⟨s1, r1⟩ := pushData_rev m c w
  split
  · rename_i m1 hp; rw [hp] at r1; exact Shape.ofOk r1 _
  · rename_i e m1 hp; rw [hp] at r1; exact Shape.ofErr r1 e
  · rename_i e m1 hp; rw [hp] at r1; exact Shape.ofPanic r1 e

theorem exec_shape (np : String → Option Prog) (m : Mach) (op : Op) (w : WF m) :
    Shape m (exec np m m.ctx.ip op) := by
  cases op with
  | nop => exact Shape.ofOk (Rev.refl m) _
  | jump rel => exact Shape.ofOk (Rev.refl m) _
  | jumpIf rel =>
    simp only [exec]
    obtain ⟨s1, r1⟩ := popData_rev m
    split
    · rename_i c m1 hp; rw [hp] at r1
      split
      · exact Shape.ofOk r1 _
      · exact Shape.ofOk r1 _
      · exact Shape.ofErr r1 _
      · exact Shape.ofPanic r1 _
    · rename_i e m1 hp; rw [hp] at r1; exact Shape.ofErr r1 e
    · rename_i e m1 hp; rw [hp] at r1; exact Shape.ofPanic r1 e
  | jumpIfNot rel =>
    simp only [exec]
    obtain ⟨s1, r1⟩ := popData_rev m
    split
    · rename_i c m1 hp; rw [hp] at r1
      split
      · exact Shape.ofOk r1 _
      · exact Shape.ofOk r1 _
      · exact Shape.ofErr r1 _
      · exact Shape.ofPanic r1 _
    · rename_i e m1 hp; rw [hp] at r1; exact Shape.ofErr r1 e
    · rename_i e m1 hp; rw [hp] at r1; exact Shape.ofPanic r1 e
  | caseOf rel =>
    simp only [exec]
    obtain ⟨s1, r1⟩ := popData_rev m
    split
    · rename_i a m1 hp; rw [hp] at r1
      have hs := topData_same m1
      split
      · rename_i b m2 ht
        have : m2 = m1 := by rw [← hs, ht]
        subst this
        split
        · obtain ⟨s3, r3⟩ := popData_rev m2
          split
          · rename_i x m3 hp3; rw [hp3] at r3; exact Shape.ofOk (r1.trans r3) _
          · rename_i e m3 hp3; rw [hp3] at r3; exact Shape.ofErr (r1.trans r3) e
          · rename_i e m3 hp3; rw [hp3] at r3; exact Shape.ofPanic (r1.trans r3) e
        · exact Shape.ofOk r1 _
      · rename_i e m2 ht
        have : m2 = m1 := by rw [← hs, ht]
        subst this; exact Shape.ofErr r1 e
      · rename_i e m2 ht
        have : m2 = m1 := by rw [← hs, ht]
        subst this; exact Shape.ofPanic r1 e
    · rename_i e m1 hp; rw [hp] at r1; exact Shape.ofErr r1 e
    · rename_i e m1 hp; rw [hp] at r1; exact Shape.ofPanic r1 e
  | call addr => exact Shape.ofOk (pushReturn_rev m _ w) _
  | native name =>
    simp only [exec]
    split
    · rename_i p hnp
      obtain ⟨s1, r1⟩ := runProg_rev p m w
      split
      · rename_i m1 hr; rw [hr] at r1; exact Shape.ofOk r1 _
      · rename_i e m1 hr; rw [hr] at r1; exact Shape.ofErr r1 e
      · rename_i e m1 hr; rw [hr] at r1; exact Shape.ofPanic r1 e
    · exact Shape.ofPanic (Rev.refl m) _
  | ret =>
    simp only [exec]
    obtain ⟨s1, r1⟩ := popReturn_rev m
    split
    · rename_i f m1 hp; rw [hp] at r1; exact Shape.ofOk r1 _
    · rename_i e m1 hp; rw [hp] at r1; exact Shape.ofErr r1 e
    · rename_i e m1 hp; rw [hp] at r1; exact Shape.ofPanic r1 e
  | resolve name => exact Shape.ofPanic (Rev.refl m) _
  | loadStr s => exact push_next_shape m _ w
  | loadF64 x => exact push_next_shape m _ w
  | loadI64 x => exact push_next_shape m _ w
  | loadNil => exact push_next_shape m _ w
  | loadCell c => exact push_next_shape m _ w
  | load idx =>
    simp only [exec]
    split
    · exact push_next_shape m _ w
    · exact Shape.ofErr (Rev.refl m) _
    · exact Shape.ofPanic (Rev.refl m) _
  | store idx =>
    simp only [exec]
    obtain ⟨s1, r1⟩ := popData_rev m
    split
    · rename_i v m1 hp; rw [hp] at r1
      obtain ⟨s2, r2⟩ := swapCellRef_rev m1 idx v
      split
      · rename_i m2 hs; rw [hs] at r2; exact Shape.ofOk (r1.trans r2) _
      · rename_i e m2 hs; rw [hs] at r2; exact Shape.ofErr (r1.trans r2) e
      · rename_i e m2 hs; rw [hs] at r2; exact Shape.ofPanic (r1.trans r2) e
    · rename_i e m1 hp; rw [hp] at r1; exact Shape.ofErr r1 e
    · rename_i e m1 hp; rw [hp] at r1; exact Shape.ofPanic r1 e
  | initLocal idx =>
    simp only [exec]
    obtain ⟨s1, r1⟩ := popData_rev m
    split
    · rename_i v m1 hp; rw [hp] at r1
      split
      · rename_i f rest hrs
        split
        · rename_i hlt
          simp [hrs] at hlt
          have h3 : m1.ctx.rsLen < rest.length + 1 := by omega
          have r2 : Rev m1 (({ m1 with rs := { f with locals := setLocal f.locals idx v } :: rest } : Mach).logStep (.restoreLocals f.locals)) [.restoreLocals f.locals] :=
            Rev.mk1 m1 _ _ rfl rfl (by simp [undoC, core, hrs, h3]) rfl
              (fun w => ⟨w.ds, by simp; omega, w.ls, w.ss⟩)
              ⟨rfl, rfl, rfl, rfl, rfl, rfl, rfl, fun S _ => by simp; omega⟩
          exact Shape.ofOk (r1.trans r2) _
        · exact Shape.ofErr r1 _
      · exact Shape.ofErr r1 _
    · rename_i e m1 hp; rw [hp] at r1; exact Shape.ofErr r1 e
    · rename_i e m1 hp; rw [hp] at r1; exact Shape.ofPanic r1 e
  | loadLocal i =>
    simp only [exec]
    split
    · split
      · exact push_next_shape m _ w
      · exact Shape.ofErr (Rev.refl m) _
    · exact Shape.ofErr (Rev.refl m) _
    · exact Shape.ofPanic (Rev.refl m) _
  | doOp rel =>
    simp only [exec]
    obtain ⟨s1, r1⟩ := doInit_rev m
    split
    · rename_i l m1 hd; rw [hd] at r1
      split
      · exact Shape.ofOk (r1.trans (pushLoop_rev m1 l (r1.wf w))) _
      · exact Shape.ofOk r1 _
    · rename_i e m1 hd; rw [hd] at r1; exact Shape.ofErr r1 e
    · rename_i e m1 hd; rw [hd] at r1; exact Shape.ofPanic r1 e
  | breakOp rel =>
    simp only [exec]
    obtain ⟨s1, r1⟩ := popLoop_rev m
    split
    · rename_i l m1 hp; rw [hp] at r1; exact Shape.ofOk r1 _
    · rename_i e m1 hp; rw [hp] at r1; exact Shape.ofErr r1 e
    · rename_i e m1 hp; rw [hp] at r1; exact Shape.ofPanic r1 e
  | loopOp rel =>
    simp only [exec]
    obtain ⟨s1, r1⟩ := loopNext_rev m
    split
    · rename_i m1 hn; rw [hn] at r1; exact Shape.ofOk r1 _
    · rename_i m1 hn; rw [hn] at r1
      obtain ⟨s2, r2⟩ := popLoop_rev m1
      split
      · rename_i l2 m2 hp; rw [hp] at r2; exact Shape.ofOk (r1.trans r2) _
      · rename_i e m2 hp; rw [hp] at r2; exact Shape.ofErr (r1.trans r2) e
      · rename_i e m2 hp; rw [hp] at r2; exact Shape.ofPanic (r1.trans r2) e
    · rename_i e m1 hn; rw [hn] at r1; exact Shape.ofErr r1 e
    · rename_i e m1 hn; rw [hn] at r1; exact Shape.ofPanic r1 e

/-- what `step` does before it executes the opcode: the meter advances (once, twice for a
    `Resolve`) and a `Resolve` is patched in place; core, log, limits and dictionary are untouched -/
structure Pre (m m0 : Mach) : Prop where
  core : m0.core = m.core
  log : m0.log = m.log
  insnLimit : m0.insnLimit = m.insnLimit
  stackLimit : m0.stackLimit = m.stackLimit
  heapLimit : m0.heapLimit = m.heapLimit
  dict : m0.dict = m.dict
  codeLen : m0.code.length = m.code.length
  code : (∀ name, m.code[m.ctx.ip]? ≠ some (.resolve name)) → m0.code = m.code
  /-- inside a meta block even a `Resolve` leaves the code alone -/
  codeMeta : m.ctx.mode = .metaEval → m0.code = m.code
  meterLo : m.meter < m0.meter
  meterHi : m0.meter ≤ m.meter + 2
  meterLim : ∀ N, m.insnLimit = some N → m0.meter ≤ N

theorem Pre.wf {m m0 : Mach} (p : Pre m m0) (w : WF m) : WF m0 := by
  have h1 := congrArg Core.ctx p.core; have h2 := congrArg Core.ds p.core
  have h3 := congrArg Core.rs p.core; have h4 := congrArg Core.loops p.core; have h5 := congrArg Core.special p.core
  simp only [Mach.core] at h1 h2 h3 h4 h5
  exact ⟨by rw [h1, h2]; exact w.ds, by rw [h1, h3]; exact w.rs, by rw [h1, h4]; exact w.ls, by rw [h1, h5]; exact w.ss⟩

theorem meterIncrease_ok (m m1 : Mach) (h : m.meterIncrease = (.ok (), m1)) :
    m1 = { m with meter := m.meter + 1 } ∧ (∀ N, m.insnLimit = some N → m.meter < N) := by
  unfold meterIncrease at h
  split at h
  · rename_i lim hl
    split at h
    · cases h
    · rename_i hlt
      exact ⟨(Prod.mk.inj h).2.symm, fun N hN => by rw [hl] at hN; cases hN; omega⟩
  · rename_i hl
    exact ⟨(Prod.mk.inj h).2.symm, fun N hN => by rw [hl] at hN; cases hN⟩

theorem meterIncrease_fail (m : Mach) : (∃ m1, m.meterIncrease = (.ok (), m1)) ∨ m.meterIncrease.2 = m := by
  unfold meterIncrease
  split
  · split
    · right; rfl
    · left; exact ⟨_, rfl⟩
  · left; exact ⟨_, rfl⟩

/-- result of `step`: either it stopped before executing anything (limit, bad ip, unknown late word)
    with at most the meter advanced, or an opcode was executed from a `Pre` machine -/
inductive StepShape (np : String → Option Prog) (m : Mach) (r : R Unit) : Prop where
  | early (h : r.2.core = m.core) (hl : r.2.log = m.log) (ne : r.1 ≠ .ok ())
      (hm : m.meter ≤ r.2.meter ∧ r.2.meter ≤ m.meter + 1) (hN : ∀ N, m.insnLimit = some N → m.meter ≤ N → r.2.meter ≤ N)
      (lims : r.2.stackLimit = m.stackLimit ∧ r.2.insnLimit = m.insnLimit)
      (rest : r.2.dict = m.dict ∧ r.2.heapLimit = m.heapLimit ∧ r.2.code.length = m.code.length ∧
        (m.ctx.mode = .metaEval → r.2.code = m.code)) : StepShape np m r
  | exec (m0 : Mach) (p : Pre m m0) (s : Shape m0 r) : StepShape np m r

theorem step_shape (np : String → Option Prog) (m : Mach) (w : WF m) :
    StepShape np m (step np m) := by
  unfold step
  simp only
  split
  · rename_i e m1 hm
    rcases meterIncrease_fail m with ⟨m2, h2⟩ | h2
    · rw [h2] at hm; cases hm
    · rw [hm] at h2; simp only at h2; subst h2
      exact .early rfl rfl (by simp) ⟨Nat.le_refl _, Nat.le_succ _⟩ (fun _ _ h => h) ⟨rfl, rfl⟩ ⟨rfl, rfl, rfl, fun _ => rfl⟩
  · rename_i e m1 hm
    rcases meterIncrease_fail m with ⟨m2, h2⟩ | h2
    · rw [h2] at hm; cases hm
    · rw [hm] at h2; simp only at h2; subst h2
      exact .early rfl rfl (by simp) ⟨Nat.le_refl _, Nat.le_succ _⟩ (fun _ _ h => h) ⟨rfl, rfl⟩ ⟨rfl, rfl, rfl, fun _ => rfl⟩
  · rename_i m1 hm
    obtain ⟨e1, hlt1⟩ := meterIncrease_ok _ _ hm
    subst e1
    have early1 : ∀ (o : Outcome Unit), o ≠ .ok () → StepShape np m (o, { m with meter := m.meter + 1 }) :=
      fun o ho => .early rfl rfl ho ⟨by simp, by simp⟩ (fun N hN' _ => by have := hlt1 N hN'; simp; omega) ⟨rfl, rfl⟩ ⟨rfl, rfl, rfl, fun _ => rfl⟩
    have pre1 : Pre m { m with meter := m.meter + 1 } :=
      ⟨rfl, rfl, rfl, rfl, rfl, rfl, rfl, fun _ => rfl, fun _ => rfl, by simp, by simp, fun N hN' => by have := hlt1 N hN'; simp; omega⟩
    split
    · exact early1 _ (by simp)
    · rename_i name hop
      split
      · exact early1 _ (by simp)
      · exact early1 _ (by simp)
      · rename_i op hres
        obtain ⟨cp, hcp, hcl, hcm⟩ := patchCode_eq { m with meter := m.meter + 1 } m.ctx.ip op
        rw [hcp]
        split
        · rename_i e m2 hm2
          rcases meterIncrease_fail { m with meter := m.meter + 1, code := cp } with ⟨m3, h3⟩ | h3
          · rw [h3] at hm2; cases hm2
          · rw [hm2] at h3; simp only at h3; subst h3
            exact .early rfl rfl (by simp) ⟨by simp, by simp⟩ (fun N hN' _ => by have := hlt1 N hN'; simp; omega) ⟨rfl, rfl⟩ ⟨rfl, rfl, by simpa using hcl, fun hm => by simpa using hcm hm⟩
        · rename_i e m2 hm2
          rcases meterIncrease_fail { m with meter := m.meter + 1, code := cp } with ⟨m3, h3⟩ | h3
          · rw [h3] at hm2; cases hm2
          · rw [hm2] at h3; simp only at h3; subst h3
            exact .early rfl rfl (by simp) ⟨by simp, by simp⟩ (fun N hN' _ => by have := hlt1 N hN'; simp; omega) ⟨rfl, rfl⟩ ⟨rfl, rfl, by simpa using hcl, fun hm => by simpa using hcm hm⟩
        · rename_i m2 hm2
          obtain ⟨e2, hlt2⟩ := meterIncrease_ok _ _ hm2
          subst e2
          have pre2 : Pre m { m with meter := m.meter + 1 + 1, code := cp } :=
            ⟨rfl, rfl, rfl, rfl, rfl, rfl, by simpa using hcl, fun hno => absurd hop (hno name), fun hm => by simpa using hcm hm, by simp; omega, by simp, fun N hN' => by have := hlt2 N hN'; simp at this ⊢; omega⟩
          exact .exec _ pre2 (exec_shape np _ op (pre2.wf w))
    · rename_i op _ hop
      exact .exec _ pre1 (exec_shape np _ op (pre1.wf w))

/-- the log is empty or starts with the `SetIp` of the previous instruction -/
def LogHead : List RStep → Prop
  | [] => True
  | s :: _ => isSetIp s = true

theorem undoSeg_app (seg ℓ : List RStep) (c c' : Core)
    (hn : ∀ s ∈ seg, isSetIp s = false) (hu : undoList seg c = .ok c') (hℓ : LogHead ℓ) :
    undoSeg (seg ++ ℓ) c = (.ok (), c', ℓ) := by
  induction seg generalizing c with
  | nil =>
    simp [undoList] at hu
    subst hu
    cases ℓ with
    | nil => simp [undoSeg]
    | cons s rest =>
      cases s <;> simp [LogHead, isSetIp] at hℓ
      simp [undoSeg]
  | cons s rest ih =>
    have hs : isSetIp s = false := hn s (by simp)
    simp only [undoList] at hu
    split at hu
    · rename_i c1 heq
      have := ih c1 (fun s hs' => hn s (by simp [hs'])) hu
      cases s <;> simp [isSetIp] at hs <;> simp only [List.cons_append, undoSeg, heq] <;> exact this
    · cases hu
    · cases hu

variable (np : String → Option Prog)

/-- facts about one `step`, whatever its outcome -/
theorem step_frame (m : Mach) (w : WF m) :
    ((step np m).2.insnLimit = m.insnLimit ∧ (step np m).2.stackLimit = m.stackLimit) ∧
    (∀ N, m.insnLimit = some N → m.meter ≤ N → (step np m).2.meter ≤ N) ∧
    (∀ S, m.stackLimit = some S → (step np m).2.ds.length ≤ max S m.ds.length) ∧
    (step np m).2.heap.length = m.heap.length ∧
    ((step np m).1 = .ok () → m.meter < (step np m).2.meter) ∧
    WF (step np m).2 := by
  have sh := step_shape np m w
  cases sh with
  | early hc hl ne hm hN lims =>
    have hds := congrArg Core.ds hc; have hheap := congrArg Core.heap hc
    simp only [core] at hds hheap
    have wf' : WF (step np m).2 := by
      have h1 := congrArg Core.ctx hc; have h3 := congrArg Core.rs hc
      have h4 := congrArg Core.loops hc; have h5 := congrArg Core.special hc
      simp only [core] at h1 h3 h4 h5
      exact ⟨by rw [h1, hds]; exact w.ds, by rw [h1, h3]; exact w.rs, by rw [h1, h4]; exact w.ls, by rw [h1, h5]; exact w.ss⟩
    exact ⟨⟨lims.2, lims.1⟩, hN, fun S _ => by show (step np m).2.ds.length ≤ _; rw [hds]; omega,
      by show (step np m).2.heap.length = _; rw [hheap], fun h => absurd h ne, wf'⟩
  | exec m0 p s =>
    have hds0 : m0.ds = m.ds := by have := congrArg Core.ds p.core; simpa [core] using this
    have hheap0 : m0.heap = m.heap := by have := congrArg Core.heap p.core; simpa [core] using this
    have common : ∀ (seg : List RStep) (mp : Mach), Rev m0 mp seg →
        (mp.insnLimit = m.insnLimit ∧ mp.stackLimit = m.stackLimit) ∧
        (∀ N, m.insnLimit = some N → m.meter ≤ N → mp.meter ≤ N) ∧
        (∀ S, m.stackLimit = some S → mp.ds.length ≤ max S m.ds.length) ∧
        mp.heap.length = m.heap.length ∧ m.meter < mp.meter ∧ WF mp := by
      intro seg mp rv
      refine ⟨⟨by rw [rv.fr.insnLimit, p.insnLimit], by rw [rv.fr.stackLimit, p.stackLimit]⟩,
        fun N hN _ => by rw [rv.fr.meter]; exact p.meterLim N hN,
        fun S hS => by have := rv.fr.dsBound S (by rw [p.stackLimit]; exact hS); rw [hds0] at this; exact this,
        by rw [rv.fr.heapLen, hheap0], by rw [rv.fr.meter]; exact p.meterLo, rv.wf (p.wf w)⟩
    cases s with
    | fail seg mp rv e ne =>
      have c := common seg mp rv
      rw [e]
      exact ⟨c.1, c.2.1, c.2.2.1, c.2.2.2.1, fun h => absurd h ne, c.2.2.2.2.2⟩
    | done seg mp n rv e =>
      have c := common seg mp rv
      rw [e]
      have wmp := c.2.2.2.2.2
      exact ⟨c.1, c.2.1, c.2.2.1, c.2.2.2.1, fun _ => c.2.2.2.2.1, ⟨wmp.ds, wmp.rs, wmp.ls, wmp.ss⟩⟩


end Xeh.Mach
