/-
Sealing (C10 / C11 helper): whatever the VM executes, it never touches the part of the stacks below
the marks of the current context, never changes the marks, the dictionary or the size of the heap —
and inside a meta block it changes neither the bytecode nor any heap cell.

The stack part is obtained from the reversibility lemmas of C02 without a second pass over the
primitives: `Rev m m' seg` says that undoing `seg` leads from `m'` back to `m`, and undoing never
reaches below a mark (every undo step is guarded by the mark or pushes on top).
-/
import XehModel.Proofs.VMRev2

namespace Xeh.Mach

/-- the bottom `n` entries of a stack kept top-first -/
def hidOf (l : List α) (n : Nat) : List α := l.drop (l.length - n)

theorem hidOf_cons (x : α) (l : List α) (n : Nat) (h : n ≤ l.length) : hidOf (x :: l) n = hidOf l n := by
  simp only [hidOf, List.length_cons]
  have : l.length + 1 - n = (l.length - n) + 1 := by omega
  rw [this, List.drop_succ_cons]

theorem hidOf_all (l : List α) : hidOf l l.length = l := by simp [hidOf]

/-- the context without its instruction pointer -/
def _root_.Xeh.Ctx.marks (c : Ctx) : Ctx := { c with ip := 0 }

structure CoreWF (c : Core) : Prop where
  ds : c.ctx.dsLen ≤ c.ds.length
  rs : c.ctx.rsLen ≤ c.rs.length
  ls : c.ctx.lsLen ≤ c.loops.length
  ss : c.ctx.ssPtr ≤ c.special.length

/-- what lies below the marks -/
structure Hid where
  ds : List Cell
  rs : List Frame
  loops : List Loop
  special : List Nat
  marks : Ctx
deriving DecidableEq

def Core.hid (c : Core) : Hid :=
  ⟨hidOf c.ds c.ctx.dsLen, hidOf c.rs c.ctx.rsLen, hidOf c.loops c.ctx.lsLen, hidOf c.special c.ctx.ssPtr, c.ctx.marks⟩

theorem undoC_hid (c c' : Core) (s : RStep) (w : CoreWF c) (h : undoC c s = (.ok (), c')) :
    CoreWF c' ∧ c'.hid = c.hid := by
  cases s <;> simp only [undoC] at h
  case setIp ip => cases h; exact ⟨⟨w.ds, w.rs, w.ls, w.ss⟩, rfl⟩
  case pushData x =>
    cases h
    exact ⟨⟨by simp; have := w.ds; omega, w.rs, w.ls, w.ss⟩, by simp [Core.hid, hidOf_cons _ _ _ w.ds]⟩
  case pushReturn x =>
    cases h
    exact ⟨⟨w.ds, by simp; have := w.rs; omega, w.ls, w.ss⟩, by simp [Core.hid, hidOf_cons _ _ _ w.rs]⟩
  case pushLoop x =>
    cases h
    exact ⟨⟨w.ds, w.rs, by simp; have := w.ls; omega, w.ss⟩, by simp [Core.hid, hidOf_cons _ _ _ w.ls]⟩
  case pushSpecial x =>
    cases h
    exact ⟨⟨w.ds, w.rs, w.ls, by simp; have := w.ss; omega⟩, by simp [Core.hid, hidOf_cons _ _ _ w.ss]⟩
  case popData =>
    split at h
    · rename_i x rest hds
      split at h
      · rename_i hg; cases h
        simp [hds] at hg
        exact ⟨⟨by simp; omega, w.rs, w.ls, w.ss⟩, by simp only [Core.hid, hds]; rw [hidOf_cons x rest c.ctx.dsLen (by omega)]⟩
      · cases h
    · cases h
  case swapData =>
    split at h
    · rename_i a b r hds
      split at h
      · rename_i hg; cases h
        simp [hds] at hg
        refine ⟨⟨by simp; omega, w.rs, w.ls, w.ss⟩, ?_⟩
        simp only [Core.hid, hds]
        rw [hidOf_cons a _ _ (by simp; omega), hidOf_cons b r _ (by omega), hidOf_cons b _ _ (by simp; omega), hidOf_cons a r _ (by omega)]
      · cases h
    · cases h
  case rotData =>
    split at h
    · rename_i a b x r hds
      split at h
      · rename_i hg; cases h
        simp [hds] at hg
        refine ⟨⟨by simp; omega, w.rs, w.ls, w.ss⟩, ?_⟩
        simp only [Core.hid, hds]
        rw [hidOf_cons a _ _ (by simp; omega), hidOf_cons b _ _ (by simp; omega), hidOf_cons x r _ (by omega),
          hidOf_cons x _ _ (by simp; omega), hidOf_cons b _ _ (by simp; omega), hidOf_cons a r _ (by omega)]
      · cases h
    · cases h
  case overData =>
    split at h
    · split at h
      · cases h; exact ⟨w, rfl⟩
      · cases h
    · cases h
  case popReturn =>
    split at h
    · rename_i x rest hrs
      split at h
      · rename_i hg; cases h
        simp [hrs] at hg
        exact ⟨⟨w.ds, by simp; omega, w.ls, w.ss⟩, by simp only [Core.hid, hrs]; rw [hidOf_cons x rest c.ctx.rsLen (by omega)]⟩
      · cases h
    · cases h
  case popLoop =>
    split at h
    · rename_i x rest hls
      split at h
      · rename_i hg; cases h
        simp [hls] at hg
        exact ⟨⟨w.ds, w.rs, by simp; omega, w.ss⟩, by simp only [Core.hid, hls]; rw [hidOf_cons x rest c.ctx.lsLen (by omega)]⟩
      · cases h
    · cases h
  case loopNextBack l =>
    split at h
    · rename_i x rest hls
      split at h
      · rename_i hg; cases h
        simp [hls] at hg
        refine ⟨⟨w.ds, w.rs, by simp; have := w.ls; rw [hls] at this; simpa using this, w.ss⟩, ?_⟩
        simp only [Core.hid, hls]
        rw [hidOf_cons l rest _ (by omega), hidOf_cons x rest _ (by omega)]
      · cases h
    · cases h
  case popSpecial =>
    split at h
    · rename_i x rest hss
      split at h
      · rename_i hg; cases h
        simp [hss] at hg
        exact ⟨⟨w.ds, w.rs, w.ls, by simp; omega⟩, by simp only [Core.hid, hss]; rw [hidOf_cons x rest c.ctx.ssPtr (by omega)]⟩
      · cases h
    · cases h
  case restoreLocals ls =>
    split at h
    · rename_i f rest hrs
      split at h
      · rename_i hg; cases h
        simp [hrs] at hg
        refine ⟨⟨w.ds, by simp; have := w.rs; rw [hrs] at this; simpa using this, w.ls, w.ss⟩, ?_⟩
        simp only [Core.hid, hrs]
        rw [hidOf_cons _ rest _ (by omega), hidOf_cons f rest _ (by omega)]
      · cases h
    · cases h
  case swapRef idx x =>
    split at h
    · cases h; exact ⟨⟨w.ds, w.rs, w.ls, w.ss⟩, rfl⟩
    · cases h

theorem undoList_hid (seg : List RStep) : ∀ (c c' : Core), CoreWF c → undoList seg c = .ok c' → c'.hid = c.hid := by
  induction seg with
  | nil => intro c c' _ h; simp [undoList] at h; subst h; rfl
  | cons s rest ih =>
    intro c c' w h
    simp only [undoList] at h
    split at h
    · rename_i c1 heq
      obtain ⟨w1, h1⟩ := undoC_hid c c1 s w heq
      rw [ih c1 c' w1 h, h1]
    · cases h
    · cases h

theorem WF.core {m : Mach} (w : WF m) : CoreWF m.core := ⟨w.ds, w.rs, w.ls, w.ss⟩

/-- reversible effects never reach below the marks -/
theorem Rev.hid {m m' : Mach} {seg : List RStep} (r : Rev m m' seg) (w : WF m) : m'.core.hid = m.core.hid :=
  (undoList_hid seg m'.core m.core (r.wf w).core r.undo).symm

/-- `m'` was reached from `m` by executing code: everything outside the current context is untouched -/
structure Sealed (m m' : Mach) : Prop where
  hid : m'.core.hid = m.core.hid
  wf : WF m'
  dict : m'.dict = m.dict
  codeLen : m'.code.length = m.code.length
  heapLen : m'.heap.length = m.heap.length
  limits : m'.insnLimit = m.insnLimit ∧ m'.stackLimit = m.stackLimit ∧ m'.heapLimit = m.heapLimit
  /-- inside a meta block neither the bytecode nor any variable changes -/
  codeMeta : m.ctx.mode = .metaEval → m'.code = m.code
  heapMeta : m.ctx.mode = .metaEval → m'.heap = m.heap
  /-- the reverse log only grows -/
  nolog : m.log = none → m'.log = none
  log : ∀ ℓ, m.log = some ℓ → ∃ seg, m'.log = some (seg ++ ℓ)

theorem Sealed.refl (m : Mach) (w : WF m) : Sealed m m :=
  ⟨rfl, w, rfl, rfl, rfl, ⟨rfl, rfl, rfl⟩, fun _ => rfl, fun _ => rfl, id, fun ℓ h => ⟨[], by simpa using h⟩⟩

theorem Sealed.mode {a b : Mach} (h : Sealed a b) : b.ctx.mode = a.ctx.mode := by
  have := congrArg (fun x => x.marks.mode) h.hid
  simpa [Core.hid, Ctx.marks, Mach.core] using this

theorem Sealed.trans {a b c : Mach} (h1 : Sealed a b) (h2 : Sealed b c) : Sealed a c where
  hid := by rw [h2.hid, h1.hid]
  wf := h2.wf
  dict := by rw [h2.dict, h1.dict]
  codeLen := by rw [h2.codeLen, h1.codeLen]
  heapLen := by rw [h2.heapLen, h1.heapLen]
  limits := ⟨by rw [h2.limits.1, h1.limits.1], by rw [h2.limits.2.1, h1.limits.2.1], by rw [h2.limits.2.2, h1.limits.2.2]⟩
  codeMeta := fun hm => by rw [h2.codeMeta (by rw [h1.mode]; exact hm), h1.codeMeta hm]
  heapMeta := fun hm => by rw [h2.heapMeta (by rw [h1.mode]; exact hm), h1.heapMeta hm]
  nolog := fun h => h2.nolog (h1.nolog h)
  log := fun ℓ h => by
    obtain ⟨s1, e1⟩ := h1.log ℓ h
    obtain ⟨s2, e2⟩ := h2.log _ e1
    exact ⟨s2 ++ s1, by rw [e2, List.append_assoc]⟩

theorem Rev.sealed {m m' : Mach} {seg : List RStep} (r : Rev m m' seg) (w : WF m) : Sealed m m' where
  hid := r.hid w
  wf := r.wf w
  dict := r.fr.dict
  codeLen := by rw [r.fr.code]
  heapLen := r.fr.heapLen
  limits := ⟨r.fr.insnLimit, r.fr.stackLimit, r.fr.heapLimit⟩
  codeMeta := fun _ => r.fr.code
  heapMeta := r.heapMeta
  nolog := r.nolog
  log := fun ℓ h => ⟨seg, r.log ℓ h⟩

theorem setIp_sealed (m : Mach) (n : Nat) (w : WF m) : Sealed m (m.setIp n) where
  hid := rfl
  wf := ⟨w.ds, w.rs, w.ls, w.ss⟩
  dict := rfl
  codeLen := rfl
  heapLen := rfl
  limits := ⟨rfl, rfl, rfl⟩
  codeMeta := fun _ => rfl
  heapMeta := fun _ => rfl
  nolog := fun h => by simp [setIp, logStep, h]
  log := fun ℓ h => ⟨[.setIp m.ctx.ip], by simp [setIp, logStep, h]⟩

theorem Pre.sealed {m m0 : Mach} (p : Pre m m0) (w : WF m) : Sealed m m0 where
  hid := by rw [p.core]
  wf := p.wf w
  dict := p.dict
  codeLen := p.codeLen
  heapLen := by have := congrArg Core.heap p.core; simp only [Mach.core] at this; rw [this]
  limits := ⟨p.insnLimit, p.stackLimit, p.heapLimit⟩
  codeMeta := p.codeMeta
  heapMeta := fun _ => by have := congrArg Core.heap p.core; simpa only [Mach.core] using this
  nolog := fun h => by rw [p.log]; exact h
  log := fun ℓ h => ⟨[], by rw [p.log]; simpa using h⟩

theorem Shape.sealed {m : Mach} {r : R Unit} (s : Shape m r) (w : WF m) : Sealed m r.2 := by
  cases s with
  | fail seg mp h e ne => rw [e]; exact h.sealed w
  | done seg mp n h e => rw [e]; exact (h.sealed w).trans (setIp_sealed mp n (h.wf w))

/-- one instruction, whatever its outcome -/
theorem step_sealed (np : String → Option Prog) (m : Mach) (w : WF m) : Sealed m (step np m).2 := by
  cases step_shape np m w with
  | early h hl ne hm hN lims rest =>
    have hc : ∀ {α} (f : Core → α), f (step np m).2.core = f m.core := fun f => by rw [h]
    have h1 := hc Core.ctx; have h2 := hc Core.ds; have h3 := hc Core.rs; have h4 := hc Core.loops
    have h5 := hc Core.special; have h6 := hc Core.heap
    simp only [Mach.core] at h1 h2 h3 h4 h5 h6
    exact ⟨by rw [h], ⟨by rw [h1, h2]; exact w.ds, by rw [h1, h3]; exact w.rs, by rw [h1, h4]; exact w.ls, by rw [h1, h5]; exact w.ss⟩,
      rest.1, rest.2.2.1, by rw [h6], ⟨lims.2, lims.1, rest.2.1⟩, rest.2.2.2, fun _ => h6,
      fun hn => by rw [hl]; exact hn, fun ℓ hℓ => ⟨[], by rw [hl]; simpa using hℓ⟩⟩
  | exec m0 p s => exact (p.sealed w).trans (s.sealed (p.wf w))

theorem next_sealed (np : String → Option Prog) (m : Mach) (w : WF m) : Sealed m (next np m).2 := by
  unfold next; split
  · exact step_sealed np m w
  · exact Sealed.refl m w

/-- any number of instructions (`State::run`), whatever the outcome -/
theorem run_sealed (np : String → Option Prog) : ∀ (fuel : Nat) (m : Mach) (r : R Unit), WF m →
    run np fuel m = some r → Sealed m r.2 := by
  intro fuel
  induction fuel with
  | zero =>
    intro m r w h
    simp only [run] at h
    split at h
    · cases h
    · cases h; exact Sealed.refl m w
  | succ n ih =>
    intro m r w h
    simp only [run] at h
    split at h
    · have hs := step_sealed np m w
      split at h
      · rename_i m1 heq
        rw [heq] at hs
        exact hs.trans (ih m1 r hs.wf h)
      · rename_i r1 hne
        cases h
        exact hs
    · cases h; exact Sealed.refl m w

end Xeh.Mach
