/-
C01 — structured control flow compiles to bytecode that means what the source says.

Three models (DESIGN Appendix B):
  (1) the faithful flow-stack compiler with backpatching (Model/Compile.lean) + the VM (Model/VM.lean) —
      tied to the code by `C01 build` / `C01 eval` correspondence (identical bytecode, debug map, error and
      token; identical machine after running);
  (2) the structural reading: `parseS` (tokens → syntax tree), `compileS` (a compositional compiler, no flow
      stack, no backpatching), `evalS` (a direct big-step evaluator that never looks at an instruction pointer,
      a jump distance or bytecode) — Model/Structured.lean, Model/ParseS.lean.
What is decided how:
  * VM run of `compileS st` = `evalS st` — THEOREM `compiled_code_means_what_the_source_says` (below), proved by
    forward simulation (Proofs/StructSim.lean, `sim_all`) for every program of the structured fragment (control
    structures, definitions, calls, recursion, locals, variables), every machine, every fuel: same data stack, variables, output (everything but log/meter/ip) when the program
    completes, or the same error at an instruction the debug map attributes to the same token;
  * `compileS (parseS toks)` = the flow-stack compiler's bytecode and debug map — THEOREM
    `flow_compiler_emits_compileS` (Proofs/FlowSim*.lean), for every token list `parseS` accepts; composed with the
    first: `source_means_what_it_says`. Still also checked per generated program by the driver (`C01 struct`);
  * through the interpreter's entry point — THEOREM `eval_means_what_the_source_says`: a fresh session of the
    session model (Model/Session.lean) given the tokens through `build_from_source` in eval mode answers *done* /
    *failed* exactly as the structural evaluator says, with the evaluator's machine and debug map; it rests on
    `Session.tokens_is_compileToks` (Proofs/SessionCompile.lean): outside meta blocks the session's token loop IS the
    flow-stack compiler;
  * word definitions, calls (recursion included) and locals ARE in the structured fragment (stage 2): a call node
    names the entry address of the callee and the return address the compiler assigns (the evaluator copies it into
    the frame it pushes and never looks at it); the function table is read off the tree (`tabOf`), and the theorem
    shows that it describes the code (`funsOf_ok`). Redefinition is the parser binding a name to the newest entry.
    `late` binding and `immediate` words remain outside `Stmt` (faithful compiler + VM models, correspondence).
Theorems here (all programs of the structured fragment, all machines, all fuel):
  * `compiled_code_means_what_the_source_says` — see above;
  * `counted_loop_leaves_no_index`, `completion_keeps_loops` — a terminated counted loop leaves the loop stack
    exactly as it found it (zero-trip, normal end, `break`); no statement that completes changes its depth;
  * `compileS_length` — the compositional compiler emits exactly `size` opcodes (every jump distance in
    `compileS` is computed from `size`);
  * `no_stray_break` — a statement in a context where `break` is not allowed never evaluates to a travelling
    break; `counted_loop_never_breaks_out` — a counted loop absorbs every break of its body;
  * `endless_repeat_never_falls_through`, `endless_until_never_falls_through` — "a loop that structurally
    never terminates never falls through": `begin … repeat` without `break` and `begin … false until`
    never produce a normal completion, whatever the body does and however long it runs. Together with the main
    theorem: the VM never reaches the end of such a loop's code either (it would have to agree with a
    completed evaluation).
-/
import XehModel.Proofs.FlowSim2
import XehModel.Model.Structured
import XehModel.Model.ParseS
import XehModel.Proofs.StructSim
import XehModel.Proofs.StructLoops
import XehModel.Proofs.SessionCompile
import XehModel.Props.C15

namespace Xeh.C01
open Xeh Xeh.Mach Xeh.Structured

/-- the compositional compiler emits exactly `size st` opcodes, in every context -/
theorem compileS_length (st : Stmt) (bk : BK) (ce : Option Nat) : (compileS st bk ce).length = size st :=
  Structured.compileS_length st bk ce

/-- a statement in a context where `break` is not allowed never evaluates to a travelling break -/
theorem no_stray_break (np : String → Option Prog) (F : FunTab) (f : Nat) (st : Stmt) (m : Mach) (r : Bool)
    (hw : WFS st false r = true) : NoBrk (evalS np F f st m) := (no_brk_aux np F f).1 st m r hw

/-- a counted loop absorbs every `break` of its body -/
theorem counted_loop_never_breaks_out (np : String → Option Prog) (F : FunTab) (f : Nat) (tl : Nat) (a : Stmt) (m : Mach) :
    NoBrk (doIter np F f tl a m) := (no_brk_aux np F f).2 tl a m

def NoOk (r : Res) : Prop := ∀ m, r ≠ .ok m

/-- "a loop that structurally never terminates never falls through": `begin body repeat` whose body
    contains no `break` for this loop never completes normally — for every body, machine and amount of fuel
    (it fails, or it is still running when any finite budget is exhausted) -/
theorem endless_repeat_never_falls_through (np : String → Option Prog) (F : FunTab) (tr : Nat) (a : Stmt)
    (hw : WFS a false false = true) : ∀ (f : Nat) (m : Mach), NoOk (evalS np F f (.repeatLoop tr a) m) := by
  intro f
  induction f with
  | zero => intro m m' e; simp only [evalS] at e; cases e
  | succ f ih =>
    intro m m' e
    simp only [evalS] at e
    split at e
    · exact ih _ m' e
    · rename_i t m1 hb
      exact no_stray_break np F f a m false hw t m1 hb
    · rename_i r hne1 hne2
      exact hne1 m' e

/-- `begin body false until` never completes normally either -/
theorem endless_until_never_falls_through (np : String → Option Prog) (F : FunTab) (t t' : Nat) (a : Stmt) :
    ∀ (f : Nat) (m : Mach), NoOk (evalS np F f (.untilLoop t (.seq a (.op t' (.loadCell (.flag false))))) m) := by
  intro f
  induction f with
  | zero => intro m m' e; simp only [evalS] at e; cases e
  | succ f ih =>
    intro m m' e
    simp only [evalS] at e
    split at e
    · rename_i m2 hbody
      -- the body ended normally: its last action pushed `false`
      cases f with
      | zero => simp only [evalS] at hbody; cases hbody
      | succ f1 =>
        simp only [evalS] at hbody
        split at hbody
        · rename_i m1 ha
          cases f1 with
          | zero => simp only [evalS] at hbody; cases hbody
          | succ f2 =>
            simp only [evalS, ofR, straightEff] at hbody
            split at hbody
            · rename_i u m3 hpush
              cases hbody
              -- m2 = m3 has `false` on top
              have htop : ∃ rest, m2.ds = Cell.flag false :: rest ∧ m2.ctx = m1.ctx ∧ rest = m1.ds := by
                unfold Mach.pushData at hpush
                split at hpush
                · split at hpush
                  · cases hpush
                  · cases hpush; exact ⟨_, rfl, rfl, rfl⟩
                · cases hpush; exact ⟨_, rfl, rfl, rfl⟩
              obtain ⟨rest, hds, _, _⟩ := htop
              simp only [ofR, popCond, Mach.popData, hds] at e
              split at e
              · rename_i c m4 hpc
                split at hpc
                · rename_i c2 m5 hpd
                  split at hpd
                  · cases hpd
                    simp only [Cell.condTrue] at hpc
                    cases hpc
                    simp only [Bool.false_eq_true, if_false] at e
                    exact ih _ m' e
                  · cases hpd
                · cases hpc
                · cases hpc
              · cases e
              · cases e
            · cases hbody
            · cases hbody
        · rename_i r hne
          exact hne m2 hbody
    · rename_i r hne
      exact hne m' e

/-- **a terminated counted loop leaves no loop index visible to later code**: when `do … loop` completes — after
    any number of iterations, zero included, normally or by `break` — the loop stack is exactly the one before
    the loop (so `I` afterwards sees what it saw before; with the main theorem below the same holds of the VM,
    whose loop stack agrees with the evaluator's) -/
theorem counted_loop_leaves_no_index (np : String → Option Prog) (F : FunTab)
    (hFw : ∀ addr body ts, F addr = some (body, ts) → WFS body false false = true)
    (f : Nat) (td tl : Nat) (a : Stmt) (m m' : Mach)
    (hw : WFS a true false = true) (h : evalS np F f (.doLoop td tl a) m = .ok m') : m'.loops = m.loops :=
  Structured.counted_loop_leaves_no_index np F hFw f td tl a m m' hw h

/-- `I` `J` `K` see the loops of the program that is running, i.e. the loop records **above the current context's
    mark**: with fewer than `n + 1` of those the word fails with LoopStackUnderflow and changes nothing — however many
    records lie below the mark (left there by a program that failed inside its loops and stays paused: the next source's
    context starts above them; seeded change C01/10 indexed the whole stack) -/
theorem loop_index_sees_only_its_own_loops (n : Nat) (m : Mach) (h : m.loops.length - m.ctx.lsLen ≤ n) :
    runProg (wordCounter n) m = (.err .loopStackUnderflow, m) := by
  have : (m.loops.take (m.loops.length - m.ctx.lsLen))[n]? = none := by
    apply List.getElem?_eq_none
    simp only [List.length_take]
    omega
  simp only [wordCounter, runProg, this]

/-- every statement that completes leaves the loop stack as deep as it found it -/
theorem completion_keeps_loops (np : String → Option Prog) (F : FunTab)
    (hFw : ∀ addr body ts, F addr = some (body, ts) → WFS body false false = true)
    (f : Nat) (st : Stmt) (m m' : Mach) (k r : Bool)
    (hw : WFS st k r = true) (h : evalS np F f st m = .ok m') : m'.loops.length = m.loops.length :=
  (Structured.completion_keeps_loops np F hFw f st m m' k r hw h).1

/-! ### the compiled code means what the source says -/

/-- the bytecode and the debug map of a whole program -/
def codeOf (st : Stmt) : List Op := (compileS st .none none).map (·.1)
def dmapOf (st : Stmt) : List Nat := (compileS st .none none).map (·.2)

/-- **C01, main theorem (structured fragment).** Take any well-formed program `st` of the structured fragment
    (every nesting of literals, native words, variable loads/stores, if/else/then, case/of/endof/endcase,
    begin/until, begin/while/repeat, begin/repeat, do/loop, break, word definitions, calls — recursive ones too —
    and locals; empty bodies and zero-trip loops included) whose calls are placed (`placed`: what `parseS` checks),
    any machine `m` that holds its compiled code and stands at its first opcode, and any amount of fuel for
    the structural evaluator. Then the VM does what the evaluator says:
    * if the evaluator completes in `m'`, the VM — after finitely many successful steps — stands at the end
      of the code in a machine that agrees with `m'` on data stack, variables (heap), output, loop stack,
      return stack, builder stack, dictionary and code (everything but log, meter, ip);
    * if the evaluator fails with error `e` at the opcode of token `tok`, the VM — after finitely many
      successful steps — executes an instruction that the debug map attributes to `tok`, that instruction
      fails with the same `e`, and the machine it leaves agrees with the evaluator's;
    * the evaluator never lets a `break` or a finished `of … endof` arm escape a whole program. -/
theorem compiled_code_means_what_the_source_says (np : String → Option Prog) (st : Stmt) (f : Nat) (m : Mach)
    (hw : WFS st false false = true) (hpl : placed (tabOf st) st 0 = true) (hsize : size st < 2^62)
    (hcode : m.code = codeOf st) (hip : m.ctx.ip = 0) (hwf : WF m) (hlim : m.insnLimit = none) :
    match evalS np (tabOf st) f st m with
    | .ok m' => ∃ n mv, C02.stepN np n m = some mv ∧ mv.ctx.ip = (codeOf st).length ∧ normX mv = normX m'
    | .err e tok m' => ∃ n mv mv', C02.stepN np n m = some mv ∧ step np mv = (.err e, mv') ∧ normX mv' = normX m' ∧
        (dmapOf st)[mv.ctx.ip]? = some tok
    | .panic p tok m' => ∃ n mv mv', C02.stepN np n m = some mv ∧ step np mv = (.panic p, mv') ∧ normX mv' = normX m' ∧
        (dmapOf st)[mv.ctx.ip]? = some tok
    | .brk _ _ => False
    | .exitCase _ => False
    | .timeout => True := by
  have hl : (codeOf st).length = size st := by simp [codeOf, Structured.compileS_length]
  have hca : CodeAt (codeOf st) (dmapOf st) 0 (compileS st .none none) := by
    intro i hi
    simp [codeOf, dmapOf, List.getElem?_map, List.getElem?_eq_getElem hi]
  -- the function table read off the tree describes the code
  have hF : FunsOK (codeOf st) (dmapOf st) (tabOf st) := by
    intro addr body ts hFa
    simp only [tabOf, Option.map_eq_some_iff] at hFa
    obtain ⟨e, he, hb⟩ := hFa
    have hmem := List.mem_of_find?_eq_some he
    have haddr : e.1 = addr := by simpa using List.find?_some he
    have := funsOf_ok (tabOf st) (codeOf st) (dmapOf st) st .none none 0 false false hca hw hpl e hmem
    rw [hb] at this
    simpa [haddr] using this
  have h := (sim_all np (tabOf st) (codeOf st) (dmapOf st) (by rw [hl]; exact hsize) hF f).1 st .none none 0 m m
    ⟨hwf, hlim, hcode⟩ (Rel.refl m) hip hca (by simpa using hw) trivial (by simp [hl]) hpl
  have hne := (no_exit_aux np (tabOf st) f).1 st m false hw
  revert h hne
  generalize evalS np (tabOf st) f st m = r
  intro h hne
  cases r with
  | ok m' =>
    obtain ⟨n, mv, hs, hipv, hr, _⟩ := h
    exact ⟨n, mv, hs, by rw [hipv, hl]; omega, hr⟩
  | err e tok m' =>
    obtain ⟨n, mv, mv', hs, hst, _, hr, hd⟩ := h
    exact ⟨n, mv, mv', hs, hst, hr, hd⟩
  | panic p tok m' =>
    obtain ⟨n, mv, mv', hs, hst, _, hr, hd⟩ := h
    exact ⟨n, mv, mv', hs, hst, hr, hd⟩
  | brk t m' => obtain ⟨ipb, _, bb⟩ := h; exact bb.2
  | exitCase m' => exact absurd rfl (hne m')
  | timeout => trivial

/-- the hypotheses are satisfiable: a counted loop with an empty body, on the machine that holds its code -/
example : WFS (.doLoop 0 1 .skip) false false = true ∧ size (.doLoop 0 1 .skip) < 2^62 ∧
    (({ code := codeOf (.doLoop 0 1 .skip) } : Mach).ctx.ip = 0) ∧ WF ({ code := codeOf (.doLoop 0 1 .skip) } : Mach) :=
  ⟨rfl, by decide, rfl, ⟨Nat.le_refl _, Nat.le_refl _, Nat.le_refl _, Nat.le_refl _⟩⟩

/-! ### link 2: what the flow-stack compiler emits -/

open Xeh.Compile in
/-- `parseS` only answers for well-formed, placed programs -/
theorem parseS_wf (toks : List Tok) (ps ps' : PState) (st : Stmt) (h : parseS toks ps = some (st, ps')) :
    WFS st false false = true ∧ placed (tabOf st) st 0 = true := by
  unfold parseS at h
  split at h
  · split at h
    · rename_i hw
      simp only [Option.some.injEq, Prod.mk.injEq] at h
      obtain ⟨rfl, _⟩ := h
      simpa using hw
    · cases h
  · cases h

open Xeh.Compile in
/-- **the flow-stack compiler emits `compileS (parseS toks)`**, for EVERY token list `parseS` accepts — the whole
    structured fragment, in every nesting: literals, constants, variables, calls, native words, if/else/then,
    case/of/endof/endcase, begin/until, begin/while/repeat, begin/repeat, do/loop, foreach, `break` in every kind
    of loop (its jump is emitted with distance 0, stays on the pending-flow stack across the conditionals and case
    arms that enclose it, and is patched — or turned into a `Break` opcode — when the loop closes), `[ ]`, `{ }`,
    `^{ ^}`, `var`, `!`, `defined`, format words, word definitions (the name is bound before the body is read, so
    recursive calls compile) and locals (declared anywhere in the body, shadowing resolved right-most first).
    The compiler model is the faithful transliteration of state.rs (Model/Compile.lean: pending-flow stack,
    `take_first_cond_flow` skipping `Break` entries, backpatching), tied to the real compiler by the `build`
    correspondence.  It starts on a state that matches the parser's (`Structured.Match2`: same dictionary and heap
    size, no heap limit, outside a meta block), with nothing pending and no definition open.
    Outside `parseS`'s domain (and therefore outside this theorem): `late`, user-defined immediate words, meta blocks. -/
theorem flow_compiler_emits_compileS (toks : List Tok) (ps ps' : PState) (st : Stmt) (s0 : CState)
    (hp : parseS toks ps = some (st, ps')) (hm : Structured.Match2 ps s0) (hloc : ps.locals = none)
    (hfl : s0.flows = []) (hhid : s0.hiddenFlows = 0) (hpc : s0.code.length = ps.pc) :
    ∃ s, compileToks toks 0 s0 = .ok s ∧ s.code = s0.code ++ codeOf st ∧ s.dmap = s0.dmap ++ dmapOf st ∧
      s.dict = ps'.dict ∧ s.heapLen = ps'.heapLen ∧ s.flows = [] :=
  Structured.flow_compiler_agrees2 toks ps ps' st s0 hp hm hloc hfl hhid hpc

open Xeh.Compile in
/-- **end to end**: compile the tokens with the flow-stack compiler on an idle machine with no code yet, load what it
    emitted, and the VM does what the structural evaluator says about the tree `parseS` reads off the same tokens -/
theorem source_means_what_it_says (np : String → Option Prog) (toks : List Tok) (m : Mach) (f : Nat)
    (st : Stmt) (ps' : PState)
    (hip : m.ctx.ip = 0) (hwf : WF m) (hlim : m.insnLimit = none)
    (hp : parseS toks { dict := m.dict, heapLen := m.heap.length } = some (st, ps')) (hsize : size st < 2^62) :
    ∃ s, compileToks toks 0 { dict := m.dict, heapLen := m.heap.length } = .ok s ∧ s.dmap = dmapOf st ∧
      let m1 : Mach := { m with code := s.code, dict := s.dict,
                                heap := m.heap ++ List.replicate (s.heapLen - m.heap.length) Cell.nil }
      match evalS np (tabOf st) f st m1 with
      | .ok m' => ∃ n mv, C02.stepN np n m1 = some mv ∧ mv.ctx.ip = (codeOf st).length ∧ normX mv = normX m'
      | .err e tok m' => ∃ n mv mv', C02.stepN np n m1 = some mv ∧ step np mv = (.err e, mv') ∧ normX mv' = normX m' ∧
          (dmapOf st)[mv.ctx.ip]? = some tok
      | .panic p tok m' => ∃ n mv mv', C02.stepN np n m1 = some mv ∧ step np mv = (.panic p, mv') ∧ normX mv' = normX m' ∧
          (dmapOf st)[mv.ctx.ip]? = some tok
      | .brk _ _ => False
      | .exitCase _ => False
      | .timeout => True := by
  obtain ⟨hw, hpl⟩ := parseS_wf toks _ _ st hp
  obtain ⟨s, hc, hcode, hdm, _, _, _⟩ := flow_compiler_emits_compileS toks _ ps' st
    { dict := m.dict, heapLen := m.heap.length } hp ⟨rfl, rfl, rfl, rfl⟩ rfl rfl rfl rfl
  refine ⟨s, hc, by simpa using hdm, ?_⟩
  exact compiled_code_means_what_the_source_says np st f _ hw hpl hsize (by simpa using hcode) hip
    ⟨hwf.ds, hwf.rs, hwf.ls, hwf.ss⟩ hlim

open Xeh.Compile in
/-- non-vacuity: `: sq local x x x * ; 5 0 do I 3 == if break then I sq 1 case 1 of 7 endof endcase loop` — a
    definition with a local, a `break` inside a conditional inside a counted loop, a call, a case with one arm — is
    accepted by `parseS` (the only hypothesis about the program; `Match2` holds for the empty compiler state by `rfl`) -/
example :
    let dict : List (String × Entry) := [("do", .native true "do"), ("loop", .native true "loop"), ("if", .native true "if"),
      ("then", .native true "then"), ("break", .native true "break"), ("case", .native true "case"), ("of", .native true "of"),
      ("endof", .native true "endof"), ("endcase", .native true "endcase"), ("I", .native false "I"), ("==", .native false "=="),
      (":", .native true ":"), (";", .native true ";"), ("local", .native true "local"), ("*", .native false "*")]
    let toks : List Tok := [.word ":", .word "sq", .word "local", .word "x", .word "x", .word "x", .word "*", .word ";",
      .lit (.int 5), .lit (.int 0), .word "do", .word "I", .lit (.int 3), .word "==", .word "if", .word "break",
      .word "then", .word "I", .word "sq", .lit (.int 1), .word "case", .lit (.int 1), .word "of", .lit (.int 7), .word "endof",
      .word "endcase", .word "loop"]
    (parseS toks { dict := dict, heapLen := 0 }).isSome = true := by decide +kernel

/-! ### the same, through `eval` — the session model's `build_from_source` -/

/-- a successful step is a step of a running machine (beyond the end of the code `fetch_and_run` panics) -/
theorem step_ok_running (np : String → Option Prog) (m m' : Mach) (o : Outcome Unit) (h : step np m = (o, m'))
    (ho : ∀ p, o ≠ .panic p) (hl : m.insnLimit = none) : m.isRunning = true := by
  unfold step at h
  simp only [meterIncrease, hl] at h
  split at h
  · rename_i hn
    cases h
    exact absurd rfl (ho _)
  all_goals (rename_i hop; simp only [isRunning]; have := List.getElem?_eq_some_iff.mp hop |>.1 ; simpa using this)

/-- all machines on the way of `n` successful steps are running -/
theorem stepN_running (np : String → Option Prog) : ∀ (n : Nat) (m mv : Mach), m.insnLimit = none → C02.stepN np n m = some mv →
    ∀ j mj, j < n → C02.stepN np j m = some mj → mj.isRunning = true := by
  intro n
  induction n with
  | zero => intro m mv _ _ j mj hj; omega
  | succ n ih =>
    intro m mv hl h j mj hj hmj
    simp only [C02.stepN] at h
    split at h
    · rename_i m1 hs
      cases j with
      | zero => cases hmj; exact step_ok_running np _ m1 (.ok ()) hs (fun p hp => by cases hp) hl
      | succ j =>
        simp only [C02.stepN, hs] at hmj
        have hl1 : m1.insnLimit = none := by
          have := (Mach.step_mle np m).limit; rw [hs] at this; rw [this]; exact hl
        exact ih m1 mv hl1 h j mj (by omega) hmj
    · cases h

/-- a failing instruction leaves the instruction pointer on itself (restated from Props/C17.lean, which builds on this file) -/
theorem failing_step_keeps_ip (np : String → Option Prog) (m : Mach) (w : WF m) (h : (step np m).1 ≠ .ok ()) :
    (step np m).2.ctx.ip = m.ctx.ip := by
  have sh := step_shape np m w
  cases sh with
  | early hc _ _ _ _ _ =>
    have := congrArg Core.ctx hc
    simp only [core] at this
    rw [this]
  | exec m0 p s =>
    have h0 : m0.ctx = m.ctx := by have := congrArg Core.ctx p.core; simpa [core] using this
    cases s with
    | fail seg mp r e ne => rw [e, r.ctx, h0]
    | done seg mp n r e => rw [e] at h; exact absurd rfl h

/-- stack floors and the length of the code survive any number of successful steps -/
theorem stepN_sealed (np : String → Option Prog) : ∀ (n : Nat) (m mv : Mach), WF m → C02.stepN np n m = some mv →
    WF mv ∧ mv.code.length = m.code.length := by
  intro n
  induction n with
  | zero => intro m mv w h; cases h; exact ⟨w, rfl⟩
  | succ n ih =>
    intro m mv w h
    simp only [C02.stepN] at h
    have hs := step_sealed np m w
    split at h
    · rename_i m1 heq
      rw [heq] at hs
      obtain ⟨a, b⟩ := ih m1 mv hs.wf h
      exact ⟨a, b.trans hs.codeLen⟩
    · cases h

open Xeh.Session Xeh.Session.Sess in
/-- **`eval` of a structured source means what the source says.**  A fresh interpreter session `s` — no code yet,
    nothing pending, in eval mode, no instruction or heap limit; any dictionary, any data stack, any variables — is given
    the tokens through `build_from_source` in eval mode (what `Xstate::eval` does).  `st` is the tree `parseS` reads off
    the tokens.  If the structural evaluator finishes (`ok`): for all sufficient fuel, `eval` answers *done* and the
    session's machine agrees with the evaluator's (data stack, variables, output, loop/return/builder stacks: `normX`),
    with the debug map of the tree.  If the evaluator fails at token `tok` with an error that is not one of the
    model's gap markers: `eval` answers *failed* with the same error, the machine agrees, and the debug map entry under
    the instruction pointer is `tok`. -/
theorem eval_means_what_the_source_says (toks : List Compile.Tok) (s : Sess) (f : Nat) (st : Stmt) (ps' : PState)
    (hcode : s.m.code = []) (hdmap : s.dmap = []) (hflows : s.flows = []) (hmode : s.m.ctx.mode = .eval)
    (hwf : WF s.m) (hlim : s.m.insnLimit = none) (hhl : s.m.heapLimit = none)
    (hp : parseS toks { dict := s.m.dict, heapLen := s.m.heap.length } = some (st, ps')) (hsize : size st < 2^62) :
    ∃ m1 : Mach, m1.ds = s.m.ds ∧ m1.code = codeOf st ∧
      match evalS nativeProg (tabOf st) f st m1 with
      | .ok m' => ∃ n, ∀ k, ∃ mv, normX mv = normX m' ∧
          s.buildSource (n + k) .eval toks =
            .done { s with m := { mv with ctx := { s.m.ctx with ip := mv.ctx.ip } }, dmap := dmapOf st, lastTok := toks.length }
      | .err e tok m' => isModelGap (.err e : Outcome Unit) = false → ∃ n, ∀ k, ∃ mv, normX mv = normX m' ∧
          (dmapOf st)[mv.ctx.ip]? = some tok ∧
          s.buildSource (n + k) .eval toks = .failed e { s with m := mv, dmap := dmapOf st, lastTok := toks.length }
      | _ => True := by
  -- the machine `eval` runs the program on: the session's machine under the context `eval` opens (with what the build
  -- logged forgotten: `forgetBuildLog` touches the reverse log only)
  have hwf0 : WF (forgetBuildLog s.m (s.contextOpen .eval).m) := by
    refine ⟨?_, Nat.le_refl _, Nat.le_refl _, Nat.le_refl _⟩
    simp only [forgetBuildLog, Sess.contextOpen, hmode, if_true]
    exact hwf.ds
  have hip0 : (forgetBuildLog s.m (s.contextOpen .eval).m).ctx.ip = 0 := by simp [forgetBuildLog, Sess.contextOpen, hcode]
  obtain ⟨sc, hc, hd, hrest⟩ := source_means_what_it_says nativeProg toks (forgetBuildLog s.m (s.contextOpen .eval).m) f st ps' hip0 hwf0
    hlim hp hsize
  obtain ⟨sc2, hc2, hcode2, _, _, _, hfl2⟩ := flow_compiler_emits_compileS toks _ ps' st
    { dict := s.m.dict, heapLen := s.m.heap.length } hp ⟨rfl, rfl, rfl, rfl⟩ rfl rfl rfl rfl
  have hsc : sc2 = sc := by
    have : Compile.CRes.ok sc2 = Compile.CRes.ok sc := hc2.symm.trans hc
    cases this; rfl
  subst hsc
  have hbk : ∀ fuel, (s.contextOpen .eval).build1 fuel toks =
      .ok { ((s.contextOpen .eval).fromC sc2) with lastTok := toks.length } :=
    fun fuel => build1_fresh fuel .eval (by decide) toks s sc2 hcode hdmap hflows hhl hc hfl2
  refine ⟨forgetBuildLog s.m ((s.contextOpen .eval).fromC sc2).m, rfl, by simpa [Sess.fromC, forgetBuildLog] using hcode2, ?_⟩
  have hm1 : forgetBuildLog s.m ((s.contextOpen .eval).fromC sc2).m = { forgetBuildLog s.m (s.contextOpen .eval).m with code := sc2.code, dict := sc2.dict, heap := (forgetBuildLog s.m (s.contextOpen .eval).m).heap ++ List.replicate (sc2.heapLen - (forgetBuildLog s.m (s.contextOpen .eval).m).heap.length) Cell.nil } := rfl
  simp only at hrest
  rw [← hm1] at hrest
  have hl1 : (forgetBuildLog s.m ((s.contextOpen .eval).fromC sc2).m).insnLimit = none := hlim
  -- what `build_from_source` does once the tokens are read
  have hbs : ∀ fuel, s.buildSource fuel .eval toks =
      match ({ ((s.contextOpen .eval).fromC sc2) with m := forgetBuildLog s.m ((s.contextOpen .eval).fromC sc2).m, lastTok := toks.length, nested := s.nested } : Sess).runS fuel with
      | .ok s3 => .done { s3 with m := { s3.m with ctx := { s.m.ctx with ip := s3.m.ctx.ip } } }
      | .err e s3 => .failed e s3
      | .panic p s3 => .panic p s3
      | .unsupported u => .unsupported u
      | .timeout => .timeout := by
    intro fuel
    unfold Sess.buildSource
    simp only [hbk fuel]
    have hcu : ((s.contextOpen .eval).fromC sc2).constUndo = s.constUndo := rfl
    simp only [hcu, Nat.sub_self, List.drop_zero]
    have hn : ((s.contextOpen .eval).fromC sc2).nested = s.m.ctx :: s.nested := rfl
    have hmd : (forgetBuildLog s.m ((s.contextOpen .eval).fromC sc2).m).ctx.mode = .eval := rfl
    simp only [Sess.contextClose, hn, hmd, hmode, if_true]
    cases Sess.runS fuel _ <;> rfl
  have hwf1 : WF (forgetBuildLog s.m ((s.contextOpen .eval).fromC sc2).m) := ⟨hwf0.ds, hwf0.rs, hwf0.ls, hwf0.ss⟩
  have hcl0 : (forgetBuildLog s.m ((s.contextOpen .eval).fromC sc2).m).code.length = (codeOf st).length := by
    have : (forgetBuildLog s.m ((s.contextOpen .eval).fromC sc2).m).code = codeOf st := by simpa [Sess.fromC, forgetBuildLog] using hcode2
    rw [this]
  have hfl0 : ((s.contextOpen .eval).fromC sc2).flows = s.flows := by
    simp [Sess.fromC, Sess.hidden, Sess.visLen, Sess.contextOpen, hflows, hfl2]
  have hdm0 : ((s.contextOpen .eval).fromC sc2).dmap = dmapOf st := by simpa [Sess.fromC] using hd
  split
  · -- the evaluator finishes
    rename_i m' heq
    rw [heq] at hrest
    obtain ⟨n, mv, h1, h2, h3⟩ := hrest
    refine ⟨n, fun k => ⟨mv, h3, ?_⟩⟩
    have hcl := (stepN_sealed nativeProg n _ mv hwf1 h1).2
    have hrun := C15.run_eq_steps nativeProg n k _ mv h1 (stepN_running nativeProg n _ mv hl1 h1)
      (by simp [isRunning, h2, hcl, hcl0])
    rw [hbs (n + k)]
    simp only [Sess.runS, hrun]
    simp only [hfl0, hdm0]
    rfl
  · -- the evaluator fails
    rename_i e tok m' heq
    rw [heq] at hrest
    obtain ⟨n, mv, mv', h1, h2, h3, h4⟩ := hrest
    intro hgap
    have hlv : mv.insnLimit = none := by
      have key : ∀ (n : Nat) (a b : Mach), a.insnLimit = none → C02.stepN nativeProg n a = some b → b.insnLimit = none := by
        intro n
        induction n with
        | zero => intro a b ha hb; cases hb; exact ha
        | succ n ih =>
          intro a b ha hb
          simp only [C02.stepN] at hb
          split at hb
          · rename_i a1 hs
            have := (Mach.step_mle nativeProg a).limit; rw [hs] at this
            exact ih a1 b (by rw [this]; exact ha) hb
          · cases hb
      exact key n _ mv hl1 h1
    have hrv : mv.isRunning = true := step_ok_running nativeProg mv mv' (.err e) h2 (fun p hp => by cases hp) hlv
    have hrun := C15.run_eq_steps_err nativeProg n 0 _ mv (.err e, mv') h1
      (fun j mj hj hmj => by
        rcases Nat.lt_or_eq_of_le hj with hlt | heq'
        · exact stepN_running nativeProg n _ mv hl1 h1 j mj hlt hmj
        · subst heq'; rw [h1] at hmj; cases hmj; exact hrv)
      h2 (by intro h; cases h)
    have hwv := (stepN_sealed nativeProg n _ mv hwf1 h1).1
    have hipv : mv'.ctx.ip = mv.ctx.ip := by
      have := failing_step_keeps_ip nativeProg mv hwv (by rw [h2]; intro h; cases h)
      rw [h2] at this; exact this
    refine ⟨n + 1, fun k => ⟨mv', h3, by rw [hipv]; exact h4, ?_⟩⟩
    have hrun' : Mach.run nativeProg (n + 1 + k) (forgetBuildLog s.m ((s.contextOpen .eval).fromC sc2).m) = some (.err e, mv') := by
      have := C15.run_eq_steps_err nativeProg n k _ mv (.err e, mv') h1
        (fun j mj hj hmj => by
          rcases Nat.lt_or_eq_of_le hj with hlt | heq'
          · exact stepN_running nativeProg n _ mv hl1 h1 j mj hlt hmj
          · subst heq'; rw [h1] at hmj; cases hmj; exact hrv)
        h2 (by intro h; cases h)
      exact this
    rw [hbs (n + 1 + k)]
    simp only [Sess.runS, hrun', hgap, Bool.false_eq_true, if_false]
    simp only [hfl0, hdm0]
    rfl
  all_goals trivial

/-- the hypotheses about the session are satisfiable: the empty session -/
example : ({} : Session.Sess).m.code = [] ∧ ({} : Session.Sess).dmap = [] ∧ ({} : Session.Sess).flows = [] ∧
    ({} : Session.Sess).m.ctx.mode = .eval ∧ WF ({} : Session.Sess).m ∧ ({} : Session.Sess).m.insnLimit = none ∧
    ({} : Session.Sess).m.heapLimit = none :=
  ⟨rfl, rfl, rfl, rfl, ⟨Nat.le_refl _, Nat.le_refl _, Nat.le_refl _, Nat.le_refl _⟩, rfl, rfl⟩

end Xeh.C01
