/-
C01 — structured control flow compiles to bytecode that means what the source says.      (PARTIAL, growing)

Three models (DESIGN Appendix B):
  (1) the faithful flow-stack compiler with backpatching (Model/Compile.lean) + the VM (Model/VM.lean) —
      tied to the code by `C01 build` / `C01 eval` correspondence (identical bytecode, debug map, error and
      token; identical machine after running);
  (2) the structural reading: `parseS` (tokens → syntax tree), `compileS` (a compositional compiler, no flow
      stack, no backpatching), `evalS` (a direct big-step evaluator that never looks at an instruction pointer,
      a jump distance or bytecode) — Model/Structured.lean, Model/ParseS.lean.
What is decided how:
  * `compileS (parseS toks)` = the flow-stack compiler's bytecode and debug map: checked per generated program
    by the driver (`C01 struct`, translation validation), not yet a theorem for all programs;
  * VM run of that bytecode = `evalS` of the tree (same stack, variables, output, or same error at the same
    token): theorems below for the fragment proved so far, `C01 struct` for every generated program.
Theorems here (all programs of the structured fragment, all machines, all fuel):
  * `compileS_length` — the compositional compiler emits exactly `size` opcodes (every jump distance in
    `compileS` is computed from `size`, so this is the well-formedness of all of them);
  * `no_stray_break` — a statement in a context where `break` is not allowed never evaluates to a travelling
    break; `counted_loop_never_breaks_out` — a counted loop absorbs every break of its body;
  * `endless_repeat_never_falls_through`, `endless_until_never_falls_through` — "a loop that structurally
    never terminates never falls through": `begin … repeat` without `break` and `begin … false until`
    never produce a normal completion, whatever the body does and however long it runs.
-/
import XehModel.Model.Structured
import XehModel.Model.ParseS

namespace Xeh.C01
open Xeh Xeh.Mach Xeh.Structured

/-- the compositional compiler emits exactly `size st` opcodes, in every context -/
theorem compileS_length (st : Stmt) : ∀ (bk : BK) (ce : Option Nat), (compileS st bk ce).length = size st := by
  induction st with
  | skip => intro _ _; rfl
  | op t o => intro _ _; rfl
  | seq a b iha ihb => intro bk ce; simp [compileS, size, iha, ihb]
  | ifThen t a ih => intro bk ce; simp [compileS, size, ih]; omega
  | ifElse t te a b iha ihb => intro bk ce; simp [compileS, size, iha, ihb]; omega
  | untilLoop t a ih => intro bk ce; simp [compileS, size, ih]
  | whileLoop tw tr c a ihc iha => intro bk ce; simp [compileS, size, ihc, iha]; omega
  | repeatLoop tr a ih => intro bk ce; simp [compileS, size, ih]
  | doLoop td tl a ih => intro bk ce; simp [compileS, size, ih]; omega
  | brk t => intro bk ce; cases bk <;> rfl
  | caseS a ih => intro bk ce; simp [compileS, size, ih]
  | arm tOf tEndof body ih => intro bk ce; simp [compileS, size, ih]; omega

def NoBrk (r : Res) : Prop := ∀ t m, r ≠ .brk t m

theorem ofR_noBrk {α : Type} (r : R α) (tok : Nat) (k : α → Mach → Res) (h : ∀ a m, NoBrk (k a m)) : NoBrk (ofR r tok k) := by
  unfold ofR
  split
  · exact h _ _
  · intro t m e; cases e
  · intro t m e; cases e

theorem noBrk_ok (m : Mach) : NoBrk (.ok m) := fun _ _ e => by cases e
theorem noBrk_timeout : NoBrk .timeout := fun _ _ e => by cases e

/-- neither a statement evaluated where `break` is not allowed, nor the iterations of a counted loop, ever
    hand a travelling `break` to their surroundings -/
theorem no_brk_aux (np : String → Option Prog) : ∀ f,
    (∀ st m r, WFS st false r = true → NoBrk (evalS np f st m)) ∧ (∀ tl a m, NoBrk (doIter np f tl a m)) := by
  intro f
  induction f with
  | zero => exact ⟨fun _ _ _ _ => by simp only [evalS]; exact noBrk_timeout, fun _ _ _ => by simp only [doIter]; exact noBrk_timeout⟩
  | succ f ih =>
    obtain ⟨ihE, ihD⟩ := ih
    refine ⟨fun st m r hw => ?_, fun tl a m => ?_⟩
    · cases st with
      | skip => simp only [evalS]; exact noBrk_ok m
      | op t o => simp only [evalS]; exact ofR_noBrk _ _ _ (fun _ m => noBrk_ok m)
      | seq a b =>
        simp only [WFS, Bool.and_eq_true] at hw
        simp only [evalS]
        have ha := ihE a m r hw.1
        split
        · exact ihE b _ r hw.2
        · exact ha
      | ifThen t a =>
        simp only [WFS] at hw
        simp only [evalS]
        exact ofR_noBrk _ _ _ (fun c m => by split; exact ihE a m false hw; exact noBrk_ok m)
      | ifElse t te a b =>
        simp only [WFS, Bool.and_eq_true] at hw
        simp only [evalS]
        exact ofR_noBrk _ _ _ (fun c m => by split; exact ihE a m false hw.1; exact ihE b m false hw.2)
      | untilLoop t a =>
        simp only [WFS] at hw
        simp only [evalS]
        have ha := ihE a m false hw
        split
        · exact ofR_noBrk _ _ _ (fun c m => by split; exact noBrk_ok m; exact ihE (.untilLoop t a) m r (by simpa [WFS] using hw))
        · exact ha
      | whileLoop tw tr c a =>
        simp only [evalS]
        have hc : WFS c false false = true := by simp only [WFS, Bool.and_eq_true] at hw; exact hw.1
        have hcn := ihE c m false hc
        split
        · refine ofR_noBrk _ _ _ (fun b m => ?_)
          split
          · split
            · exact ihE (.whileLoop tw tr c a) _ r hw
            · exact noBrk_ok _
            · rename_i r1 hne1 hne2
              intro t2 m2 e2
              exact hne2 t2 m2 e2
          · exact noBrk_ok m
        · exact hcn
      | repeatLoop tr a =>
        simp only [evalS]
        split
        · exact ihE (.repeatLoop tr a) _ r hw
        · exact noBrk_ok _
        · rename_i r1 hne1 hne2
          intro t2 m2 e2
          exact hne2 t2 m2 e2
      | doLoop td tl a =>
        simp only [evalS]
        exact ofR_noBrk _ _ _ (fun l m => by split; exact ihD tl a _; exact noBrk_ok m)
      | brk t => simp [WFS] at hw
      | caseS a =>
        simp only [WFS] at hw
        simp only [evalS]
        have ha := ihE a m true hw
        split
        · exact noBrk_ok _
        · exact ha
      | arm tOf tEndof body =>
        simp only [WFS, Bool.and_eq_true] at hw
        simp only [evalS]
        refine ofR_noBrk _ _ _ (fun hit m => ?_)
        split
        · have hb := ihE body m false hw.2
          split
          · intro t m e; cases e
          · exact hb
        · exact noBrk_ok m
    · simp only [doIter]
      split
      · refine ofR_noBrk _ _ _ (fun more m => ?_)
        split
        · exact ihD tl a m
        · exact ofR_noBrk _ _ _ (fun _ m => noBrk_ok m)
      · exact ofR_noBrk _ _ _ (fun _ m => noBrk_ok m)
      · rename_i r1 hne1 hne2
        intro t2 m2 e2
        exact hne2 t2 m2 e2

/-- a statement in a context where `break` is not allowed never evaluates to a travelling break -/
theorem no_stray_break (np : String → Option Prog) (f : Nat) (st : Stmt) (m : Mach) (r : Bool)
    (hw : WFS st false r = true) : NoBrk (evalS np f st m) := (no_brk_aux np f).1 st m r hw

/-- a counted loop absorbs every `break` of its body -/
theorem counted_loop_never_breaks_out (np : String → Option Prog) (f : Nat) (tl : Nat) (a : Stmt) (m : Mach) :
    NoBrk (doIter np f tl a m) := (no_brk_aux np f).2 tl a m

def NoOk (r : Res) : Prop := ∀ m, r ≠ .ok m

/-- "a loop that structurally never terminates never falls through": `begin body repeat` whose body
    contains no `break` for this loop never completes normally — for every body, machine and amount of fuel
    (it fails, or it is still running when any finite budget is exhausted) -/
theorem endless_repeat_never_falls_through (np : String → Option Prog) (tr : Nat) (a : Stmt)
    (hw : WFS a false false = true) : ∀ (f : Nat) (m : Mach), NoOk (evalS np f (.repeatLoop tr a) m) := by
  intro f
  induction f with
  | zero => intro m m' e; simp only [evalS] at e; cases e
  | succ f ih =>
    intro m m' e
    simp only [evalS] at e
    split at e
    · exact ih _ m' e
    · rename_i t m1 hb
      exact no_stray_break np f a m false hw t m1 hb
    · rename_i r hne1 hne2
      exact hne1 m' e

/-- `begin body false until` never completes normally either -/
theorem endless_until_never_falls_through (np : String → Option Prog) (t t' : Nat) (a : Stmt) :
    ∀ (f : Nat) (m : Mach), NoOk (evalS np f (.untilLoop t (.seq a (.op t' (.loadCell (.flag false))))) m) := by
  intro f
  induction f with
  | zero => intro m m' e; simp only [evalS] at e; cases e
  | succ f ih =>
    intro m m' e
    simp only [evalS] at e
    split at e
    · rename_i m2 hbody
      -- the body ended normally: its last action pushed `false`
      cases f with
      | zero => simp only [evalS] at hbody; cases hbody
      | succ f1 =>
        simp only [evalS] at hbody
        split at hbody
        · rename_i m1 ha
          cases f1 with
          | zero => simp only [evalS] at hbody; cases hbody
          | succ f2 =>
            simp only [evalS, ofR, straightEff] at hbody
            split at hbody
            · rename_i u m3 hpush
              cases hbody
              -- m2 = m3 has `false` on top
              have htop : ∃ rest, m2.ds = Cell.flag false :: rest ∧ m2.ctx = m1.ctx ∧ rest = m1.ds := by
                unfold Mach.pushData at hpush
                split at hpush
                · split at hpush
                  · cases hpush
                  · cases hpush; exact ⟨_, rfl, rfl, rfl⟩
                · cases hpush; exact ⟨_, rfl, rfl, rfl⟩
              obtain ⟨rest, hds, _, _⟩ := htop
              simp only [ofR, popCond, Mach.popData, hds] at e
              split at e
              · rename_i c m4 hpc
                split at hpc
                · rename_i c2 m5 hpd
                  split at hpd
                  · cases hpd
                    simp only [Cell.condTrue] at hpc
                    cases hpc
                    simp only [Bool.false_eq_true, if_false] at e
                    exact ih _ m' e
                  · cases hpd
                · cases hpc
                · cases hpc
              · cases e
              · cases e
            · cases hbody
            · cases hbody
        · rename_i r hne
          exact hne m2 hbody
    · rename_i r hne
      exact hne m' e

end Xeh.C01
