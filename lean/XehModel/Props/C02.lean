/-
C02 — reverse stepping exactly undoes forward stepping, and replay reproduces it.

Model: Model/VM.lean (`step` = fetch_and_run, `next`, `rnext`, `undoC` = reverse_changes). The
"complete machine state" of the property — instruction pointer, data stack (visible and hidden
part), call frames with their locals, loop indices, vector-builder marks and every variable — is
`Mach.core`; the reverse log itself is restored as well.

All theorems hold for **every** word table `np` (every native word is an arbitrary program over the
interpreter's primitives, `Prog`), every opcode, every machine satisfying the structural invariant
`WF` (context marks do not exceed the stacks), and every history.

Not carried by `rnext` (and not claimed by the property): the instruction meter, captured stdout and
the in-place patch of a late-bound `Resolve` opcode are not rewound.
-/
import XehModel.Proofs.VMRev2
import XehModel.Proofs.VMSim2
import XehModel.Proofs.SessionUnwind
import XehModel.Props.C10

namespace Xeh.C02
open Xeh Xeh.Mach

variable (np : String → Option Prog)

/-- a successful step has the shape: (meter / late-binding patch), reversible effects, one `SetIp` -/
theorem step_ok_shape (m m' : Mach) (w : WF m) (h : step np m = (.ok (), m')) :
    ∃ m0 seg mp n, Pre m m0 ∧ Rev m0 mp seg ∧ m' = mp.setIp n := by
  have sh := step_shape np m w
  rw [h] at sh
  cases sh with
  | early _ _ ne _ _ _ => exact absurd rfl ne
  | exec m0 p s =>
    cases s with
    | fail seg mp r e ne => exact absurd rfl ne
    | done seg mp n r e => exact ⟨m0, seg, mp, n, p, r, (Prod.mk.inj e).2⟩

/-- One backward step after one forward step restores the machine and the log. -/
theorem rnext_step (m m' : Mach) (ℓ : List RStep) (w : WF m) (hl : m.log = some ℓ) (hℓ : LogHead ℓ)
    (h : step np m = (.ok (), m')) :
    (rnext m').1 = .ok () ∧ (rnext m').2.core = m.core ∧ (rnext m').2.log = some ℓ := by
  obtain ⟨m0, seg, mp, n, p, r, e⟩ := step_ok_shape np m m' w h
  subst e
  have hl0 : m0.log = some ℓ := by rw [p.log, hl]
  have hlog : (mp.setIp n).log = some (.setIp mp.ctx.ip :: (seg ++ ℓ)) := by
    simp [setIp, logStep, r.log ℓ hl0]
  have hcore : undoC (mp.setIp n).core (.setIp mp.ctx.ip) = (.ok (), mp.core) := by
    simp [undoC, setIp, core, logStep]
  have hseg := undoSeg_app seg ℓ mp.core m0.core r.noSetIp r.undo hℓ
  unfold rnext
  rw [hlog]
  simp only [rnextC, hcore, hseg]
  rw [p.core]
  simp [setCore, core]

/-- the two invariants the statement above needs are re-established by every successful step, so it
    can be iterated -/
theorem step_invariants (m m' : Mach) (ℓ : List RStep) (w : WF m) (hl : m.log = some ℓ)
    (h : step np m = (.ok (), m')) :
    WF m' ∧ ∃ ℓ', m'.log = some ℓ' ∧ LogHead ℓ' := by
  obtain ⟨m0, seg, mp, n, p, r, e⟩ := step_ok_shape np m m' w h
  subst e
  have hl0 : m0.log = some ℓ := by rw [p.log, hl]
  have := r.wf (p.wf w)
  exact ⟨⟨this.ds, this.rs, this.ls, this.ss⟩, .setIp mp.ctx.ip :: (seg ++ ℓ),
    by simp [setIp, logStep, r.log ℓ hl0], by simp [LogHead, isSetIp]⟩

/-- A step that **fails** midway leaves a log whose new entries, undone most-recent-first, restore
    the core the step started from (the partial effects of the failing instruction are exactly what
    was logged; no `SetIp` was logged, the instruction pointer did not move). -/
theorem failed_step_undo (m m' : Mach) (ℓ : List RStep) (e : Xerr) (w : WF m) (hl : m.log = some ℓ)
    (h : step np m = (.err e, m')) :
    ∃ seg, m'.log = some (seg ++ ℓ) ∧ (∀ s ∈ seg, isSetIp s = false) ∧ undoList seg m'.core = .ok m.core := by
  have sh := step_shape np m w
  rw [h] at sh
  cases sh with
  | early hc hlog _ _ _ _ => exact ⟨[], by simpa [hl] using hlog, by simp, by simp [undoList]; exact hc⟩
  | exec m0 p s =>
    cases s with
    | fail seg mp r e' ne =>
      simp only at e'; subst e'
      exact ⟨seg, r.log ℓ (by rw [p.log, hl]), r.noSetIp, by rw [← p.core]; exact r.undo⟩
    | done seg mp n r e' => cases e'

/-- `rnext` reads and writes only the core and the log -/
theorem rnext_congr (a b : Mach) (hc : a.core = b.core) (hl : a.log = b.log) :
    (rnext a).1 = (rnext b).1 ∧ (rnext a).2.core = (rnext b).2.core ∧ (rnext a).2.log = (rnext b).2.log := by
  unfold rnext
  rw [hl, hc]
  cases b.log with
  | none => exact ⟨rfl, hc, hl ▸ rfl⟩
  | some l => exact ⟨rfl, rfl, rfl⟩

/-- n successful forward steps -/
def stepN : Nat → Mach → Option Mach
  | 0, m => some m
  | n + 1, m =>
    match step np m with
    | (.ok (), m') => stepN n m'
    | _ => none

/-- k successful backward steps -/
def rnextN : Nat → Mach → Option Mach
  | 0, m => some m
  | k + 1, m =>
    match rnext m with
    | (.ok (), m') => rnextN k m'
    | _ => none

theorem rnextN_congr (k : Nat) (a b : Mach) (hc : a.core = b.core) (hl : a.log = b.log) :
    (∀ a', rnextN k a = some a' → ∃ b', rnextN k b = some b' ∧ a'.core = b'.core ∧ a'.log = b'.log) := by
  induction k generalizing a b with
  | zero => intro a' h; simp [rnextN] at h; subst h; exact ⟨b, rfl, hc, hl⟩
  | succ k ih =>
    intro a' h
    have ⟨c1, c2, c3⟩ := rnext_congr a b hc hl
    simp only [rnextN] at h ⊢
    cases ha : rnext a with
    | mk oa ma =>
      cases hb : rnext b with
      | mk ob mb =>
        rw [ha] at h c1 c2 c3; rw [hb] at c1 c2 c3
        simp only at c1 c2 c3
        subst c1
        cases oa with
        | ok u => exact ih ma mb c2 c3 a' h
        | err e => simp at h
        | panic p => simp at h

theorem rnextN_succ (n : Nat) (m : Mach) :
    rnextN (n + 1) m = (match rnextN n m with | some x => rnextN 1 x | none => none) := by
  induction n generalizing m with
  | zero => simp [rnextN]
  | succ n ih =>
    simp only [rnextN]
    cases hr : rnext m with
    | mk o x =>
      cases o with
      | ok u => simpa [rnextN] using ih x
      | err e => simp
      | panic p => simp

/-- **Main theorem.** After any number `n` of forward steps, `k ≤ n` backward steps restore the
    machine (core and log) to exactly what it was `k` steps earlier — for every program, every word
    table, every n and k. -/
theorem rewind (n k : Nat) (hk : k ≤ n) (m mn : Mach) (ℓ : List RStep) (w : WF m)
    (hl : m.log = some ℓ) (hℓ : LogHead ℓ) (hn : stepN np n m = some mn) :
    ∃ mid back, stepN np (n - k) m = some mid ∧ rnextN k mn = some back ∧
      back.core = mid.core ∧ back.log = mid.log := by
  induction n generalizing m ℓ k with
  | zero =>
    have : k = 0 := by omega
    subst this
    simp [stepN] at hn; subst hn
    exact ⟨m, m, rfl, rfl, rfl, rfl⟩
  | succ n ih =>
    simp only [stepN] at hn
    split at hn
    · rename_i m1 hs
      obtain ⟨w1, ℓ1, hl1, hℓ1⟩ := step_invariants np m m1 ℓ w hl hs
      by_cases hkn : k ≤ n
      · obtain ⟨mid, back, h1, h2, h3, h4⟩ := ih k hkn m1 ℓ1 w1 hl1 hℓ1 hn
        refine ⟨mid, back, ?_, h2, h3, h4⟩
        have : n + 1 - k = (n - k) + 1 := by omega
        rw [this]; simp [stepN, hs, h1]
      · have hk' : k = n + 1 := by omega
        subst hk'
        -- rewind n steps back to m1, then one more step back to m
        obtain ⟨mid, back, h1, h2, h3, h4⟩ := ih n (Nat.le_refl n) m1 ℓ1 w1 hl1 hℓ1 hn
        simp [stepN] at h1; subst h1
        obtain ⟨r1, r2, r3⟩ := rnext_step np m m1 ℓ w hl hℓ hs
        have ⟨c1, c2, c3⟩ := rnext_congr back m1 h3 h4
        refine ⟨m, (rnext back).2, by simp [stepN], ?_, by rw [c2, r2], by rw [c3, r3, hl]⟩
        rw [rnextN_succ, h2]
        simp only [rnextN]
        cases hb : rnext back with
        | mk ob xb =>
          rw [hb] at c1; rw [r1] at c1
          simp only at c1
          subst c1
          rfl
    · cases hn

/-! ### replay -/

/-- **Replay, general form.** Two machines that agree on everything except the reverse log, the
    instruction meter, captured stdout and the about-to-stop flag execute the same steps: the same
    number of steps succeed and the machines agree again (in particular on the whole core) after
    every one of them. (No instruction limit: with a limit the meter is an input of `step`.) -/
theorem replay (n : Nat) (a b a' : Mach) (w : WF a) (h : normAll a = normAll b) (hl : a.insnLimit = none)
    (hn : stepN np n a = some a') : ∃ b', stepN np n b = some b' ∧ normAll a' = normAll b' := by
  induction n generalizing a b with
  | zero => simp [stepN] at hn; subst hn; exact ⟨b, rfl, h⟩
  | succ n ih =>
    simp only [stepN] at hn ⊢
    have hs := NormAll.step_sim np a b h hl
    have hf := step_frame np a w
    revert hs hf
    generalize step np a = ra at hn ⊢
    generalize step np b = rb
    obtain ⟨oa, ma⟩ := ra
    obtain ⟨ob, mb⟩ := rb
    rintro ⟨h1, h2⟩ hf
    simp only at h1 h2
    subst h1
    cases oa with
    | ok u => exact ih ma mb hf.2.2.2.2.2 h2 (by rw [hf.1.1, hl]) hn
    | err e => simp at hn
    | panic p => simp at hn

/-- `rnext` changes nothing but the core and the log -/
theorem rnext_static (m : Mach) : normAll ((rnext m).2.setCore m.core) = normAll m := by
  unfold rnext
  split
  · rfl
  · rfl

/-- **Rewind, then replay.** Rewind k of n steps; from the rewound machine, stepping forward again
    goes through machines with exactly the cores of the original execution, for as many steps as the
    original took (and beyond). Hypotheses: no instruction limit, and no late-bound `Resolve` was
    patched between the two points (`hcode`: the code is the same) — both are exercised without
    these restrictions by the correspondence check. -/
theorem rewind_replay (j : Nat) (mid back x : Mach) (w : WF mid)
    (hcore : back.core = mid.core) (hstatic : normAll (back.setCore mid.core) = normAll mid)
    (hl : mid.insnLimit = none) (hj : stepN np j mid = some x) :
    ∃ y, stepN np j back = some y ∧ y.core = x.core := by
  have hb : normAll mid = normAll back := by
    rw [← hstatic]
    have : back.setCore mid.core = back := by rw [← hcore]; rfl
    rw [this]
  obtain ⟨y, hy, hn⟩ := replay np j mid back x w hb hl hj
  refine ⟨y, hy, ?_⟩
  have key : ∀ p q : Mach, normAll p = normAll q → p.core = q.core := by
    intro p q h
    cases p; cases q
    simp only [normAll, Mach.mk.injEq, true_and, and_true] at h
    obtain ⟨h1, h2, h3, h4, h5, h6, h7, h8, h9, h10, h11⟩ := h
    subst_vars
    rfl
  exact (key x y hn).symm

/-! ### where reverse stepping starts: a compiled source leaves nothing of its build in the log -/

open Xeh.Session Xeh.Session.Sess in
/-- **the start of the program is the start of the log's new part.**  Compile a source with recording on — with meta
    blocks that execute while it is read, `const`, results re-emitted as literals: when `compile` returns, the reverse
    log is exactly what it was before (`forget_build_log`, repair fa36941 of /repo).  So the k-th backward step of the
    program undoes the program's k-th last instruction and nothing else, "for every k up to the start": there is no
    build-time entry in front of the first instruction for the last backward step to run into. -/
theorem compile_leaves_the_log_alone (fuel : Nat) (toks : List Compile.Tok) (s s' : Sess) (idle : Idle s)
    (h : s.buildSource fuel .compile toks = .done s') : s'.m.log = s.m.log := by
  have hb := sok_build1 (ext_open idle .compile (by decide)) (by decide) fuel toks
  unfold Sess.buildSource at h
  simp only [] at h
  generalize hg : (s.contextOpen .compile).build1 fuel toks = r at h hb
  cases r with
  | ok s2 =>
    simp only at h
    have e0 : Ext0 s s2 := hb.ext0
    obtain ⟨hmode, hnest⟩ := build1_ok_base fuel toks (by decide) hg hb
    have hmode' : (forgetBuildLog s.m s2.m).ctx.mode = .compile := hmode
    simp only [Sess.contextClose, hnest, hmode'] at h
    cases h
    show (forgetBuildLog s.m s2.m).log = s.m.log
    unfold forgetBuildLog
    cases hl : s.m.log with
    | none => simp [e0.nolog hl]
    | some ℓ =>
      obtain ⟨seg, hseg⟩ := e0.log ℓ hl
      simp [hseg]
  | err e2 s2 => cases h
  | panic p s2 => cases h
  | unsupported u => cases h
  | timeout => cases h

open Xeh.Session Xeh.Session.Sess in
/-- **a source rejected while a program is paused takes nothing away from what can be stepped back.**  The program has
    been stepped forward and back any number of times (the session is whatever that left: `Idle` asks only for
    well-formed context marks, not for a finished program); a source is submitted and rejected — a typo at the prompt.
    By C10's main theorem the machine is what it was, the reverse log included, so every number `k` of backward steps
    afterwards ends in the core state and log it would have ended in without the rejected source (seeded change C02/11
    cleared the log instead of cutting it back to the build mark). -/
theorem rejected_source_keeps_the_history (fuel : Nat) (mode : Mode) (toks : List Compile.Tok) (s s' : Sess) (e : Xerr)
    (idle : Idle s) (hmode : mode ≠ .metaEval) (h : s.buildSource fuel mode toks = .rejected e s') :
    s'.m.log = s.m.log ∧ s'.m.core = s.m.core ∧
    ∀ k back, rnextN k s.m = some back → ∃ back', rnextN k s'.m = some back' ∧ back.core = back'.core ∧ back.log = back'.log := by
  have hr := C10.rejected_source_restores fuel mode toks s s' e idle hmode h
  have hlog : s'.m.log = s.m.log := by rw [hr]
  have hcore : s'.m.core = s.m.core := by rw [hr]; rfl
  exact ⟨hlog, hcore, fun k back hk => rnextN_congr k s.m s'.m hcore.symm hlog.symm back hk⟩

open Xeh.Session Xeh.Session.Sess in
/-- **rewinding a compiled program.**  An idle session, recording on, the log empty or ending in a complete step
    (`LogHead`); a source is compiled — whatever it runs while it is read.  Then the main theorem applies to the
    machine `compile` leaves behind: after any `n` forward steps of the program, `k ≤ n` backward steps restore the
    complete machine state (core and log) of `k` steps earlier — down to `k = n`, the state right after `compile`. -/
theorem compiled_program_rewinds (fuel : Nat) (toks : List Compile.Tok) (s s' : Sess) (ℓ : List RStep) (idle : Idle s)
    (hl : s.m.log = some ℓ) (hℓ : LogHead ℓ) (h : s.buildSource fuel .compile toks = .done s')
    (n k : Nat) (hk : k ≤ n) (mn : Mach) (hn : stepN nativeProg n s'.m = some mn) :
    ∃ mid back, stepN nativeProg (n - k) s'.m = some mid ∧ rnextN k mn = some back ∧
      back.core = mid.core ∧ back.log = mid.log := by
  have hlog := compile_leaves_the_log_alone fuel toks s s' idle h
  have hw : WF s'.m := by
    have hb := sok_build1 (ext_open idle .compile (by decide)) (by decide) fuel toks
    unfold Sess.buildSource at h
    simp only [] at h
    generalize hg : (s.contextOpen .compile).build1 fuel toks = r at h hb
    cases r with
    | ok s2 =>
      simp only at h
      have e0 : Ext0 s s2 := hb.ext0
      obtain ⟨hmode, hnest⟩ := build1_ok_base fuel toks (by decide) hg hb
      have hmode' : (forgetBuildLog s.m s2.m).ctx.mode = .compile := hmode
      simp only [Sess.contextClose, hnest, hmode'] at h
      cases h
      have len_of : ∀ {α : Type} (l x : List α) (n : Nat), hidOf l n = x → x.length = n → n ≤ l.length := by
        intro α l x n e1 e2
        have := congrArg List.length e1
        simp only [hidOf, List.length_drop] at this
        omega
      have w0 := idle.wf
      refine ⟨?_, ?_, ?_, ?_⟩
      · have := len_of _ _ _ e0.ds rfl; exact Nat.le_trans w0.ds this
      · have := len_of _ _ _ e0.rs rfl; exact Nat.le_trans w0.rs this
      · have := len_of _ _ _ e0.loops rfl; exact Nat.le_trans w0.ls this
      · have := len_of _ _ _ e0.special rfl; exact Nat.le_trans w0.ss this
    | err e2 s2 => cases h
    | panic p s2 => cases h
    | unsupported u => cases h
    | timeout => cases h
  exact rewind nativeProg n k hk s'.m mn ℓ hw (by rw [hlog]; exact hl) hℓ hn

/-! ### non-vacuity: a concrete recording machine in the middle of a counted loop with a local -/

def demoCode : List Op :=
  [.call 2, .jump 100, .loadI64 2, .loadI64 0, .doOp 5, .native "I", .initLocal 0, .loadLocal 0, .native "drop", .loopOp (-4), .ret]

def demoNp : String → Option Prog
  | "I" => some (.loopAt 0 fun | some l => .push (.int l.start) .done | none => .fail .loopStackUnderflow)
  | "drop" => some (.pop fun _ => .done)
  | _ => none

def demo0 : Mach := { code := demoCode, log := some [] }

example : WF demo0 := ⟨by decide, by decide, by decide, by decide⟩
example : LogHead ([] : List RStep) := trivial
/-- 11 forward steps succeed from the demo machine (so `rewind` applies with every k ≤ 11); the
    second `InitLocal 0` overwrites the local initialised in the first iteration -/
example : (stepN demoNp 11 demo0).isSome = true := by decide
example : ((stepN demoNp 11 demo0).bind (rnextN 9)).map (·.core) = (stepN demoNp 2 demo0).map (·.core) := by decide

end Xeh.C02
