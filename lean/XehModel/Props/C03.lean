/-
C03 — a cloned interpreter is an independent snapshot; re-running it is deterministic.  (PARTIAL)

What a Lean model can carry and what it cannot (DESIGN §9 C03):

* In the model an interpreter state is an immutable value, so "the snapshot cannot be changed by
  the original" holds by construction; the theorems below therefore concern the one place where
  the *implementation* lets two clones reach the same mutable storage — bit-string buffers
  (`Rc<Cow<[u8]>>`), modelled with explicit reference counts in Model/Bitstr.lean:
  `shared_buffer_reads_isolated`, `shared_buffer_detach_isolated` (re-exported from the C04 layer):
  no range operation, clone, drop or detach on one handle changes the bits any other handle
  denotes; every in-place write (`append`, `insert`, `invert`) happens after `detach`, and
  `shared_buffer_writes_isolated`: whatever other handle exists while one of these three consumes its
  receiver — in particular the same value held by a cloned interpreter — denotes the same bits afterwards;
  `snapshot_values_survive_any_history`: the same over ANY sequence of operations one copy performs on its own values
  (the pool machine of Model/BitstrPool.lean, whose invariant counts the live handles of every buffer).
* Determinism of re-running a snapshot: `rerun_deterministic` — two machines that agree on
  everything a program can observe (they may differ in the reverse log, the instruction meter,
  captured stdout) execute the same steps and agree after every one (from C02's `replay`).
* That `Vec::clone` is deep, that rpds updates are persistent, that no `RefCell`/raw pointer is
  shared are Rust-level facts no executable model can exhibit; they are reached only by the
  exploration in harness/src/props/c03.rs. Known finding: `Cell::AnyRc` host objects (the d2
  canvas) ARE shared by `clone` (`[anyrc-shared]` in known_findings.json).
-/
import XehModel.Props.C02
import XehModel.Props.C04

namespace Xeh.C03
open Xeh Xeh.Mach

/-- reading, slicing, cloning or dropping one handle never changes what another handle denotes -/
theorem shared_buffer_reads_isolated (h : Bitstr.Heap) (s t : Bitstr.Handle) (a b : Nat) :
    Bitstr.bits (Bitstr.seek h s a).1 t = Bitstr.bits h t ∧ Bitstr.bits (Bitstr.peek h s a).1 t = Bitstr.bits h t ∧
    Bitstr.bits (Bitstr.substr h s a b).1 t = Bitstr.bits h t ∧ Bitstr.bits (Bitstr.read h s a).1 t = Bitstr.bits h t ∧
    Bitstr.bits (Bitstr.splitAt h s a).1 t = Bitstr.bits h t ∧ Bitstr.bits (Bitstr.clone h s).1 t = Bitstr.bits h t ∧
    Bitstr.bits (Bitstr.drop h s) t = Bitstr.bits h t :=
  C04.range_ops_isolation h s t a b

/-- the in-place writes themselves: `append`, `insert` and `invert` consume their receiver `s`; any other handle `u`
    (a clone of `s` held by a snapshot, a slice of the same buffer, an unrelated value) denotes the same bits
    afterwards.  `u` sharing `s`'s buffer is expressed the way the implementation knows it: the count is ≥ 2. -/
theorem shared_buffer_writes_isolated (h : Bitstr.Heap) (s t u : Bitstr.Handle) (k : Nat)
    (ws : Bitstr.WF h s) (wt : Bitstr.WF h t) (wu : Bitstr.WF h u)
    (hu : u.buf = s.buf → 2 ≤ (h.buf s.buf).rc) :
    (∃ h' r, Bitstr.invert h s = .ok (h', r) ∧ Bitstr.bits h' u = Bitstr.bits h u) ∧
    ((t.buf = s.buf → 2 ≤ (h.buf s.buf).rc) →
      ∃ h' r, Bitstr.append h s t = .ok (h', r) ∧ Bitstr.bits h' u = Bitstr.bits h u) ∧
    (s.start + k ≤ s.end_ → s.end_ ≤ Bitstr.usizeMax →
      ∃ h' r, Bitstr.insert h s k t = .ok (h', some r) ∧ Bitstr.bits h' u = Bitstr.bits h u) := by
  refine ⟨?_, ?_, ?_⟩
  · obtain ⟨h', r, h1, _, _, f⟩ := C04.invert_refines h s ws
    exact ⟨h', r, h1, (f.isolation u wu hu).2⟩
  · intro ht
    obtain ⟨h', r, h1, _, _, f⟩ := C04.append_refines h s t ws wt ht
    exact ⟨h', r, h1, (f.isolation u wu hu).2⟩
  · intro hk hm
    obtain ⟨h', r, h1, _, _, f⟩ := C04.insert_refines h s t k ws wt hk hm
    exact ⟨h', r, h1, (f.isolation u wu hu).2⟩

/-- `detach` (the gate before every in-place write) leaves every other handle's bits unchanged -/
theorem shared_buffer_detach_isolated (h : Bitstr.Heap) (s : Bitstr.Handle) (wf : Bitstr.WF h s)
    (t : Bitstr.Handle) (ht : t.buf < h.next) :
    ∃ h' s', Bitstr.detach h s = .ok (h', s') ∧ Bitstr.bits h' t = Bitstr.bits h t :=
  C04.detach_isolation h s wf t ht

/-- **Over any history.** Two copies of an interpreter hold handles into the same buffers (a clone copies handles, not
    bytes). Let one of them do whatever it likes with ITS values — any sequence of the pool operations of
    Model/BitstrPool.lean whose consumed receivers are its own (`C04.writes op ≠ some j`) — creating, cloning, slicing,
    detaching, inverting, appending to, inserting into and dropping them, also values that share a buffer with the
    other copy's: a value `j` of the other copy denotes at the end exactly what it denoted at the start (the same start,
    the same bits), and is still well formed. From every state a history reaches (`PoolInv`). -/
theorem snapshot_values_survive_any_history (ops : List Bitstr.PoolOp) :
    ∀ (p : Bitstr.Pool) (a : List (Option Bitstr.AVal)), Bitstr.PoolInv p a →
    ∀ (p' : Bitstr.Pool), p.run ops = some p' →
    ∀ (j : Nat) (s : Bitstr.Handle), p.slots[j]? = some (some s) → (∀ op ∈ ops, C04.writes op ≠ some j) →
      ∃ s', p'.slots[j]? = some (some s') ∧ s'.start = s.start ∧ Bitstr.bits p'.heap s' = Bitstr.bits p.heap s ∧
        Bitstr.WF p'.heap s' := by
  induction ops with
  | nil =>
    intro p a inv p' h j s hj _
    simp only [Bitstr.Pool.run, Option.some.injEq] at h
    subst h
    exact ⟨s, hj, rfl, rfl, (inv.live j s hj).1⟩
  | cons op ops ih =>
    intro p a inv p' h j s hj hw
    simp only [Bitstr.Pool.run] at h
    cases hs : p.step op with
    | none => simp [hs] at h
    | some p1 =>
      simp only [hs, Option.bind_some] at h
      obtain ⟨s1, h1, e1, b1⟩ := C04.other_values_are_untouched p a inv op p1 hs j s hj (hw op (by simp))
      obtain ⟨s', h2, e2, b2, w2⟩ := ih p1 _ (Bitstr.step_refines p a inv op p1 hs) p' h j s1 h1
        (fun o ho => hw o (by simp [ho]))
      exact ⟨s', h2, e2.trans e1, b2.trans b1, w2⟩

/-- a snapshot and its origin, started on the same program, go through the same steps and agree
    after each (they may differ in log, meter and captured stdout when the runs start) -/
theorem rerun_deterministic (np : String → Option Prog) (n : Nat) (a b a' : Mach) (w : WF a)
    (h : normAll a = normAll b) (hl : a.insnLimit = none) (hn : C02.stepN np n a = some a') :
    ∃ b', C02.stepN np n b = some b' ∧ normAll a' = normAll b' :=
  C02.replay np n a b a' w h hl hn

end Xeh.C03
