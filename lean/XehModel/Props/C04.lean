/-
C04 — bit-string operations depend only on the bit sequence, never on how it is stored.

Property theorems only (helpers: Proofs/BitsLemmas, BitsTable, BitstrLemmas, BitstrHeap).
Shape of every theorem: for EVERY heap `h` and EVERY well-formed handle `s` (any start offset, any
slack after `end_`, any stale bits, borrowed or owned buffer, any reference count)

    bits h' (op h s args) = specOp (bits h s) args

where `specOp` is the plain `List Bool` operation of Model/Bits.lean, and the operation does not panic.
-/
import XehModel.Proofs.BitstrHeap

namespace Xeh.C04
open Xeh Xeh.Bits Xeh.Bitstr

/-! ### iteration -/

/-- `iter8()` yields exactly the (value, length) groups of the bit sequence -/
theorem iter8_refines (h : Heap) (s : Handle) (wf : WF h s) :
    (h.view s).iter8 = .ok (Bits.iter8 (bits h s)) :=
  View.iter8_spec _ wf.view

/-- `bits()` yields exactly the bits -/
theorem bitsIter_refines (h : Heap) (s : Handle) (wf : WF h s) :
    (h.view s).bitsIter = .ok (bitNums (bits h s)) :=
  View.bitsIter_spec _ wf.view

/-! ### range operations: positions are absolute (`start()`/`end()` are part of the API) -/

theorem seek_refines (h : Heap) (s : Handle) (wf : WF h s) (pos : Nat) :
    (s.start ≤ pos ∧ pos ≤ s.end_ ∧ ∃ h' r, seek h s pos = (h', some r) ∧ WF h' r ∧
        bits h' r = (bits h s).drop (pos - s.start)) ∨
    (¬(s.start ≤ pos ∧ pos ≤ s.end_) ∧ seek h s pos = (h, none)) := by
  unfold seek
  by_cases hc : s.start ≤ pos ∧ pos ≤ s.end_
  · left
    refine ⟨hc.1, hc.2, _, _, by rw [if_pos hc], WF_incRc _ _ _ (WF_sub h s wf pos s.end_ hc.2 (Nat.le_refl _)), ?_⟩
    rw [bits_incRc, bits_eq, bits_eq, slice_drop]
    congr 1; simp; omega
  · right; exact ⟨hc, by rw [if_neg hc]⟩

theorem peek_refines (h : Heap) (s : Handle) (wf : WF h s) (n : Nat) (hn : s.start + n ≤ s.end_)
    (hu : s.end_ ≤ Bitstr.usizeMax) :
    ∃ h' r, peek h s n = (h', some r) ∧ WF h' r ∧ bits h' r = (bits h s).take n := by
  unfold peek checkedAdd
  rw [if_pos (by omega)]
  simp only
  rw [if_pos ⟨by omega, hn⟩]
  refine ⟨_, _, rfl, WF_incRc _ _ _ (WF_sub h s wf s.start (s.start + n) (by omega) hn), ?_⟩
  rw [bits_incRc, bits_eq, bits_eq, slice_take _ _ _ _ hn]

theorem peek_none (h : Heap) (s : Handle) (n : Nat) (hn : s.end_ < s.start + n) :
    peek h s n = (h, none) := by
  unfold peek checkedAdd
  by_cases h1 : s.start + n ≤ Bitstr.usizeMax
  · rw [if_pos h1]; simp only; rw [if_neg (by omega)]
  · rw [if_neg h1]

theorem substr_refines (h : Heap) (s : Handle) (wf : WF h s) (a b : Nat)
    (hab : a ≤ b) (ha : s.start ≤ a) (hb : b ≤ s.end_) :
    ∃ h' r, substr h s a b = (h', some r) ∧ WF h' r ∧
      bits h' r = Bits.slice (bits h s) (a - s.start) (b - s.start) := by
  unfold substr
  rw [if_pos ⟨hab, ha, hb⟩]
  refine ⟨_, _, rfl, WF_incRc _ _ _ (WF_sub h s wf a b hab hb), ?_⟩
  rw [bits_incRc, bits_eq, bits_eq, slice_slice _ _ _ _ _ (by omega)]
  simp only
  congr 1 <;> omega

theorem substr_none (h : Heap) (s : Handle) (a b : Nat) (hc : ¬(a ≤ b ∧ s.start ≤ a ∧ b ≤ s.end_)) :
    substr h s a b = (h, none) := by
  unfold substr; rw [if_neg hc]

/-- `read(n)`: the result is the first `n` bits, the receiver keeps the rest -/
theorem read_refines (h : Heap) (s : Handle) (wf : WF h s) (n : Nat) (hn : s.start + n ≤ s.end_)
    (hu : s.end_ ≤ Bitstr.usizeMax) :
    ∃ h' s' r, Bitstr.read h s n = (h', s', some r) ∧ WF h' r ∧ WF h' s' ∧
      bits h' r = (bits h s).take n ∧ bits h' s' = (bits h s).drop n := by
  unfold Bitstr.read checkedAdd
  rw [if_pos (by omega)]
  simp only
  rw [if_neg (by omega)]
  refine ⟨_, _, _, rfl, WF_incRc _ _ _ (WF_sub h s wf s.start (s.start + n) (by omega) hn),
    WF_incRc _ _ _ (WF_sub h s wf (s.start + n) s.end_ hn (Nat.le_refl _)), ?_, ?_⟩
  · rw [bits_incRc, bits_eq, bits_eq, slice_take _ _ _ _ hn]
  · rw [bits_incRc, bits_eq, bits_eq, slice_drop]

theorem read_none (h : Heap) (s : Handle) (n : Nat) (hn : s.end_ < s.start + n) :
    Bitstr.read h s n = (h, s, none) := by
  unfold Bitstr.read checkedAdd
  by_cases h1 : s.start + n ≤ Bitstr.usizeMax
  · rw [if_pos h1]; simp only; rw [if_pos (by omega)]
  · rw [if_neg h1]

theorem splitAt_refines (h : Heap) (s : Handle) (wf : WF h s) (k : Nat) (hk : s.start + k ≤ s.end_)
    (hu : s.end_ ≤ Bitstr.usizeMax) :
    ∃ h' l r, splitAt h s k = (h', some (l, r)) ∧ WF h' l ∧ WF h' r ∧
      bits h' l = (bits h s).take k ∧ bits h' r = (bits h s).drop k := by
  unfold splitAt checkedAdd
  rw [if_pos (by omega)]
  simp only
  rw [if_neg (by omega)]
  refine ⟨_, _, _, rfl,
    WF_incRc _ _ _ (WF_incRc _ _ _ (WF_sub h s wf s.start (s.start + k) (by omega) hk)),
    WF_incRc _ _ _ (WF_incRc _ _ _ (WF_sub h s wf (s.start + k) s.end_ hk (Nat.le_refl _))), ?_, ?_⟩
  · rw [bits_incRc, bits_incRc, bits_eq, bits_eq, slice_take _ _ _ _ hk]
  · rw [bits_incRc, bits_incRc, bits_eq, bits_eq, slice_drop]

/-- the range operations, `clone` and `drop` change the bits of no handle whatsoever (they only touch
    reference counts) — the "operands are never modified" half for these operations -/
theorem range_ops_isolation (h : Heap) (s t : Handle) (a b : Nat) :
    bits (seek h s a).1 t = bits h t ∧ bits (peek h s a).1 t = bits h t ∧
    bits (substr h s a b).1 t = bits h t ∧ bits (Bitstr.read h s a).1 t = bits h t ∧
    bits (splitAt h s a).1 t = bits h t ∧ bits (clone h s).1 t = bits h t ∧ bits (drop h s) t = bits h t := by
  refine ⟨?_, ?_, ?_, ?_, ?_, ?_, ?_⟩
  · unfold seek; split <;> simp
  · unfold peek; split
    · rfl
    · split <;> simp
  · unfold substr; split <;> simp
  · unfold Bitstr.read; split
    · rfl
    · split <;> simp
  · unfold splitAt; split
    · rfl
    · split <;> simp
  · simp [clone]
  · simp [drop]

/-- hypotheses are satisfiable by a non-trivial state: a 13-bit slice at bit offset 3 -/
example : WF (fromVec Heap.empty [0xab, 0xcd, 0xef]).1 ⟨3, 16, 0⟩ := by
  refine ⟨⟨by decide, by decide, ?_⟩, by decide, by decide⟩
  intro b hb
  simp [fromVec, Heap.alloc, Heap.view, Heap.empty] at hb
  omega

end Xeh.C04
