/-
C04 — bit-string operations depend only on the bit sequence, never on how it is stored.

Property theorems only (helpers: Proofs/BitsLemmas, BitsTable, BitstrLemmas, BitstrHeap).
Shape of every theorem: for EVERY heap `h` and EVERY well-formed handle `s` (any start offset, any
slack after `end_`, any stale bits, borrowed or owned buffer, any reference count)

    bits h' (op h s args) = specOp (bits h s) args

where `specOp` is the plain `List Bool` operation of Model/Bits.lean, and the operation does not panic.

PROVED here (full strength): iter8, bits, seek, peek, substr, read, split_at, detach, eq_with,
to_bytes, to_bytes_with_padding, bytestr, slice, to_hex_string, append (both paths), insert, invert,
from_hex_str, BitvecBuilder::from_bin_str;
isolation ("operands and bystanders are never modified") for seek/peek/substr/read/split_at/clone/drop/detach
and, through `Frame`, for append/insert/invert;
**every operation sequence** (`pool_history_refines`, `pool_never_panics`, `other_values_are_untouched`): the pool
machine of Model/BitstrPool.lean — handles into the shared, reference-counted buffer heap, created, cloned, sliced, read,
detached, inverted, appended to, inserted into and dropped in any order — is, step for step, the machine on plain
(start, bits) values; what makes it go through is the counting invariant of Proofs/BitstrPool.lean (a buffer's count is at
least the number of live handles into it, so a write in place is a write nobody else can see).

-/
import XehModel.Proofs.BitstrParse
import XehModel.Proofs.BitstrCodec
import XehModel.Proofs.BitstrPoolStep

namespace Xeh.C04
open Xeh Xeh.Bits Xeh.Bitstr

/-! ### iteration -/

/-- `iter8()` yields exactly the (value, length) groups of the bit sequence -/
theorem iter8_refines (h : Heap) (s : Handle) (wf : WF h s) :
    (h.view s).iter8 = .ok (Bits.iter8 (bits h s)) :=
  View.iter8_spec _ wf.view

/-- `bits()` yields exactly the bits -/
theorem bitsIter_refines (h : Heap) (s : Handle) (wf : WF h s) :
    (h.view s).bitsIter = .ok (bitNums (bits h s)) :=
  View.bitsIter_spec _ wf.view

/-! ### range operations: positions are absolute (`start()`/`end()` are part of the API) -/

theorem seek_refines (h : Heap) (s : Handle) (wf : WF h s) (pos : Nat) :
    (s.start ≤ pos ∧ pos ≤ s.end_ ∧ ∃ h' r, seek h s pos = (h', some r) ∧ WF h' r ∧
        bits h' r = (bits h s).drop (pos - s.start)) ∨
    (¬(s.start ≤ pos ∧ pos ≤ s.end_) ∧ seek h s pos = (h, none)) := by
  unfold seek
  by_cases hc : s.start ≤ pos ∧ pos ≤ s.end_
  · left
    refine ⟨hc.1, hc.2, _, _, by rw [if_pos hc], WF_incRc _ _ _ (WF_sub h s wf pos s.end_ hc.2 (Nat.le_refl _)), ?_⟩
    rw [bits_incRc, bits_eq, bits_eq, slice_drop]
    congr 1; simp; omega
  · right; exact ⟨hc, by rw [if_neg hc]⟩

theorem peek_refines (h : Heap) (s : Handle) (wf : WF h s) (n : Nat) (hn : s.start + n ≤ s.end_)
    (hu : s.end_ ≤ Bitstr.usizeMax) :
    ∃ h' r, peek h s n = (h', some r) ∧ WF h' r ∧ bits h' r = (bits h s).take n := by
  unfold peek checkedAdd
  rw [if_pos (by omega)]
  simp only
  rw [if_pos ⟨by omega, hn⟩]
  refine ⟨_, _, rfl, WF_incRc _ _ _ (WF_sub h s wf s.start (s.start + n) (by omega) hn), ?_⟩
  rw [bits_incRc, bits_eq, bits_eq, slice_take _ _ _ _ hn]

theorem peek_none (h : Heap) (s : Handle) (n : Nat) (hn : s.end_ < s.start + n) :
    peek h s n = (h, none) := by
  unfold peek checkedAdd
  by_cases h1 : s.start + n ≤ Bitstr.usizeMax
  · rw [if_pos h1]; simp only; rw [if_neg (by omega)]
  · rw [if_neg h1]

theorem substr_refines (h : Heap) (s : Handle) (wf : WF h s) (a b : Nat)
    (hab : a ≤ b) (ha : s.start ≤ a) (hb : b ≤ s.end_) :
    ∃ h' r, substr h s a b = (h', some r) ∧ WF h' r ∧
      bits h' r = Bits.slice (bits h s) (a - s.start) (b - s.start) := by
  unfold substr
  rw [if_pos ⟨hab, ha, hb⟩]
  refine ⟨_, _, rfl, WF_incRc _ _ _ (WF_sub h s wf a b hab hb), ?_⟩
  rw [bits_incRc, bits_eq, bits_eq, slice_slice _ _ _ _ _ (by omega)]
  simp only
  congr 1 <;> omega

theorem substr_none (h : Heap) (s : Handle) (a b : Nat) (hc : ¬(a ≤ b ∧ s.start ≤ a ∧ b ≤ s.end_)) :
    substr h s a b = (h, none) := by
  unfold substr; rw [if_neg hc]

/-- `read(n)`: the result is the first `n` bits, the receiver keeps the rest -/
theorem read_refines (h : Heap) (s : Handle) (wf : WF h s) (n : Nat) (hn : s.start + n ≤ s.end_)
    (hu : s.end_ ≤ Bitstr.usizeMax) :
    ∃ h' s' r, Bitstr.read h s n = (h', s', some r) ∧ WF h' r ∧ WF h' s' ∧
      bits h' r = (bits h s).take n ∧ bits h' s' = (bits h s).drop n := by
  unfold Bitstr.read checkedAdd
  rw [if_pos (by omega)]
  simp only
  rw [if_neg (by omega)]
  refine ⟨_, _, _, rfl, WF_incRc _ _ _ (WF_sub h s wf s.start (s.start + n) (by omega) hn),
    WF_incRc _ _ _ (WF_sub h s wf (s.start + n) s.end_ hn (Nat.le_refl _)), ?_, ?_⟩
  · rw [bits_incRc, bits_eq, bits_eq, slice_take _ _ _ _ hn]
  · rw [bits_incRc, bits_eq, bits_eq, slice_drop]

theorem read_none (h : Heap) (s : Handle) (n : Nat) (hn : s.end_ < s.start + n) :
    Bitstr.read h s n = (h, s, none) := by
  unfold Bitstr.read checkedAdd
  by_cases h1 : s.start + n ≤ Bitstr.usizeMax
  · rw [if_pos h1]; simp only; rw [if_pos (by omega)]
  · rw [if_neg h1]

theorem splitAt_refines (h : Heap) (s : Handle) (wf : WF h s) (k : Nat) (hk : s.start + k ≤ s.end_)
    (hu : s.end_ ≤ Bitstr.usizeMax) :
    ∃ h' l r, splitAt h s k = (h', some (l, r)) ∧ WF h' l ∧ WF h' r ∧
      bits h' l = (bits h s).take k ∧ bits h' r = (bits h s).drop k := by
  unfold splitAt checkedAdd
  rw [if_pos (by omega)]
  simp only
  rw [if_neg (by omega)]
  refine ⟨_, _, _, rfl,
    WF_incRc _ _ _ (WF_incRc _ _ _ (WF_sub h s wf s.start (s.start + k) (by omega) hk)),
    WF_incRc _ _ _ (WF_incRc _ _ _ (WF_sub h s wf (s.start + k) s.end_ hk (Nat.le_refl _))), ?_, ?_⟩
  · rw [bits_incRc, bits_incRc, bits_eq, bits_eq, slice_take _ _ _ _ hk]
  · rw [bits_incRc, bits_incRc, bits_eq, bits_eq, slice_drop]

/-! ### detach: same bits whatever the ownership situation (unique: returned as is; empty: fresh; else packed copy) -/

theorem detach_refines (h : Heap) (s : Handle) (wf : WF h s) :
    ∃ h' s', detach h s = .ok (h', s') ∧ WF h' s' ∧ bits h' s' = bits h s :=
  let ⟨h', s', h1, h2, h3, _⟩ := detach_spec h s wf
  ⟨h', s', h1, h2, h3⟩

/-- where the detached value starts inside its buffer does not depend on the ownership situation: it is
    always bit 0 (since repair e3b1a9c; before it a uniquely owned slice kept its start and a shared one
    was rebased, which `open-bitstr` + `offset` made visible) -/
theorem detach_start_is_zero (h h' : Heap) (s s' : Handle) (e : detach h s = .ok (h', s')) : s'.start = 0 := by
  unfold detach at e
  split at e
  · rename_i hc
    simp only [Bool.and_eq_true, beq_iff_eq] at hc
    cases e; exact hc.2
  · split at e
    · cases e; rfl
    · split at e
      · cases e; rfl
      · cases e
      · cases e

/-- `detach` changes the bits of no existing handle (any handle into an already allocated buffer) -/
theorem detach_isolation (h : Heap) (s : Handle) (wf : WF h s) (t : Handle) (ht : t.buf < h.next) :
    ∃ h' s', detach h s = .ok (h', s') ∧ bits h' t = bits h t :=
  let ⟨h', s', h1, _, _, h4⟩ := detach_spec h s wf
  ⟨h', s', h1, h4 t ht⟩

/-! ### equality: both the byte-slice fast path and the `iter8` path decide equality of the bit sequences -/

theorem eqWith_refines (h : Heap) (a b : Handle) (wa : WF h a) (wb : WF h b) :
    (h.view a).eqWith (h.view b) = .ok (decide (bits h a = bits h b)) :=
  View.eqWith_spec _ _ wa.view wb.view

/-! ### byte and hex export -/

theorem toBytesWithPadding_refines (h : Heap) (s : Handle) (wf : WF h s) :
    (h.view s).toBytesWithPadding = .ok (toBytesPad (bits h s)) :=
  View.toBytesWithPadding_spec _ wf.view

theorem toBytes_refines (h : Heap) (s : Handle) (wf : WF h s) :
    (h.view s).toBytes = .ok (Bits.toBytes (bits h s)) :=
  View.toBytes_spec _ wf.view

theorem bytestr_refines (h : Heap) (s : Handle) (wf : WF h s) :
    (h.view s).bytestr = .ok (Bits.toBytes (bits h s)) :=
  View.bytestr_spec _ wf.view

theorem toHexString_refines (h : Heap) (s : Handle) (wf : WF h s) :
    (h.view s).toHexString = .ok (toHex (bits h s)) :=
  View.toHexString_spec _ wf.view

/-- `slice()` is the zero-copy accessor: by contract it answers only for byte-aligned byte-multiple
    values; when it answers, the bytes spell exactly the bit sequence -/
theorem slice_refines (h : Heap) (s : Handle) (wf : WF h s) (ha : s.start % 8 = 0)
    (hl : (s.end_ - s.start) % 8 = 0) :
    ∃ bs, (h.view s).slice = .ok (some bs) ∧ bits h s = ofBytes bs :=
  let ⟨bs, h1, h2, _⟩ := View.slice_spec _ wf.view ha hl
  ⟨bs, h1, h2⟩

theorem slice_unaligned (h : Heap) (s : Handle) (hn : ¬(s.start % 8 = 0 ∧ (s.end_ - s.start) % 8 = 0)) :
    (h.view s).slice = .ok none :=
  View.slice_none _ hn

/-- the range operations, `clone` and `drop` change the bits of no handle whatsoever (they only touch
    reference counts) — the "operands are never modified" half for these operations -/
theorem range_ops_isolation (h : Heap) (s t : Handle) (a b : Nat) :
    bits (seek h s a).1 t = bits h t ∧ bits (peek h s a).1 t = bits h t ∧
    bits (substr h s a b).1 t = bits h t ∧ bits (Bitstr.read h s a).1 t = bits h t ∧
    bits (splitAt h s a).1 t = bits h t ∧ bits (clone h s).1 t = bits h t ∧ bits (drop h s) t = bits h t := by
  refine ⟨?_, ?_, ?_, ?_, ?_, ?_, ?_⟩
  · unfold seek; split <;> simp
  · unfold peek; split
    · rfl
    · split <;> simp
  · unfold substr; split <;> simp
  · unfold Bitstr.read; split
    · rfl
    · split <;> simp
  · unfold splitAt; split
    · rfl
    · split <;> simp
  · simp [clone]
  · simp [drop]

/-- hypotheses are satisfiable by a non-trivial state: a 13-bit slice at bit offset 3 -/
example : WF (fromVec Heap.empty [0xab, 0xcd, 0xef]).1 ⟨3, 16, 0⟩ := by
  refine ⟨⟨by decide, by decide, ?_⟩, by decide, by decide⟩
  intro b hb
  simp [fromVec, Heap.alloc, Heap.view, Heap.empty] at hb
  omega

/-! ### the mutating operations: append, insert, invert (bitstr.rs `append_bits_mut`, `append`, `insert`, `invert`)

The receiver is consumed.  `Frame h h' b` (Proofs/BitstrMut.lean) says what may happen to the rest of the heap:
every buffer other than the receiver's `b` is untouched, and `b`, when anybody else also holds it (count ≥ 2),
keeps its bytes and loses exactly one count.  The hypothesis on the argument `t` of `append` is the reference-count
discipline itself: the receiver is passed by value and `t` by reference, so if both point into one buffer its
count is at least 2. -/

/-- `append`: BOTH paths (byte-aligned `extend_from_slice`, and the bit loop after truncation to the receiver's
    end and masking of the slack bits of the last byte), any start offset, slack and stale bits after `end`,
    shared or uniquely owned receiver -/
theorem append_refines (h : Heap) (s t : Handle) (ws : WF h s) (wt : WF h t)
    (ht : t.buf = s.buf → 2 ≤ (h.buf s.buf).rc) :
    ∃ h' r, append h s t = .ok (h', r) ∧ WF h' r ∧ bits h' r = bits h s ++ bits h t ∧ Frame h h' s.buf := by
  obtain ⟨h', r, h1, h2, h3, _, h5⟩ := append_spec h s t ws wt ht
  exact ⟨h', r, h1, h2, h3, h5⟩

/-- `insert` at a valid index (no sharing hypothesis at all: the receiver is split first, so its buffer is
    never written, and the inserted value may even be a clone of the receiver) -/
theorem insert_refines (h : Heap) (s t : Handle) (k : Nat) (ws : WF h s) (wt : WF h t)
    (hk : s.start + k ≤ s.end_) (hu : s.end_ ≤ Bitstr.usizeMax) :
    ∃ h' r, insert h s k t = .ok (h', some r) ∧ WF h' r ∧
      bits h' r = (bits h s).take k ++ bits h t ++ (bits h s).drop k ∧ Frame h h' s.buf := by
  obtain ⟨h', r, h1, h2, h3, _, h5⟩ := insert_spec h s t k ws wt hk (by omega)
  exact ⟨h', r, h1, h2, h3, h5⟩

/-- `insert` at an index past the end (or overflowing): `None`, the receiver is dropped, nothing written -/
theorem insert_out_of_range (h : Heap) (s t : Handle) (k : Nat)
    (hk : ¬(s.start + k ≤ s.end_ ∧ s.start + k ≤ Bitstr.usizeMax)) :
    insert h s k t = .ok (drop h s, none) := insert_invalid h s t k hk

/-- `invert` -/
theorem invert_refines (h : Heap) (s : Handle) (ws : WF h s) :
    ∃ h' r, invert h s = .ok (h', r) ∧ WF h' r ∧ bits h' r = Bits.invert (bits h s) ∧ Frame h h' s.buf := by
  obtain ⟨h', r, h1, h2, h3, _, h5⟩ := invert_spec h s ws
  exact ⟨h', r, h1, h2, h3, h5⟩

/-- isolation for append / insert / invert: whatever handle `u` exists besides the consumed receiver (into any
    buffer; into the receiver's own buffer only if the count says so) denotes the same bits afterwards and is
    still well formed.  In-place mutation happens only when the count is 1, i.e. when no such `u` shares the buffer. -/
theorem handle_isolation (h h' : Heap) (b : Nat) (f : Frame h h' b) (u : Handle) (wu : WF h u)
    (hu : u.buf = b → 2 ≤ (h.buf b).rc) : WF h' u ∧ bits h' u = bits h u :=
  f.isolation u wu hu

/-- the result of append / insert / invert is uniquely owned: a later in-place mutation of it is invisible to everyone -/
theorem mutated_result_is_unique (h : Heap) (s t : Handle) (k : Nat) (ws : WF h s) (wt : WF h t) :
    (∀ h' r, invert h s = .ok (h', r) → (h'.buf r.buf).rc = 1) ∧
    ((t.buf = s.buf → 2 ≤ (h.buf s.buf).rc) → ∀ h' r, append h s t = .ok (h', r) → (h'.buf r.buf).rc = 1) ∧
    (s.start + k ≤ s.end_ → s.end_ ≤ Bitstr.usizeMax →
      ∀ h' r, insert h s k t = .ok (h', some r) → (h'.buf r.buf).rc = 1) := by
  refine ⟨?_, ?_, ?_⟩
  · intro h' r e
    obtain ⟨h'', r', h1, _, _, h4, _⟩ := invert_spec h s ws
    rw [h1] at e; cases e; exact h4
  · intro ht h' r e
    obtain ⟨h'', r', h1, _, _, h4, _⟩ := append_spec h s t ws wt ht
    rw [h1] at e; cases e; exact h4
  · intro hk hu h' r e
    obtain ⟨h'', r', h1, _, _, h4, _⟩ := insert_spec h s t k ws wt hk (by omega)
    rw [h1] at e; cases e; exact h4

/-- the hypotheses are satisfiable in the interesting situation: a 13-bit slice at bit offset 3 of a SHARED
    buffer (count 2), appended to itself -/
example :
    let h : Heap := ((fromVec Heap.empty [0xab, 0xcd, 0xef]).1).incRc 0
    WF h ⟨3, 16, 0⟩ ∧ (((⟨3, 16, 0⟩ : Handle).buf = (⟨3, 16, 0⟩ : Handle).buf) → 2 ≤ (h.buf 0).rc) := by
  refine ⟨⟨⟨by decide, by decide, ?_⟩, by decide, by decide⟩, fun _ => by decide⟩
  intro b hb
  simp [fromVec, Heap.alloc, Heap.view, Heap.empty, Heap.incRc, Heap.set] at hb
  omega

/-! ### parsing: `from_hex_str`, `BitvecBuilder::from_bin_str` -/

theorem packed_value (h : Heap) (buf : List Nat) (l : List Bool) (p : Packed buf l) :
    bits (h.alloc buf false).1 ⟨0, l.length, (h.alloc buf false).2⟩ = l ∧
    WF (h.alloc buf false).1 ⟨0, l.length, (h.alloc buf false).2⟩ := by
  have hle : l.length ≤ 8 * buf.length := by rw [p.len]; exact le_8ubi _
  refine ⟨?_, alloc_WF h buf false 0 _ (Nat.zero_le _) hle p.bytes⟩
  unfold bits
  rw [alloc_view]
  unfold View.bits slice
  simp only [p.bits, List.drop_zero, Nat.sub_zero]
  exact List.take_left' rfl

/-- `from_hex_str`: the value built nibble by nibble (`push(val << 4)` / `|= val`) denotes exactly the bits of
    `parseHex` (4 per digit, ASCII whitespace skipped), starts at bit 0, and a malformed string is rejected at
    the same character index -/
theorem fromHexStr_refines (h : Heap) (cs : List Char) :
    match fromHexStr h cs, parseHex cs with
    | .ok (h', s), .ok l => bits h' s = l ∧ WF h' s ∧ s.start = 0
    | .error p, .error q => p = q
    | _, _ => False := by
  have key := fromHexBytes_spec cs 0 [] [] packed_nil rfl
  unfold fromHexStr parseHex
  simp only [List.length_nil, List.nil_append] at key
  revert key
  cases fromHexBytes cs 0 0 [] with
  | error e => cases parseHex.go cs 0 <;> simp
  | ok res =>
    obtain ⟨buf, n⟩ := res
    cases parseHex.go cs 0 with
    | error q => simp
    | ok l =>
      simp only
      rintro ⟨p, rfl⟩
      obtain ⟨e1, e2⟩ := packed_value h buf l p
      exact ⟨e1, e2, trivial⟩

/-- `BitvecBuilder::from_bin_str` (and with it `append_bit` / `finish`) -/
theorem fromBinStr_refines (h : Heap) (cs : List Char) :
    match fromBinStr h cs, parseBin cs with
    | .ok (h', s), .ok l => bits h' s = l ∧ WF h' s ∧ s.start = 0
    | .error p, .error q => p = q
    | _, _ => False := by
  have key := fromBinBytes_spec cs 0 [] [] packed_nil
  unfold fromBinStr parseBin
  simp only [List.length_nil, List.nil_append] at key
  revert key
  cases fromBinBytes cs 0 [] 0 with
  | error e => cases parseBin.go cs 0 <;> simp
  | ok res =>
    obtain ⟨buf, n⟩ := res
    cases parseBin.go cs 0 with
    | error q => simp
    | ok l =>
      simp only
      rintro ⟨p, rfl⟩
      obtain ⟨e1, e2⟩ := packed_value h buf l p
      exact ⟨e1, e2, trivial⟩

/-! ### every operation sequence (the quantifier of the property: "all ownership situations reachable through the public
    API …, all operation sequences") -/

/-- **Any history.** Start from no values at all and run ANY sequence of pool operations (Model/BitstrPool.lean: new
    values owned or static, clone, drop, read, peek, seek, substr, split, detach, invert, append, insert — the receivers of
    the last four are consumed, as in the Rust API). If the concrete machine — handles into shared buffers with reference
    counts, copy on write when the count is above one, write in place when it is one — gets through, then at the end every
    live slot holds a well-formed handle whose start and whose bits are exactly what the machine on PLAIN values
    (`APool.run`: lists of bits and a start position, no buffers, no sharing) computes for that slot, and the empty slots
    are the same. Whatever ownership situation the history produced — a slice whose parent is alive, or dropped; a static
    buffer; the result of an earlier append; stale bits behind the end; a buffer shared by five handles — is one of the
    states this theorem quantifies over. -/
theorem pool_history_refines (ops : List PoolOp) (p' : Pool) (h : Pool.run ops {} = some p') :
    p'.slots.length = (APool.run ops []).length ∧
    (∀ (i : Nat) (s : Handle), p'.slots[i]? = some (some s) →
      WF p'.heap s ∧ (APool.run ops [])[i]? = some (some (s.start, bits p'.heap s))) ∧
    (∀ (i : Nat), p'.slots[i]? = some none → (APool.run ops [])[i]? = some none) ∧
    (∀ b, cnt p'.slots b ≤ (p'.heap.buf b).rc) := by
  have inv := run_refines ops {} [] PoolInv.empty p' h
  exact ⟨inv.len, inv.live, inv.dead, inv.count⟩

/-- one step, from any state the invariant describes (so: from any state a history reaches) -/
theorem pool_step_refines (p : Pool) (a : List (Option AVal)) (inv : PoolInv p a) (op : PoolOp) (p' : Pool)
    (hs : p.step op = some p') : PoolInv p' (APool.step a op) := step_refines p a inv op p' hs

/-- **No operation the API can express gets stuck**: on every state a history reaches, every operation with live operands
    (two different ones for `append` / `insert`: the receiver is moved) returns — `detach`, `invert`, `append`, `insert`
    never panic, whatever the alignment, the slack and the sharing -/
theorem pool_never_panics (ops : List PoolOp) (p : Pool) (h : Pool.run ops {} = some p) (op : PoolOp)
    (hv : op.Valid p.slots) : ∃ p', p.step op = some p' :=
  step_total p _ (run_refines ops {} [] PoolInv.empty p h) op hv

/-- the slot an operation replaces (its receiver), if any; every other operation only adds values -/
def writes : PoolOp → Option Nat
  | .drop i | .read i _ | .detach i | .invert i | .append i _ | .insert i _ _ => some i
  | _ => none

theorem astep_keeps (a : List (Option AVal)) (op : PoolOp) (j : Nat) (hj : j < a.length) (hw : writes op ≠ some j) :
    (APool.step a op)[j]? = a[j]? := by
  have happ : ∀ x : List (Option AVal), (a ++ x)[j]? = a[j]? := fun x => List.getElem?_append_left hj
  have hset : ∀ (i : Nat) (v : Option AVal), i ≠ j → (a.set i v)[j]? = a[j]? := fun i v hij => List.getElem?_set_ne hij
  cases op with
  | newVec bytes => exact happ _
  | newStatic bytes => exact happ _
  | empty => exact happ _
  | clone i => simp only [APool.step]; split <;> first | exact happ _ | rfl
  | drop i =>
    have hij : i ≠ j := fun e => hw (by simp [writes, e])
    simp only [APool.step]; split <;> first | exact hset _ _ hij | rfl
  | read i n =>
    have hij : i ≠ j := fun e => hw (by simp [writes, e])
    simp only [APool.step]
    split
    · split
      · rw [List.getElem?_append_left (by simpa using hj)]; exact hset _ _ hij
      · rfl
    · rfl
  | peek i n =>
    simp only [APool.step]
    split
    · split
      · exact happ _
      · rfl
    · rfl
  | seek i pos =>
    simp only [APool.step]
    split
    · split
      · exact happ _
      · rfl
    · rfl
  | substr i x y =>
    simp only [APool.step]
    split
    · split
      · exact happ _
      · rfl
    · rfl
  | split i k =>
    simp only [APool.step]
    split
    · split
      · exact happ _
      · rfl
    · rfl
  | detach i =>
    have hij : i ≠ j := fun e => hw (by simp [writes, e])
    simp only [APool.step]; split <;> first | exact hset _ _ hij | rfl
  | invert i =>
    have hij : i ≠ j := fun e => hw (by simp [writes, e])
    simp only [APool.step]; split <;> first | exact hset _ _ hij | rfl
  | append i k =>
    have hij : i ≠ j := fun e => hw (by simp [writes, e])
    simp only [APool.step]; split <;> first | exact hset _ _ hij | rfl
  | insert i k m =>
    have hij : i ≠ j := fun e => hw (by simp [writes, e])
    simp only [APool.step]
    split
    · split <;> exact hset _ _ hij
    · rfl

/-- **Operands and bystanders are never modified** — over histories, and however the buffers are shared: an operation
    leaves every value other than its consumed receiver exactly as it was — the same start, the same bits — also a value
    that lives in the very buffer the operation writes to (a clone held by a snapshot of the interpreter, a slice of the
    same input, the argument of `append`) -/
theorem other_values_are_untouched (p : Pool) (a : List (Option AVal)) (inv : PoolInv p a) (op : PoolOp) (p' : Pool)
    (hs : p.step op = some p') (j : Nat) (s : Handle) (hj : p.slots[j]? = some (some s)) (hw : writes op ≠ some j) :
    ∃ s', p'.slots[j]? = some (some s') ∧ s'.start = s.start ∧ bits p'.heap s' = bits p.heap s := by
  have inv' := step_refines p a inv op p' hs
  have hlt : j < a.length := by rw [← inv.len]; exact (List.getElem?_eq_some_iff.mp hj).1
  have ha : (APool.step a op)[j]? = some (some (s.start, bits p.heap s)) := by
    rw [astep_keeps a op j hlt hw]; exact (inv.live j s hj).2
  have hlt' : j < p'.slots.length := by
    rw [inv'.len]
    exact (List.getElem?_eq_some_iff.mp ha).1
  cases hx : p'.slots[j]? with
  | none => exact absurd hx (by simp; omega)
  | some o =>
    cases o with
    | none => have := inv'.dead j hx; rw [ha] at this; cases this
    | some s' =>
      have := (inv'.live j s' hx).2
      rw [ha] at this
      simp only [Option.some.injEq, Prod.mk.injEq] at this
      exact ⟨s', rfl, this.1.symm, this.2.symm⟩

/-- **… and what is observed of a value depends on its bits alone, after any history**: on every state a history reaches,
    iteration, byte and hex export and equality of live values answer exactly what the plain-list operations of
    Model/Bits.lean answer on the values the PLAIN machine holds in those slots — wherever the handles lie in their
    buffers, whoever shares those buffers, whatever stale bits surround them. -/
theorem pool_queries_see_only_the_bits (ops : List PoolOp) (p : Pool) (h : Pool.run ops {} = some p)
    (i : Nat) (s : Handle) (hi : p.slots[i]? = some (some s)) :
    ∃ l, (APool.run ops [])[i]? = some (some (s.start, l)) ∧
      (p.heap.view s).iter8 = .ok (Bits.iter8 l) ∧ (p.heap.view s).bitsIter = .ok (bitNums l) ∧
      (p.heap.view s).toBytes = .ok (Bits.toBytes l) ∧ (p.heap.view s).bytestr = .ok (Bits.toBytes l) ∧
      (p.heap.view s).toBytesWithPadding = .ok (toBytesPad l) ∧ (p.heap.view s).toHexString = .ok (toHex l) ∧
      ∀ (j : Nat) (t : Handle), p.slots[j]? = some (some t) →
        ∃ m, (APool.run ops [])[j]? = some (some (t.start, m)) ∧
          (p.heap.view s).eqWith (p.heap.view t) = .ok (decide (l = m)) := by
  obtain ⟨_, live, _, _⟩ := pool_history_refines ops p h
  obtain ⟨ws, ha⟩ := live i s hi
  refine ⟨bits p.heap s, ha, iter8_refines _ _ ws, bitsIter_refines _ _ ws, toBytes_refines _ _ ws,
    bytestr_refines _ _ ws, toBytesWithPadding_refines _ _ ws, toHexString_refines _ _ ws, ?_⟩
  intro j t hj
  obtain ⟨wt, hb⟩ := live j t hj
  exact ⟨bits p.heap t, hb, eqWith_refines _ _ _ ws wt⟩

/-- non-vacuity of the history theorems: a buffer shared by three handles, one of them detached and inverted in place,
    another appended to — the concrete machine gets through, and the values are the plain ones -/
example :
    let ops : List PoolOp := [.newVec [0xab, 0xcd], .substr 0 4 12, .clone 1, .invert 1, .append 2 0, .read 0 3, .insert 0 2 1, .drop 2]
    ((Pool.run ops {}).map fun p => p.slots.map fun o => o.map fun s => (s.start, bits p.heap s)) = some (APool.run ops []) := by
  decide +kernel

/-- non-vacuity: a well-formed and a malformed hex string -/
example : parseHex ['a', ' ', '5'] = .ok [true, false, true, false, false, true, false, true] ∧
    parseHex ['a', ' ', 'g'] = .error 2 := ⟨by rfl, by rfl⟩

end Xeh.C04
