/-
C04 — bit-string operations depend only on the bit sequence, never on how it is stored.

Property theorems only (helpers: Proofs/BitsLemmas, BitsTable, BitstrLemmas, BitstrHeap).
Shape of every theorem: for EVERY heap `h` and EVERY well-formed handle `s` (any start offset, any
slack after `end_`, any stale bits, borrowed or owned buffer, any reference count)

    bits h' (op h s args) = specOp (bits h s) args

where `specOp` is the plain `List Bool` operation of Model/Bits.lean, and the operation does not panic.

PROVED here (full strength): iter8, bits, seek, peek, substr, read, split_at, detach, eq_with,
to_bytes, to_bytes_with_padding, bytestr, slice, to_hex_string; isolation ("operands and bystanders are
never modified") for seek/peek/substr/read/split_at/clone/drop/detach.

NOT YET PROVED (statements kept below in the comment block at the end of the file; validated by the
correspondence and the implementation-side oracle only): append, insert, invert refinement and their
isolation; from_hex_str / from_bin_str / BitvecBuilder against `parseHex` / `parseBin`.
-/
import XehModel.Proofs.BitstrOps

namespace Xeh.C04
open Xeh Xeh.Bits Xeh.Bitstr

/-! ### iteration -/

/-- `iter8()` yields exactly the (value, length) groups of the bit sequence -/
theorem iter8_refines (h : Heap) (s : Handle) (wf : WF h s) :
    (h.view s).iter8 = .ok (Bits.iter8 (bits h s)) :=
  View.iter8_spec _ wf.view

/-- `bits()` yields exactly the bits -/
theorem bitsIter_refines (h : Heap) (s : Handle) (wf : WF h s) :
    (h.view s).bitsIter = .ok (bitNums (bits h s)) :=
  View.bitsIter_spec _ wf.view

/-! ### range operations: positions are absolute (`start()`/`end()` are part of the API) -/

theorem seek_refines (h : Heap) (s : Handle) (wf : WF h s) (pos : Nat) :
    (s.start ≤ pos ∧ pos ≤ s.end_ ∧ ∃ h' r, seek h s pos = (h', some r) ∧ WF h' r ∧
        bits h' r = (bits h s).drop (pos - s.start)) ∨
    (¬(s.start ≤ pos ∧ pos ≤ s.end_) ∧ seek h s pos = (h, none)) := by
  unfold seek
  by_cases hc : s.start ≤ pos ∧ pos ≤ s.end_
  · left
    refine ⟨hc.1, hc.2, _, _, by rw [if_pos hc], WF_incRc _ _ _ (WF_sub h s wf pos s.end_ hc.2 (Nat.le_refl _)), ?_⟩
    rw [bits_incRc, bits_eq, bits_eq, slice_drop]
    congr 1; simp; omega
  · right; exact ⟨hc, by rw [if_neg hc]⟩

theorem peek_refines (h : Heap) (s : Handle) (wf : WF h s) (n : Nat) (hn : s.start + n ≤ s.end_)
    (hu : s.end_ ≤ Bitstr.usizeMax) :
    ∃ h' r, peek h s n = (h', some r) ∧ WF h' r ∧ bits h' r = (bits h s).take n := by
  unfold peek checkedAdd
  rw [if_pos (by omega)]
  simp only
  rw [if_pos ⟨by omega, hn⟩]
  refine ⟨_, _, rfl, WF_incRc _ _ _ (WF_sub h s wf s.start (s.start + n) (by omega) hn), ?_⟩
  rw [bits_incRc, bits_eq, bits_eq, slice_take _ _ _ _ hn]

theorem peek_none (h : Heap) (s : Handle) (n : Nat) (hn : s.end_ < s.start + n) :
    peek h s n = (h, none) := by
  unfold peek checkedAdd
  by_cases h1 : s.start + n ≤ Bitstr.usizeMax
  · rw [if_pos h1]; simp only; rw [if_neg (by omega)]
  · rw [if_neg h1]

theorem substr_refines (h : Heap) (s : Handle) (wf : WF h s) (a b : Nat)
    (hab : a ≤ b) (ha : s.start ≤ a) (hb : b ≤ s.end_) :
    ∃ h' r, substr h s a b = (h', some r) ∧ WF h' r ∧
      bits h' r = Bits.slice (bits h s) (a - s.start) (b - s.start) := by
  unfold substr
  rw [if_pos ⟨hab, ha, hb⟩]
  refine ⟨_, _, rfl, WF_incRc _ _ _ (WF_sub h s wf a b hab hb), ?_⟩
  rw [bits_incRc, bits_eq, bits_eq, slice_slice _ _ _ _ _ (by omega)]
  simp only
  congr 1 <;> omega

theorem substr_none (h : Heap) (s : Handle) (a b : Nat) (hc : ¬(a ≤ b ∧ s.start ≤ a ∧ b ≤ s.end_)) :
    substr h s a b = (h, none) := by
  unfold substr; rw [if_neg hc]

/-- `read(n)`: the result is the first `n` bits, the receiver keeps the rest -/
theorem read_refines (h : Heap) (s : Handle) (wf : WF h s) (n : Nat) (hn : s.start + n ≤ s.end_)
    (hu : s.end_ ≤ Bitstr.usizeMax) :
    ∃ h' s' r, Bitstr.read h s n = (h', s', some r) ∧ WF h' r ∧ WF h' s' ∧
      bits h' r = (bits h s).take n ∧ bits h' s' = (bits h s).drop n := by
  unfold Bitstr.read checkedAdd
  rw [if_pos (by omega)]
  simp only
  rw [if_neg (by omega)]
  refine ⟨_, _, _, rfl, WF_incRc _ _ _ (WF_sub h s wf s.start (s.start + n) (by omega) hn),
    WF_incRc _ _ _ (WF_sub h s wf (s.start + n) s.end_ hn (Nat.le_refl _)), ?_, ?_⟩
  · rw [bits_incRc, bits_eq, bits_eq, slice_take _ _ _ _ hn]
  · rw [bits_incRc, bits_eq, bits_eq, slice_drop]

theorem read_none (h : Heap) (s : Handle) (n : Nat) (hn : s.end_ < s.start + n) :
    Bitstr.read h s n = (h, s, none) := by
  unfold Bitstr.read checkedAdd
  by_cases h1 : s.start + n ≤ Bitstr.usizeMax
  · rw [if_pos h1]; simp only; rw [if_pos (by omega)]
  · rw [if_neg h1]

theorem splitAt_refines (h : Heap) (s : Handle) (wf : WF h s) (k : Nat) (hk : s.start + k ≤ s.end_)
    (hu : s.end_ ≤ Bitstr.usizeMax) :
    ∃ h' l r, splitAt h s k = (h', some (l, r)) ∧ WF h' l ∧ WF h' r ∧
      bits h' l = (bits h s).take k ∧ bits h' r = (bits h s).drop k := by
  unfold splitAt checkedAdd
  rw [if_pos (by omega)]
  simp only
  rw [if_neg (by omega)]
  refine ⟨_, _, _, rfl,
    WF_incRc _ _ _ (WF_incRc _ _ _ (WF_sub h s wf s.start (s.start + k) (by omega) hk)),
    WF_incRc _ _ _ (WF_incRc _ _ _ (WF_sub h s wf (s.start + k) s.end_ hk (Nat.le_refl _))), ?_, ?_⟩
  · rw [bits_incRc, bits_incRc, bits_eq, bits_eq, slice_take _ _ _ _ hk]
  · rw [bits_incRc, bits_incRc, bits_eq, bits_eq, slice_drop]

/-! ### detach: same bits whatever the ownership situation (unique: returned as is; empty: fresh; else packed copy) -/

theorem detach_refines (h : Heap) (s : Handle) (wf : WF h s) :
    ∃ h' s', detach h s = .ok (h', s') ∧ WF h' s' ∧ bits h' s' = bits h s :=
  let ⟨h', s', h1, h2, h3, _⟩ := detach_spec h s wf
  ⟨h', s', h1, h2, h3⟩

/-- where the detached value starts inside its buffer does not depend on the ownership situation: it is
    always bit 0 (since repair e3b1a9c; before it a uniquely owned slice kept its start and a shared one
    was rebased, which `open-bitstr` + `offset` made visible) -/
theorem detach_start_is_zero (h h' : Heap) (s s' : Handle) (e : detach h s = .ok (h', s')) : s'.start = 0 := by
  unfold detach at e
  split at e
  · rename_i hc
    simp only [Bool.and_eq_true, beq_iff_eq] at hc
    cases e; exact hc.2
  · split at e
    · cases e; rfl
    · split at e
      · cases e; rfl
      · cases e
      · cases e

/-- `detach` changes the bits of no existing handle (any handle into an already allocated buffer) -/
theorem detach_isolation (h : Heap) (s : Handle) (wf : WF h s) (t : Handle) (ht : t.buf < h.next) :
    ∃ h' s', detach h s = .ok (h', s') ∧ bits h' t = bits h t :=
  let ⟨h', s', h1, _, _, h4⟩ := detach_spec h s wf
  ⟨h', s', h1, h4 t ht⟩

/-! ### equality: both the byte-slice fast path and the `iter8` path decide equality of the bit sequences -/

theorem eqWith_refines (h : Heap) (a b : Handle) (wa : WF h a) (wb : WF h b) :
    (h.view a).eqWith (h.view b) = .ok (decide (bits h a = bits h b)) :=
  View.eqWith_spec _ _ wa.view wb.view

/-! ### byte and hex export -/

theorem toBytesWithPadding_refines (h : Heap) (s : Handle) (wf : WF h s) :
    (h.view s).toBytesWithPadding = .ok (toBytesPad (bits h s)) :=
  View.toBytesWithPadding_spec _ wf.view

theorem toBytes_refines (h : Heap) (s : Handle) (wf : WF h s) :
    (h.view s).toBytes = .ok (Bits.toBytes (bits h s)) :=
  View.toBytes_spec _ wf.view

theorem bytestr_refines (h : Heap) (s : Handle) (wf : WF h s) :
    (h.view s).bytestr = .ok (Bits.toBytes (bits h s)) :=
  View.bytestr_spec _ wf.view

theorem toHexString_refines (h : Heap) (s : Handle) (wf : WF h s) :
    (h.view s).toHexString = .ok (toHex (bits h s)) :=
  View.toHexString_spec _ wf.view

/-- `slice()` is the zero-copy accessor: by contract it answers only for byte-aligned byte-multiple
    values; when it answers, the bytes spell exactly the bit sequence -/
theorem slice_refines (h : Heap) (s : Handle) (wf : WF h s) (ha : s.start % 8 = 0)
    (hl : (s.end_ - s.start) % 8 = 0) :
    ∃ bs, (h.view s).slice = .ok (some bs) ∧ bits h s = ofBytes bs :=
  let ⟨bs, h1, h2, _⟩ := View.slice_spec _ wf.view ha hl
  ⟨bs, h1, h2⟩

theorem slice_unaligned (h : Heap) (s : Handle) (hn : ¬(s.start % 8 = 0 ∧ (s.end_ - s.start) % 8 = 0)) :
    (h.view s).slice = .ok none :=
  View.slice_none _ hn

/-- the range operations, `clone` and `drop` change the bits of no handle whatsoever (they only touch
    reference counts) — the "operands are never modified" half for these operations -/
theorem range_ops_isolation (h : Heap) (s t : Handle) (a b : Nat) :
    bits (seek h s a).1 t = bits h t ∧ bits (peek h s a).1 t = bits h t ∧
    bits (substr h s a b).1 t = bits h t ∧ bits (Bitstr.read h s a).1 t = bits h t ∧
    bits (splitAt h s a).1 t = bits h t ∧ bits (clone h s).1 t = bits h t ∧ bits (drop h s) t = bits h t := by
  refine ⟨?_, ?_, ?_, ?_, ?_, ?_, ?_⟩
  · unfold seek; split <;> simp
  · unfold peek; split
    · rfl
    · split <;> simp
  · unfold substr; split <;> simp
  · unfold Bitstr.read; split
    · rfl
    · split <;> simp
  · unfold splitAt; split
    · rfl
    · split <;> simp
  · simp [clone]
  · simp [drop]

/-- hypotheses are satisfiable by a non-trivial state: a 13-bit slice at bit offset 3 -/
example : WF (fromVec Heap.empty [0xab, 0xcd, 0xef]).1 ⟨3, 16, 0⟩ := by
  refine ⟨⟨by decide, by decide, ?_⟩, by decide, by decide⟩
  intro b hb
  simp [fromVec, Heap.alloc, Heap.view, Heap.empty] at hb
  omega

/-
Statements not yet proved (full strength, kept visible; currently validated by Tie A + oracle only):

theorem append_refines (h : Heap) (s t : Handle) (ws : WF h s) (wt : WF h t) (hne : s ≠ t as pool entries) :
    ∃ h' r, append h s t = .ok (h', r) ∧ WF h' r ∧ bits h' r = bits h s ++ bits h t
      -- for BOTH paths: byte-aligned fast path (extend_from_slice) and bitwise slow path, after
      -- `truncate(upper_bound_index(end))` + masking of the slack bits of the last byte; unique owner
      -- with slack after `end_` and stale bits included.

theorem insert_refines (h : Heap) (s t : Handle) (k : Nat) (ws : WF h s) (wt : WF h t) (hk : s.start + k ≤ s.end_) :
    ∃ h' r, insert h s k t = .ok (h', some r) ∧ WF h' r ∧
      bits h' r = (bits h s).take k ++ bits h t ++ (bits h s).drop k

theorem invert_refines (h : Heap) (s : Handle) (ws : WF h s) :
    ∃ h' r, invert h s = .ok (h', r) ∧ WF h' r ∧ bits h' r = Bits.invert (bits h s)

theorem handle_isolation (pool : List Handle) (h : Heap) (hp : PoolWF h pool)   -- rc b = #handles into b
    (op ∈ {append, insert, invert}) (s ∈ pool consumed) (u ∈ pool, u ≠ s) :
    bits h' u = bits h u
      -- in-place mutation happens only when rc = 1, i.e. no other pool handle shares the buffer;
      -- otherwise a fresh buffer (id = h.next) is written.

theorem fromHexStr_refines (h : Heap) (cs : List Char) :
    match fromHexStr h cs, parseHex cs with
    | .ok (h', s), .ok l => bits h' s = l ∧ WF h' s
    | .error p, .error q => p = q
    | _, _ => False
-/

end Xeh.C04
