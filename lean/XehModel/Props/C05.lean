/-
C05 — number ↔ bits codecs are exact inverses and independent of alignment.

Property theorems only (helpers: Proofs/BitsLemmas, BitsTable, BitstrLemmas, BitstrHeap).
Every statement quantifies over every heap `h` and every well-formed handle `s`: any start offset,
any slack after `end_`, any stale bits outside the range, borrowed or owned, shared or unique.
The right-hand sides mention only `bits h s` (the denoted bit sequence), hence offset independence.
-/
import XehModel.Proofs.BitstrHeap

namespace Xeh.C05
open Xeh Xeh.Bits Xeh.Bitstr

/-- big-endian `to_uint` = the MSB-first value of the bit sequence (low 128 bits: `acc << n` drops the rest) -/
theorem toUint_be (h : Heap) (s : Handle) (wf : WF h s) :
    (h.view s).toUint .big = .ok (beVal (bits h s) % 2 ^ 128) :=
  View.toUint_be_spec _ wf.view

/-- little-endian `to_uint` = byte groups counted from the value's first bit, group k at shift 8k -/
theorem toUint_le (h : Heap) (s : Handle) (wf : WF h s) :
    (h.view s).toUint .little = .ok (leVal (bits h s) % 2 ^ 128) :=
  View.toUint_le_spec _ wf.view

/-- within the property's width range nothing is truncated -/
theorem toUint_be_exact (h : Heap) (s : Handle) (wf : WF h s) (hw : s.end_ - s.start ≤ 128) :
    (h.view s).toUint .big = .ok (beVal (bits h s)) := by
  rw [toUint_be h s wf, Nat.mod_eq_of_lt]
  have := beVal_lt (bits h s)
  rw [bits_length h s wf] at this
  exact Nat.lt_of_lt_of_le this (Nat.pow_le_pow_right (by decide) hw)

theorem toUint_le_exact (h : Heap) (s : Handle) (wf : WF h s) (hw : s.end_ - s.start ≤ 128) :
    (h.view s).toUint .little = .ok (leVal (bits h s)) := by
  rw [toUint_le h s wf, Nat.mod_eq_of_lt]
  have := leVal_lt (bits h s)
  rw [bits_length h s wf] at this
  exact Nat.lt_of_lt_of_le this (Nat.pow_le_pow_right (by decide) hw)

/-- the decoded number is a function of the bit sequence alone: two handles — in any two heaps, at any
    two offsets, with any surroundings — that denote the same bits decode to the same number -/
theorem toUint_offset_independent (h₁ h₂ : Heap) (s₁ s₂ : Handle) (wf₁ : WF h₁ s₁) (wf₂ : WF h₂ s₂)
    (heq : bits h₁ s₁ = bits h₂ s₂) (o : Byteorder) :
    (h₁.view s₁).toUint o = (h₂.view s₂).toUint o := by
  cases o
  · rw [toUint_le h₁ s₁ wf₁, toUint_le h₂ s₂ wf₂, heq]
  · rw [toUint_be h₁ s₁ wf₁, toUint_be h₂ s₂ wf₂, heq]

/-- hypotheses are satisfiable by a non-trivial state: a 13-bit field at bit offset 3 of a shared buffer -/
example : WF (fromVec Heap.empty [0xab, 0xcd, 0xef]).1 ⟨3, 16, 0⟩ := by
  refine ⟨⟨by decide, by decide, ?_⟩, by decide, by decide⟩
  intro b hb
  simp [fromVec, Heap.alloc, Heap.view, Heap.empty] at hb
  omega

end Xeh.C05
