/-
C05 — number ↔ bits codecs are exact inverses and independent of alignment.

Property theorems only (helpers: Proofs/BitsLemmas, BitsTable, BitstrLemmas, BitstrHeap).
Every statement quantifies over every heap `h` and every well-formed handle `s`: any start offset,
any slack after `end_`, any stale bits outside the range, borrowed or owned, shared or unique.
The right-hand sides mention only `bits h s` (the denoted bit sequence), hence offset independence.

PROVED here: toUint_be/le (+exact), offset independence (uint, int, floats), toInt_spec, fromInt_wf,
fromInt_bits_be, fromInt_toUint, fromInt_toInt, sext_mod_id, byte_layout_le/be, f32/f64 round trips.
`byte_layout_*` are stated with `(v % 2^128).toNat` (= `v as u128`); `leBytes k`/`beBytes k` read only its low
8k bits.  NOT carried by theorems (correspondence + oracle only): the language words (thin layer over these
functions, Driver/C05.lean) and the hardware conversions `f64 as f32` / `f32 as f64` inside `f32!` / `f32`.
Outside the property (widths > 128): `from_int` uses `i128::wrapping_shr`, whose count is masked with 127; the
model reproduces that (`shrByte`), the theorems assume `n ≤ 128`.
-/
import XehModel.Proofs.BitstrCodec

namespace Xeh.C05
open Xeh Xeh.Bits Xeh.Bitstr

/-- big-endian `to_uint` = the MSB-first value of the bit sequence (low 128 bits: `acc << n` drops the rest) -/
theorem toUint_be (h : Heap) (s : Handle) (wf : WF h s) :
    (h.view s).toUint .big = .ok (beVal (bits h s) % 2 ^ 128) :=
  View.toUint_be_spec _ wf.view

/-- little-endian `to_uint` = byte groups counted from the value's first bit, group k at shift 8k -/
theorem toUint_le (h : Heap) (s : Handle) (wf : WF h s) :
    (h.view s).toUint .little = .ok (leVal (bits h s) % 2 ^ 128) :=
  View.toUint_le_spec _ wf.view

/-- within the property's width range nothing is truncated -/
theorem toUint_be_exact (h : Heap) (s : Handle) (wf : WF h s) (hw : s.end_ - s.start ≤ 128) :
    (h.view s).toUint .big = .ok (beVal (bits h s)) := by
  rw [toUint_be h s wf, Nat.mod_eq_of_lt]
  have := beVal_lt (bits h s)
  rw [bits_length h s wf] at this
  exact Nat.lt_of_lt_of_le this (Nat.pow_le_pow_right (by decide) hw)

theorem toUint_le_exact (h : Heap) (s : Handle) (wf : WF h s) (hw : s.end_ - s.start ≤ 128) :
    (h.view s).toUint .little = .ok (leVal (bits h s)) := by
  rw [toUint_le h s wf, Nat.mod_eq_of_lt]
  have := leVal_lt (bits h s)
  rw [bits_length h s wf] at this
  exact Nat.lt_of_lt_of_le this (Nat.pow_le_pow_right (by decide) hw)

/-- the decoded number is a function of the bit sequence alone: two handles — in any two heaps, at any
    two offsets, with any surroundings — that denote the same bits decode to the same number -/
theorem toUint_offset_independent (h₁ h₂ : Heap) (s₁ s₂ : Handle) (wf₁ : WF h₁ s₁) (wf₂ : WF h₂ s₂)
    (heq : bits h₁ s₁ = bits h₂ s₂) (o : Byteorder) :
    (h₁.view s₁).toUint o = (h₂.view s₂).toUint o := by
  cases o
  · rw [toUint_le h₁ s₁ wf₁, toUint_le h₂ s₂ wf₂, heq]
  · rw [toUint_be h₁ s₁ wf₁, toUint_be h₂ s₂ wf₂, heq]

/-! ### signed decoding -/

/-- `to_int` is the two's-complement reading of `to_uint` for every width 1..128 (both orders) -/
theorem toInt_spec (h : Heap) (s : Handle) (wf : WF h s) (o : Byteorder)
    (h1 : 1 ≤ s.end_ - s.start) (h128 : s.end_ - s.start ≤ 128) :
    ∃ u, (h.view s).toUint o = .ok u ∧ u < 2 ^ (s.end_ - s.start) ∧
      (h.view s).toInt o = .ok (sext (s.end_ - s.start) u) := by
  have hbl := bits_length h s wf
  cases o
  · refine ⟨leVal (bits h s), toUint_le_exact h s wf h128, ?_, ?_⟩
    · have := leVal_lt (bits h s); rw [hbl] at this; exact this
    · exact View.toInt_spec _ _ _ (toUint_le_exact h s wf h128)
        (by have := leVal_lt (bits h s); rw [hbl] at this; exact this) h1 h128
  · refine ⟨beVal (bits h s), toUint_be_exact h s wf h128, ?_, ?_⟩
    · have := beVal_lt (bits h s); rw [hbl] at this; exact this
    · exact View.toInt_spec _ _ _ (toUint_be_exact h s wf h128)
        (by have := beVal_lt (bits h s); rw [hbl] at this; exact this) h1 h128

theorem toInt_offset_independent (h₁ h₂ : Heap) (s₁ s₂ : Handle) (wf₁ : WF h₁ s₁) (wf₂ : WF h₂ s₂)
    (heq : bits h₁ s₁ = bits h₂ s₂) (o : Byteorder) :
    (h₁.view s₁).toInt o = (h₂.view s₂).toInt o := by
  have hu := toUint_offset_independent h₁ h₂ s₁ s₂ wf₁ wf₂ heq o
  have hl : s₁.end_ - s₁.start = s₂.end_ - s₂.start := by
    rw [← bits_length h₁ s₁ wf₁, ← bits_length h₂ s₂ wf₂, heq]
  exact toInt_congr _ _ o hu hl

/-! ### packing: `from_int` for every width up to 128, every `Int` value (values wider than the field included) -/

/-- the packed value is well-formed and has exactly `n` bits -/
theorem fromInt_wf (h : Heap) (v : Int) (n : Nat) (o : Byteorder) :
    WF (fromInt h v n o).1 (fromInt h v n o).2 ∧ ((fromInt h v n o).2.end_ - (fromInt h v n o).2.start = n) :=
  ⟨fromInt_WF h v n o, rfl⟩

/-- big-endian packing writes the `n` low bits of the value, most significant first -/
theorem fromInt_bits_be (h : Heap) (v : Int) (n : Nat) (hn : n ≤ 128) :
    bits (fromInt h v n .big).1 (fromInt h v n .big).2 = bitsOfNat n (v % 2 ^ n).toNat := by
  rw [fromInt_bits]
  simp only [fromIntBytes]
  rw [fromIntBE_bits v n n (Nat.le_refl _) hn, ← bitsOfNat_mod, asU128_mod v n hn]

/-- packing then unpacking returns the value reduced modulo 2^n (unsigned), both byte orders -/
theorem fromInt_toUint (h : Heap) (v : Int) (n : Nat) (o : Byteorder) (hn : n ≤ 128) :
    ((fromInt h v n o).1.view (fromInt h v n o).2).toUint o = .ok (v % 2 ^ n).toNat := by
  have wf := fromInt_WF h v n o
  cases o
  · rw [toUint_le_exact _ _ wf hn, fromInt_bits]
    simp only [fromIntBytes]
    have := fromIntLE_leVal v n hn n 0 (by omega) rfl (Nat.zero_le _)
    simp only [Nat.sub_zero, Nat.pow_zero, Nat.div_one] at this
    rw [this, asU128_mod v n hn]
  · rw [toUint_be_exact _ _ wf hn, fromInt_bits_be h v n hn, beVal_bitsOfNat]
    rw [Nat.mod_eq_of_lt (emod_toNat_lt v n)]

/-- … and two's-complement sign extension of that for the signed reading -/
theorem fromInt_toInt (h : Heap) (v : Int) (n : Nat) (o : Byteorder) (h1 : 1 ≤ n) (hn : n ≤ 128) :
    ((fromInt h v n o).1.view (fromInt h v n o).2).toInt o = .ok (sext n (v % 2 ^ n).toNat) := by
  have hu := fromInt_toUint h v n o hn
  exact View.toInt_spec _ o _ hu (emod_toNat_lt v n) h1 hn

/-- a value inside the signed range of the field survives the signed round trip unchanged -/
theorem sext_mod_id (v : Int) (n : Nat) (h1 : 1 ≤ n) (hlo : -(2 : Int) ^ (n - 1) ≤ v) (hhi : v < 2 ^ (n - 1)) :
    sext n (v % 2 ^ n).toNat = v := by
  have hp : (2 : Int) ^ n = 2 * 2 ^ (n - 1) := by
    have : n = (n - 1) + 1 := by omega
    conv => lhs; rw [this, Int.pow_succ]
    omega
  have hpn : (2 : Nat) ^ n = 2 * 2 ^ (n - 1) := by
    have : n = (n - 1) + 1 := by omega
    conv => lhs; rw [this, Nat.pow_succ]
    omega
  have hP : (0 : Int) < 2 ^ (n - 1) := Int.pow_pos (by decide)
  have hc : ((2 ^ (n - 1) : Nat) : Int) = (2 : Int) ^ (n - 1) := by simp
  unfold sext
  by_cases hv : 0 ≤ v
  · have : v % 2 ^ n = v := Int.emod_eq_of_lt hv (by omega)
    rw [this]
    have hvn : ((v.toNat : Nat) : Int) = v := Int.toNat_of_nonneg hv
    rw [if_pos (by omega), hvn]
  · have : v % 2 ^ n = v + 2 ^ n := by
      have h2 : (v + 2 ^ n) % 2 ^ n = v % 2 ^ n := Int.add_emod_right ..
      rw [← h2]; exact Int.emod_eq_of_lt (by omega) (by omega)
    rw [this]
    have hvn : (((v + 2 ^ n).toNat : Nat) : Int) = v + 2 ^ n := Int.toNat_of_nonneg (by omega)
    rw [if_neg (by omega), hvn]; omega

/-! ### byte-multiple widths agree with the platform's standard byte layouts -/

theorem byte_layout_le (v : Int) (n : Nat) (h8 : n % 8 = 0) (hn : n ≤ 128) :
    fromIntBytes v n .little = leBytes (n / 8) (v % 2 ^ 128).toNat := by
  simp only [fromIntBytes]
  have := fromIntLE_bytes v n h8 hn n 0 (by omega) rfl (Nat.zero_le _)
  simpa [asU128] using this

theorem byte_layout_be (v : Int) (n : Nat) (h8 : n % 8 = 0) (hn : n ≤ 128) :
    fromIntBytes v n .big = beBytes (n / 8) (v % 2 ^ 128).toNat := by
  simp only [fromIntBytes]
  exact fromIntBE_bytes v n n (Nat.le_refl _) h8 hn

/-! ### floats: bit patterns round-trip exactly (NaN payloads, infinities, subnormals are just patterns) -/

theorem f32_bits_roundtrip (h : Heap) (x : Nat) (hx : x < 2 ^ 32) (o : Byteorder) :
    ((fromF32 h x o).1.view (fromF32 h x o).2).toF32 o = .ok x := by
  unfold fromF32 fromVec View.toF32
  simp only
  rw [alloc_view]
  cases o
  · simp only [floatBytes]
    rw [toFloatBits_fresh (leBytes 4 x) (leBytes_lt 4 x) .little 4 (leBytes_length 4 x)]; simp only
    have hb : (leBytes 4 x).reverse = beBytes 4 x := rfl
    rw [hb, beBytesVal_beBytes, Nat.mod_eq_of_lt (by omega)]
  · simp only [floatBytes]
    have hl : (beBytes 4 x).length = 4 := by simp [beBytes, leBytes_length]
    rw [toFloatBits_fresh (beBytes 4 x) (by intro b hb; exact leBytes_lt 4 x b (by simpa [beBytes] using hb)) .big 4 hl]; simp only
    rw [beBytesVal_beBytes, Nat.mod_eq_of_lt (by omega)]

theorem f64_bits_roundtrip (h : Heap) (x : Nat) (hx : x < 2 ^ 64) (o : Byteorder) :
    ((fromF64 h x o).1.view (fromF64 h x o).2).toF64 o = .ok x := by
  unfold fromF64 fromVec View.toF64
  simp only
  rw [alloc_view]
  cases o
  · simp only [floatBytes]
    rw [toFloatBits_fresh (leBytes 8 x) (leBytes_lt 8 x) .little 8 (leBytes_length 8 x)]; simp only
    have hb : (leBytes 8 x).reverse = beBytes 8 x := rfl
    rw [hb, beBytesVal_beBytes, Nat.mod_eq_of_lt (by omega)]
  · simp only [floatBytes]
    have hl : (beBytes 8 x).length = 8 := by simp [beBytes, leBytes_length]
    rw [toFloatBits_fresh (beBytes 8 x) (by intro b hb; exact leBytes_lt 8 x b (by simpa [beBytes] using hb)) .big 8 hl]; simp only
    rw [beBytesVal_beBytes, Nat.mod_eq_of_lt (by omega)]

/-- float decoding reads the value only through `iter8`, i.e. it is a function of the bit sequence -/
theorem toFloat_offset_independent (h₁ h₂ : Heap) (s₁ s₂ : Handle) (wf₁ : WF h₁ s₁) (wf₂ : WF h₂ s₂)
    (heq : bits h₁ s₁ = bits h₂ s₂) (k : Nat) (o : Byteorder) :
    (h₁.view s₁).toFloatBits k o = (h₂.view s₂).toFloatBits k o := by
  unfold View.toFloatBits
  rw [View.iter8_spec _ wf₁.view, View.iter8_spec _ wf₂.view]
  have : (h₁.view s₁).bits = (h₂.view s₂).bits := heq
  rw [this]

/-- non-trivial instances: a 13-bit negative value, both orders -/
example : sext 13 ((-3 : Int) % 2 ^ 13).toNat = -3 := by decide

/-- hypotheses are satisfiable by a non-trivial state: a 13-bit field at bit offset 3 of a shared buffer -/
example : WF (fromVec Heap.empty [0xab, 0xcd, 0xef]).1 ⟨3, 16, 0⟩ := by
  refine ⟨⟨by decide, by decide, ?_⟩, by decide, by decide⟩
  intro b hb
  simp [fromVec, Heap.alloc, Heap.view, Heap.empty] at hb
  omega

end Xeh.C05
