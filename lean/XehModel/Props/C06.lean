/-
C06 — parsing cursor: a read returns exactly the requested bits and advances that far.

Property theorems only (helpers: Proofs/CursorLemmas, CursorRead, CursorLifo).  The model is
Model/Cursor.lean: `step : CurState → POp → CurState × Outcome Unit`, arguments on the data stack
`ds` (head = top) — *any* cells: huge, negative, of the wrong type, or missing.  All theorems
quantify over every state, every word and every stack; none restricts the arguments.

Vocabulary: `pos` is the offset relative to the input's first bit, `base` the absolute position of
that bit (`input.start()`), so Rust's `offset` = `base + pos`, `end` = `base + input.length`.
`slice s n` = bits `[offset, offset+n)` of the open input.  `Same s s'` = input, base, pos and stash
are unchanged.  `op.arity` = number of cells the word may take from the stack.

  inv_boot / inv_step / inv_history   the offset stays inside the input (also for every suspended input)
  offset_inside / remain_eq            start ≤ offset ≤ end;  `remain` pushes end − offset (no truncation)
  read_ok                              a successful read of n bits: n bits were available, the value is the
                                       decoding of exactly `slice s n`, the offset moved by exactly n, the
                                       value is on top and nothing else changed
  read_succeeds_bits / seek_iff        reads/seeks inside the input do succeed (the theorems are not vacuous)
  find_ok                              a successful find moves nothing and pushes the absolute offset of the FIRST
                                       byte position of the rest where the pattern occurs, or nil if there is none
  fail_atomic                          any word that does not succeed — read past the end, magic mismatch,
                                       seek out of range, find on a non-byte rest, huge/negative/ill-typed
                                       argument — leaves input, offset and stash untouched and the stack
                                       minus (a prefix of) its own arguments
  fail_history                         … hence a history of failing words leaves the cursor where it was
  open_close_lifo                      open-bitstr … close-bitstr restores input, offset and the stash exactly,
                                       for every word sequence in between that closes what it opens
  open_close_flat                      instance: any sequence without open/close words in between
-/
import XehModel.Proofs.CursorLemmas
import XehModel.Proofs.CursorRead
import XehModel.Proofs.CursorLifo
import XehModel.Proofs.CursorFind
import XehModel.Proofs.BitstrHeap

set_option linter.unusedSimpArgs false
set_option linter.unusedVariables false

namespace Xeh.C06
open Xeh Xeh.Cur

/-! ### the offset always stays inside the input -/

theorem inv_boot : Cur.Inv CurState.boot := by
  simp [Cur.Inv, CurState.boot]

theorem inv_step (s : CurState) (op : POp) (hi : Cur.Inv s) : Cur.Inv (step s op).1 :=
  inv_step_aux s op (step s op).1 (step s op).2 hi rfl

/-- for every history of words (errors included: the interpreter carries on with the next word) -/
theorem inv_history (ops : List POp) (s : CurState) (hi : Cur.Inv s) : Cur.Inv (runAll s ops) := by
  induction ops generalizing s with
  | nil => exact hi
  | cons op ops ih => exact ih _ (inv_step s op hi)

/-- in absolute terms: start ≤ offset ≤ end -/
theorem offset_inside (s : CurState) (hi : Cur.Inv s) :
    s.base ≤ s.base + s.pos ∧ s.base + s.pos ≤ s.base + s.input.length := by
  have := hi.1; omega

/-- `remain` = end − offset (as integers: nothing is clamped when the invariant holds) -/
theorem remain_eq (s : CurState) (hi : Cur.Inv s) (hroom : full s = false) :
    step s .remain =
      ({ s with ds := .int (((s.base + s.input.length : Nat) : Int) - ((s.base + s.pos : Nat) : Int)) :: s.ds },
       .ok ()) := by
  have := hi.1
  simp only [step, pushC, remainOf, hroom, Bool.false_eq_true, if_false]
  have e : ((s.input.length - s.pos : Nat) : Int) =
      ((s.base + s.input.length : Nat) : Int) - ((s.base + s.pos : Nat) : Int) := by omega
  rw [e]

/-! ### a successful read -/

/-- every read word (`bits bytes uN iN fN uint int float magic nulbytestr cstr`, all byte-order
    variants): if it succeeds then for some `n` — fixed by the word and its argument as `ReadSpec`
    says — `n` bits were available, the pushed value is the decoding of exactly bits
    `[offset, offset+n)`, the offset advanced by exactly `n`, and the rest of the state (input,
    stash, byte order, output, the stack below the word's arguments) is untouched. -/
theorem read_ok (s s' : CurState) (op : POp) (hop : op.isRead = true)
    (h : step s op = (s', .ok ())) :
    ∃ n v, s.pos + n ≤ s.input.length ∧ ReadSpec s n v op ∧
      s' = { s with pos := s.pos + n, ds := v :: s.ds.drop op.arity } :=
  read_ok_aux s op s' hop h

/-- … and it found room for its result: counted without the word's own arguments, the stack was below the limit
    configured with `set_stack_limit`.  Read the other way round: **with the stack at its limit no read succeeds** —
    and by `fail_atomic` a read that does not succeed, for this reason as for any other, leaves input, offset and
    stash untouched (the code used to move the offset before the refused push: repair afd22d3). -/
theorem read_ok_room (s s' : CurState) (op : POp) (hop : op.isRead = true)
    (h : step s op = (s', .ok ())) : full { s with ds := s.ds.drop op.arity } = false :=
  read_room_aux s op s' hop h

/-- the refusal spelled out: a read with the stack at its limit fails and moves nothing -/
theorem read_refused_moves_nothing (s : CurState) (op : POp) (hop : op.isRead = true)
    (hfull : full { s with ds := s.ds.drop op.arity } = true) :
    (step s op).2 ≠ .ok () ∧ Same s (step s op).1 := by
  have hne : (step s op).2 ≠ .ok () := by
    intro hok
    have := read_ok_room s (step s op).1 op hop (by rw [← hok])
    rw [hfull] at this
    exact Bool.noConfusion this
  exact ⟨hne, (fail_atomic_aux s op _ _ rfl hne).1⟩

/-- the bits handed back by `bits` are the slice itself and have the requested length -/
theorem read_ok_bits (s s' : CurState) (h : step s .bits = (s', .ok ())) :
    ∃ n c, s.ds.head? = some c ∧ c.toUsize = .ok n ∧
      s'.ds = .bitstr (slice s n) :: s.ds.tail ∧ (slice s n).length = n ∧
      s'.pos = s.pos + n ∧ Same s { s' with pos := s.pos } := by
  obtain ⟨n, v, hfit, ⟨c, hc, hn, rfl⟩, rfl⟩ := read_ok s s' .bits rfl h
  exact ⟨n, c, hc, hn, by simp [POp.arity], slice_length hfit, rfl, by simp [Same]⟩

/-- conversely a `bits` inside the input does succeed — for any representable size argument -/
theorem read_succeeds_bits (s : CurState) (c : Cell) (t : List Cell) (n : Nat)
    (hds : s.ds = c :: t) (hn : c.toUsize = .ok n) (hfit : s.pos + n ≤ s.input.length)
    (hbuf : s.base + s.input.length ≤ usizeMaxN) (hroom : full { s with ds := t } = false) :
    step s .bits = ({ s with pos := s.pos + n, ds := .bitstr (slice s n) :: t }, .ok ()) := by
  simp only [step, popUsize, popCell, hds, lift, hn, readWith_eq, peek, slice, hroom]
  have h1 : ¬ (s.base + s.pos + n > usizeMaxN) := by omega
  simp [h1, hfit]

/-- `seek p` succeeds exactly for start ≤ p ≤ end, and then offset = p -/
theorem seek_iff (s : CurState) (c : Cell) (t : List Cell) (p : Nat)
    (hds : s.ds = c :: t) (hp : c.toUsize = .ok p) :
    (step s .seek = ({ s with pos := p - s.base, ds := t }, .ok ()) ∧
        s.base ≤ p ∧ p ≤ s.base + s.input.length) ∨
    (step s .seek = ({ s with ds := t }, .err (.seekError p)) ∧
        ¬ (s.base ≤ p ∧ p ≤ s.base + s.input.length)) := by
  simp only [step, popUsize, popCell, hds, lift, hp, moveAbs, moveThen]
  by_cases h : s.base ≤ p ∧ p ≤ s.base + s.input.length
  · left; simp [h]
  · right; simp [h]

/-- a successful `find`: input, offset, stash untouched; the pattern and the rest are whole bytes and
    the rest starts on a byte boundary of its buffer; the result is `offset + 8·d` for the smallest
    byte index `d` at which the pattern occurs in the rest, or nil when it occurs at none -/
theorem find_ok (s s' : CurState) (h : step s .find = (s', .ok ())) :
    ∃ c t pat, s.ds = c :: t ∧ c.toBitstr = .ok pat ∧ pat.length % 8 = 0 ∧
      (s.base + s.pos) % 8 = 0 ∧ (s.input.length - s.pos) % 8 = 0 ∧
      ((∃ d, s' = { s with ds := .int ((s.base + s.pos + d * 8 : Nat) : Int) :: t } ∧
          d ≤ (s.input.length - s.pos) / 8 ∧
          occursAt pat (s.input.drop s.pos) d ∧ ∀ k, k < d → ¬ occursAt pat (s.input.drop s.pos) k) ∨
       (s' = { s with ds := .nil :: t } ∧
          ∀ k, k ≤ (s.input.length - s.pos) / 8 → ¬ occursAt pat (s.input.drop s.pos) k)) :=
  find_ok_aux s s' h

/-! ### failures are atomic -/

/-- whatever the word and whatever is on the stack: if the word does not succeed (error or panic),
    input, offset and stash are untouched, the byte order too, and the data stack is the old one
    minus at most `op.arity` cells from the top (the arguments the word had already popped). -/
theorem fail_atomic (s s' : CurState) (op : POp) (r : Outcome Unit)
    (h : step s op = (s', r)) (hr : r ≠ .ok ()) :
    Same s s' ∧ s'.ds <:+ s.ds ∧ s.ds.length ≤ s'.ds.length + op.arity ∧ s'.bigEndian = s.bigEndian :=
  fail_atomic_aux s op s' r h hr

/-- a whole history of failing words leaves the cursor where it was -/
theorem fail_history (ops : List POp) (s : CurState)
    (hfail : ∀ (p : List POp) (op : POp), p ++ [op] <+: ops → (step (runAll s p) op).2 ≠ .ok ()) :
    Same s (runAll s ops) := by
  induction ops generalizing s with
  | nil => simp [Same, runAll]
  | cons op ops ih =>
    have h1 := (fail_atomic s (step s op).1 op _ rfl (hfail [] op (by simp))).1
    have h2 : Same (step s op).1 (runAll (step s op).1 ops) := by
      apply ih
      intro p o hp
      have := hfail (op :: p) o (by simpa using hp)
      simpa [runAll_cons] using this
    rw [runAll_cons]
    unfold Same at *
    obtain ⟨a1, a2, a3, a4⟩ := h1
    obtain ⟨b1, b2, b3, b4⟩ := h2
    exact ⟨b1.trans a1, b2.trans a2, b3.trans a3, b4.trans a4⟩

/-! ### close-bitstr restores the previously open input and offset, in LIFO order -/

/-- `open-bitstr` of any bit-string, then any words that never close more than they opened
    (`hnest`: the stash never gets shallower than right after our open) and end at the same depth
    (`hbal`), then `close-bitstr`: the close succeeds and input, start, offset **and the whole stash
    underneath** are exactly what they were before the open.  Words in between may fail, may open and
    close further inputs (apply the theorem to them recursively), may carry any arguments. -/
theorem open_close_lifo (s : CurState) (c : Cell) (b : List Bool) (t : List Cell) (base : Nat)
    (ops : List POp) (hds : s.ds = c :: t) (hc : c.toBitstr = .ok b)
    (hnest : ∀ p, p <+: ops →
      s.stash.length + 1 ≤ (runAll (step s (.openBitstr base)).1 p).stash.length)
    (hbal : (runAll (step s (.openBitstr base)).1 ops).stash.length = s.stash.length + 1) :
    (step s (.openBitstr base)).2 = .ok () ∧
    (step s (.openBitstr base)).1.input = b ∧ (step s (.openBitstr base)).1.pos = 0 ∧
    (step (runAll (step s (.openBitstr base)).1 ops) .closeBitstr).2 = .ok () ∧
    Same s (step (runAll (step s (.openBitstr base)).1 ops) .closeBitstr).1 := by
  have hok : (step s (.openBitstr base)).2 = .ok () := by
    simp only [step, popBitstr, popCell, hds, lift, hc]
  have hin : (step s (.openBitstr base)).1.input = b := by
    simp only [step, popBitstr, popCell, hds, lift, hc]
  have hpos : (step s (.openBitstr base)).1.pos = 0 := by
    simp only [step, popBitstr, popCell, hds, lift, hc]
  have hst1 : (step s (.openBitstr base)).1.stash = ⟨s.input, s.base, s.pos⟩ :: s.stash := by
    simp only [step, popBitstr, popCell, hds, lift, hc]
  have hsuf := runAll_stash_suffix _ ops (step s (.openBitstr base)).1 (List.suffix_refl _)
    (by intro p hp; have := hnest p hp; rw [hst1]; simpa using this)
  have heq : (step s (.openBitstr base)).1.stash = (runAll (step s (.openBitstr base)).1 ops).stash :=
    hsuf.eq_of_length (by rw [hbal, hst1]; simp)
  rw [hst1] at heq
  refine ⟨hok, hin, hpos, ?_⟩
  generalize runAll (step s (.openBitstr base)).1 ops = sf at heq
  constructor <;> simp [step, ← heq, Same]

/-- words other than open-bitstr/close-bitstr -/
def notOpenClose : POp → Bool
  | .openBitstr _ | .closeBitstr => false
  | _ => true

theorem stash_flat (ops : List POp) (s : CurState) (hflat : ops.all notOpenClose = true) :
    (runAll s ops).stash = s.stash := by
  induction ops generalizing s with
  | nil => rfl
  | cons op ops ih =>
    simp only [List.all_cons, Bool.and_eq_true] at hflat
    rw [runAll_cons, ih _ hflat.2]
    have h1 := hflat.1
    cases op <;> simp [notOpenClose] at h1 <;>
    simp only [step, popUsize, popBitstr, popCell, lift, readWith_eq, nulRead_eq, moveAbs, moveThen, pushC,
      packIntBo, packFloatBo] <;>
    (repeat' split) <;> simp_all

/-- instance of `open_close_lifo`: any words except open/close in between, any arguments, any failures -/
theorem open_close_flat (s : CurState) (c : Cell) (b : List Bool) (t : List Cell) (base : Nat)
    (ops : List POp) (hds : s.ds = c :: t) (hc : c.toBitstr = .ok b)
    (hflat : ops.all notOpenClose = true) :
    (step (runAll (step s (.openBitstr base)).1 ops) .closeBitstr).2 = .ok () ∧
    Same s (step (runAll (step s (.openBitstr base)).1 ops) .closeBitstr).1 := by
  have hopen : (step s (.openBitstr base)).1.stash = ⟨s.input, s.base, s.pos⟩ :: s.stash := by
    simp only [step, popBitstr, popCell, hds, lift, hc]
  have h := open_close_lifo s c b t base ops hds hc
    (by
      intro p hp
      obtain ⟨q, rfl⟩ := hp
      have hp' : p.all notOpenClose = true := by
        simp only [List.all_append, Bool.and_eq_true] at hflat; exact hflat.1
      rw [stash_flat p _ hp', hopen]; simp)
    (by rw [stash_flat ops _ hflat, hopen]; simp)
  exact ⟨h.2.2.2.1, h.2.2.2.2⟩

/-! ### the hypotheses are satisfiable: concrete non-trivial instances -/

/-- input `1011 0010 1` opened at buffer position 3, offset 2 -/
def exState : CurState :=
  { input := [true, false, true, true, false, false, true, false, true], base := 3, pos := 2,
    stash := [⟨[true, true], 0, 1⟩], ds := [.int 4, .nil] }

example : Cur.Inv exState := by decide

/-- `4 bits` reads bits [2,6) = 1100 and moves the offset to 6 -/
example : step exState .bits =
    ({ exState with pos := 6, ds := [.bitstr [true, true, false, false], .nil] }, .ok ()) := by decide

/-- `2^64 bits`: IntegerOverflow, only the argument is gone -/
example : step { exState with ds := [.int (2^64), .nil] } .bits =
    ({ exState with ds := [.nil] }, .err .integerOverflow) := by decide

/-- `2^64-1 bits`: the offset addition would overflow usize — ReadError, nothing moved -/
example : step { exState with ds := [.int (2^64 - 1), .nil] } .bits =
    ({ exState with ds := [.nil] }, .err (.readError 7 (2^64 - 1))) := by decide

/-- the hypothesis of `read_refused_moves_nothing` is met by a stack at its limit — `set_stack_limit(Some(1))` with one
    cell on the stack, then `u8` (no argument), or `4 bits` with the limit lowered to 0 after the argument was pushed -/
example : full { ({ exState with stackLimit := some 3 } : CurState) with ds := ({ exState with stackLimit := some 3 } : CurState).ds.drop (POp.readU 8 none).arity } = false := by decide
example : full { ({ exState with stackLimit := some 2 } : CurState) with ds := ({ exState with stackLimit := some 2 } : CurState).ds.drop (POp.readU 8 none).arity } = true := by decide
example : full { ({ exState with stackLimit := some 1 } : CurState) with ds := ({ exState with stackLimit := some 1 } : CurState).ds.drop POp.bits.arity } = true := by decide
example : Same ({ exState with stackLimit := some 1 } : CurState) (step { exState with stackLimit := some 1 } .bits).1 :=
  (read_refused_moves_nothing _ .bits rfl (by decide)).2

/-- nested open/close with a failing read in between satisfies `hnest`/`hbal` of `open_close_lifo` -/
example :
    let ops : List POp := [.push (.int 99), .bits, .push (.bitstr [true]), .openBitstr 0, .readU 8 none,
      .closeBitstr, .push (.int 1), .bits]
    (∀ p, p <+: ops → exState.stash.length + 1 ≤
        (runAll (step { exState with ds := [.bitstr [false, true, true]] } (.openBitstr 5)).1 p).stash.length) ∧
    (runAll (step { exState with ds := [.bitstr [false, true, true]] } (.openBitstr 5)).1 ops).stash.length
      = exState.stash.length + 1 := by
  refine ⟨?_, by decide⟩
  intro p hp
  have key : ∀ k, k < 9 → exState.stash.length + 1 ≤
      (runAll (step { exState with ds := [.bitstr [false, true, true]] } (.openBitstr 5)).1
        (List.take k [POp.push (.int 99), .bits, .push (.bitstr [true]), .openBitstr 0, .readU 8 none,
          .closeBitstr, .push (.int 1), .bits])).stash.length := by decide
  have hlen := hp.length_le
  rw [List.prefix_iff_eq_take.mp hp]
  exact key _ (by simp at hlen; omega)

/-! ### the two layers agree: the cursor model's input is a bit list, the implementation's is a handle into a buffer -/

/-- **Reads do not depend on how the input is stored.** The cursor model (Model/Cursor.lean) keeps the open input as a
    plain list of bits and a base; the implementation keeps a `Bitstr` handle and reads with
    `substr(offset, offset + n)` (`peek_bits`). For EVERY buffer heap and EVERY well-formed handle that denotes the
    model's input and starts at the model's base — a fresh value, a slice of a longer buffer with stale bits around
    it, a buffer shared with other values — the model's `peek` succeeds exactly when that `substr` does, and with the
    same bits. (With `Proofs/BitstrPoolStep.lean` this holds on every state an operation history reaches.) -/
theorem reads_do_not_depend_on_storage (h : Bitstr.Heap) (inp : Bitstr.Handle) (wf : Bitstr.WF h inp) (cs : CurState)
    (hin : cs.input = Bitstr.bits h inp) (hbase : cs.base = inp.start) (n : Nat) :
    match peek cs n with
    | .ok bs => ∃ h' r, Bitstr.substr h inp (cs.base + cs.pos) (cs.base + cs.pos + n) = (h', some r) ∧
        Bitstr.WF h' r ∧ Bitstr.bits h' r = bs
    | _ => cs.base + cs.pos + n > usizeMaxN ∨
        Bitstr.substr h inp (cs.base + cs.pos) (cs.base + cs.pos + n) = (h, none) := by
  have hlen : cs.input.length = inp.end_ - inp.start := by rw [hin]; exact Bitstr.bits_length h inp wf
  have hle : inp.start ≤ inp.end_ := wf.view.le
  unfold peek
  by_cases h1 : cs.base + cs.pos + n > usizeMaxN
  · rw [if_pos h1]; exact Or.inl h1
  · rw [if_neg h1]
    by_cases h2 : cs.pos + n ≤ cs.input.length
    · rw [if_pos h2]
      simp only
      have hb : cs.base + cs.pos + n ≤ inp.end_ := by omega
      refine ⟨_, _, by unfold Bitstr.substr; rw [if_pos ⟨by omega, by omega, hb⟩],
        Bitstr.WF_incRc _ _ _ (Bitstr.WF_sub h inp wf _ _ (by omega) hb), ?_⟩
      rw [Bitstr.bits_incRc, Bitstr.bits_eq, hin, Bitstr.bits_eq]
      show Bits.slice _ (cs.base + cs.pos) (cs.base + cs.pos + n) = _
      unfold Bits.slice
      rw [List.drop_take, List.drop_drop, List.take_take]
      congr 1
      · omega
      · congr 1; omega
    · rw [if_neg h2]
      right
      unfold Bitstr.substr
      rw [if_neg (by omega)]

end Xeh.C06
