/-
C07 — binary construction is the inverse of binary parsing.

Property theorems only (helpers: Proofs/CursorBitsLemmas, Proofs/CursorRecordLemmas).  Model:
Model/Cursor.lean (`step`, the construction words `uN! iN! int! uint! fN! float!`, `>bitstr`,
`emit`, `output`, `output-length`, and the read words) and Model/CursorRecord.lean (`Field`, the
words that pack a field `Field.packProg`, the matching read words `Field.parseProg`, the record's
bits `packAll`, the value a read must deliver `Field.value`).

A field list may contain integers of any width and signedness in either byte order (through the
generic `w int!`/`w int`/`w uint` words, or the fixed-width words with explicit or current byte
order — byte-order switches are therefore part of the field list, and since widths are arbitrary
fields start at every bit alignment), 32/64-bit floats, raw bit-strings, strings, byte lists and
NUL-terminated byte strings.

Domain (`Field.Ok`, `RecOk`): unsigned width ≤ 127 and signed width ≤ 128 (the read words reject
longer integers: an unsigned 128-bit value does not fit the interpreter's i128 cell), float width
32|64, byte-list elements < 256, NUL-terminated strings without embedded NUL and — because
`cstr`/`nulbytestr` refuse to read unless the remaining input is a whole number of bytes — only
at positions from which the rest of the record is a whole number of bytes.  Integer *values* are
unrestricted: any `Int` is reduced to the width (`Field.value`).

  int_roundtrip_unsigned / _signed   to_uint/to_int ∘ from_int = reduction to the width (list level)
  pack_len                           length of the record = Σ field widths
  pack_spec                          the pack words + `>bitstr` really produce `packAll fs`
  toBitstr_nested / bitstr_append_spec   `>bitstr` ignores vector nesting; `a b bitstr-append` = b ++ a
  pack_parse_inverse                 opening those bits and running the matching read words returns the
                                     values in order, consumes everything: remain = 0
  emit_concat                        for EVERY split of the field list across emit calls:
                                     output = previous output ++ record bits, output-length += their number
  f32 values: `Field.value` is f32to64 (f64to32 x) — the value reduced to the width; the rounding itself is
  Model/SoftFloat.lean (validated against hardware by the correspondence), not a theorem here.

Every theorem here assumes `s.stackLimit = none`: the round trip is stated for an interpreter without a stack limit
(a limit can refuse any push, and then the words fail as C06's `read_refused_moves_nothing` / `fail_atomic` say).
-/
import XehModel.Proofs.CursorRecordLemmas
import XehModel.Proofs.CursorLifo

set_option linter.unusedSimpArgs false
set_option linter.unusedVariables false

namespace Xeh.C07
open Xeh Xeh.Cur

/-! ### number ↔ bits at the list level -/

theorem int_roundtrip_unsigned (big : Bool) (v : Int) (n : Nat) (h : n ≤ 128) :
    (toUint big (fromInt big v n) : Int) = v % 2 ^ n := by
  rw [toUint_fromInt big v n h, natCast_emod_toNat]

theorem int_roundtrip_signed (big : Bool) (v : Int) (n : Nat) (h : n ≤ 128) :
    toInt big (fromInt big v n) = sext n (v % 2 ^ n).toNat :=
  toInt_fromInt big v n h

/-- a value that fits the width comes back unchanged (signed) -/
theorem int_roundtrip_exact (big : Bool) (v : Int) (n : Nat) (h : n ≤ 128) (hn : 0 < n)
    (hv : -(2 ^ (n - 1)) ≤ v ∧ v < 2 ^ (n - 1)) :
    toInt big (fromInt big v n) = v := by
  rw [toInt_fromInt big v n h]
  obtain ⟨m, rfl⟩ : ∃ m, n = m + 1 := ⟨n - 1, by omega⟩
  simp only [Nat.add_sub_cancel] at hv
  unfold sext
  have hp : (2 : Int) ^ (m + 1) = 2 * 2 ^ m := by rw [Int.pow_succ]; omega
  have hpn : ((2 ^ m : Nat) : Int) = 2 ^ m := by simp
  have hpos : (0 : Int) < 2 ^ m := Int.pow_pos (by decide)
  have hc := natCast_emod_toNat v (m + 1)
  by_cases hneg : v < 0
  · have e : v % 2 ^ (m + 1) = v + 2 ^ (m + 1) := by
      rw [← Int.add_emod_right v (2 ^ (m + 1))]
      exact Int.emod_eq_of_lt (by omega) (by omega)
    rw [e] at hc
    have hge : (v + 2 ^ (m + 1)).toNat ≥ 2 ^ m := by
      have : (((v + 2 ^ (m + 1)).toNat : Nat) : Int) ≥ ((2 ^ m : Nat) : Int) := by rw [hc, hpn]; omega
      exact Int.ofNat_le.mp this
    simp only [Nat.add_sub_cancel, show m + 1 ≠ 0 by omega, if_false, e, hge, if_true, hc]
    omega
  · have e : v % 2 ^ (m + 1) = v := Int.emod_eq_of_lt (by omega) (by omega)
    rw [e] at hc
    have hlt : ¬ v.toNat ≥ 2 ^ m := by
      intro hge
      have : ((v.toNat : Nat) : Int) ≥ ((2 ^ m : Nat) : Int) := Int.ofNat_le.mpr hge
      rw [hc, hpn] at this; omega
    simp only [Nat.add_sub_cancel, show m + 1 ≠ 0 by omega, if_false, e, hlt, hc]

/-! ### length = sum of the field widths -/

theorem pack_len (fs : List Field) : (packAll fs).length = (fs.map Field.width).sum :=
  packAll_length fs

/-! ### packing -/

/-- running the fields' pack words left to right (byte-order switches included) leaves pieces whose
    `>bitstr` flattening is exactly `packAll fs`; the data stack is as before plus the result -/
theorem pack_spec (fs : List Field) (s : CurState) (hok : ∀ f ∈ fs, f.Ok) (hlim : s.stackLimit = none) :
    ∃ be cs, pieces s fs = ({ s with bigEndian := be }, .ok cs) ∧
      run { s with bigEndian := be } [.push (.vec (CellList.ofList cs)), .toBitstr] =
        ({ s with bigEndian := be, ds := .bitstr (packAll fs) :: s.ds }, .ok ()) := by
  obtain ⟨be, cs, hp, hc⟩ := pieces_spec fs s hok hlim
  exact ⟨be, cs, hp, toBitstr_vec_eval _ cs _ hc hlim⟩

/-- `>bitstr` ignores nesting: wrapping any run of pieces into a nested vector yields the same bits -/
theorem toBitstr_nested (a b c : List Cell) (x y z : List Bool)
    (ha : concatVec (CellList.ofList a) = .ok x) (hb : concatVec (CellList.ofList b) = .ok y)
    (hc : concatVec (CellList.ofList c) = .ok z) :
    bitstrConcat (.vec (CellList.ofList (a ++ [.vec (CellList.ofList b)] ++ c))) = .ok (x ++ y ++ z) ∧
    bitstrConcat (.vec (CellList.ofList (a ++ b ++ c))) = .ok (x ++ y ++ z) := by
  have hn : concatVec (CellList.ofList [.vec (CellList.ofList b)]) = .ok y := by
    simp [CellList.ofList, concatVec, concatElem, hb]
  constructor
  · exact concatVec_append _ _ _ _ (concatVec_append _ _ _ _ ha hn) hc
  · exact concatVec_append _ _ _ _ (concatVec_append _ _ _ _ ha hb) hc

/-- `a b bitstr-append` puts the top operand FIRST: the result is `b ++ a` -/
theorem bitstr_append_spec (s : CurState) (a b : List Bool) (t : List Cell)
    (hds : s.ds = .bitstr b :: .bitstr a :: t) (hlim : s.stackLimit = none) :
    step s .bitstrAppend = ({ s with ds := .bitstr (b ++ a) :: t }, .ok ()) := by
  simp [step, popBitstr, popCell, lift, hds, Cell.toBitstr, Cell.value, pushC, full, hlim]

/-! ### parse ∘ pack = id -/

/-- open the record's bits (at any buffer position `base`) and run the matching read words: no word
    fails, the values come back in order on top of the old stack, the offset is at the end
    (remain = 0), and the previously open input is suspended on the stash. -/
theorem pack_parse_inverse (fs : List Field) (s : CurState) (base : Nat) (hok : RecOk fs)
    (hbuf : base + (packAll fs).length ≤ usizeMaxN) (hlim : s.stackLimit = none) :
    ∃ be s', run s ([.push (.bitstr (packAll fs)), .openBitstr base] ++ parseAll fs) = (s', .ok ()) ∧
      s'.ds = (fs.map Field.value).reverse ++ s.ds ∧
      s'.input = packAll fs ∧ s'.pos = (packAll fs).length ∧ remainOf s' = 0 ∧
      step s' .remain = ({ s' with ds := .int 0 :: s'.ds }, .ok ()) ∧
      s'.stash = ⟨s.input, s.base, s.pos⟩ :: s.stash ∧ s'.bigEndian = be := by
  have hopen : run s [.push (.bitstr (packAll fs)), .openBitstr base] =
      ({ s with input := packAll fs, base := base, pos := 0, stash := ⟨s.input, s.base, s.pos⟩ :: s.stash }, .ok ()) := by
    simp [run, step, pushC, full, hlim, popBitstr, popCell, lift, Cell.toBitstr, Cell.value]
  obtain ⟨be, hrun⟩ := parse_all fs
    { s with input := packAll fs, base := base, pos := 0, stash := ⟨s.input, s.base, s.pos⟩ :: s.stash }
    hok (Nat.zero_le _) (by simp) hbuf hlim
  refine ⟨be, _, (run_append_ok hopen).trans hrun, ?_⟩
  simp [remainOf, step, pushC, full, hlim]

/-! ### "in the same byte order" -/

/-- the byte order is a setting of the interpreter, not of the input: no word but `big` and `little` changes it —
    opening an input (`open-bitstr`, `set_binary_input`), closing one, reading, seeking, packing, emitting, a failing
    word, a change of the stack limit: after any history the order in force is the one the last `big` / `little`
    selected (seeded change C07/12 reset it when an input was opened) -/
theorem byte_order_changes_only_by_big_little (s : CurState) (ops : List POp)
    (h : ∀ op ∈ ops, op ≠ .big ∧ op ≠ .little) : (runAll s ops).bigEndian = s.bigEndian := by
  induction ops generalizing s with
  | nil => rfl
  | cons op ops ih =>
    rw [runAll_cons, ih _ (fun o ho => h o (List.mem_cons_of_mem _ ho))]
    exact byteorder_step s op (h op List.mem_cons_self).1 (h op List.mem_cons_self).2

/-! ### emit -/

/-- with interception on (`output` holds a bit-string `o`), emitting the field list in groups — for
    every way `sizes` of cutting it — appends exactly the record's bits to `output` and adds their
    number to `output-length`; nothing else changes except the byte-order variable -/
theorem emit_concat (fs : List Field) (sizes : List Nat) (s : CurState) (o : List Bool)
    (hok : ∀ f ∈ fs, f.Ok) (ho : s.output = some o)
    (hlen : s.outputLen + (packAll fs).length ≤ usizeMaxN) (hlim : s.stackLimit = none) :
    ∃ be, emitGroups s (splitBy sizes fs) =
      ({ s with bigEndian := be, output := some (o ++ packAll fs), outputLen := s.outputLen + (packAll fs).length }, .ok ()) := by
  have hflat := splitBy_flatten sizes fs
  have hok' : ∀ g ∈ splitBy sizes fs, ∀ f ∈ g, f.Ok := by
    intro g hg f hf
    apply hok
    rw [← hflat]
    exact List.mem_flatten.mpr ⟨g, hg, hf⟩
  have := emitGroups_spec (splitBy sizes fs) s o hok' ho (by rw [hflat]; exact hlen) hlim
  rw [hflat] at this
  exact this

/-- `output` / `output-length` then read back exactly that -/
theorem output_words (s : CurState) (o : List Bool) (ho : s.output = some o) (hlim : s.stackLimit = none) :
    runAll s [.output, .outputLength] = { s with ds := .int s.outputLen :: .bitstr o :: s.ds } := by
  simp [runAll, step, pushC, full, hlim, ho]

/-! ### the hypotheses are satisfiable -/

/-- 3-bit raw field, a little-endian 13-bit signed integer (so the following fields are unaligned), a
    big-endian u16 through the fixed-width word, a NUL-terminated string where the rest is whole bytes -/
def exRecord : List Field :=
  [.raw [true, false, true], .int 13 true false .generic (-3), .int 16 false true .fixedBo 4660,
   .cstr [65, 66], .bytes [1, 2]]

example : RecOk exRecord := by
  simp only [RecOk, exRecord, Field.Ok, Field.isCstr]
  decide

example : (packAll exRecord).length = 72 := by decide

example : run CurState.boot ([.push (.bitstr (packAll exRecord)), .openBitstr 0] ++ parseAll exRecord) =
    ({ CurState.boot with
        input := packAll exRecord, pos := 72, stash := [⟨[], 0, 0⟩], bigEndian := false,
        ds := [.bitstr (bytesToBits [1, 2]), .str ['A', 'B'],
               .tagged (.int 4660) (numTags 16 true), .tagged (.int (-3)) (numTags 13 false),
               .bitstr [true, false, true]] }, .ok ()) := by decide

end Xeh.C07
