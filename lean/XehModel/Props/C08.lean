/-
C08 — no source text, input or API call sequence can crash the interpreter.

STATUS: **partial**. The property as stated quantifies over every word, every source text and
every API call sequence of the real interpreter, including host-level failure modes (host stack
exhaustion, allocator aborts, panics inside dependencies). Those are outside any model; they are
reached only by the implementation-side exploration of harness/src/props/c08.rs (search, not
proof). What *is* proved here is panic-freedom of the functions that have an executable model,
collected layer by layer: one section per layer, each exporting `noPanic_<layer>` theorems stated
with the single predicate `NoPanic`. Panics are values of the model (`Outcome.panic site`, also
used for every `unwrap`/index/overflow-check site of the modelled Rust code), so `NoPanic` is a
real statement about the modelled code paths in both build profiles.

Full statement (NOT claimed; kept visible):
  for every interpreter state `xs` reachable through the public API with instruction and stack
  limits set, every source text `t` and every API call `f ∈ {eval, compile, run, next, rnext,
  pretty_error, last_err_location, format_cell, format_cell_safe, fmt_opcode, set_binary_input}`:
  `f xs t` returns a result or an error value — the process never panics, aborts or traps.
Missing for the full statement: models of the layers that are not yet collected below (sections
are appended as the layers land), and anything host-level.

Layers collected so far:
  * L3 arithmetic (Model/Arith.lean): every word of `arithTable` (the 32 words of arith.rs except
    `random`), every data stack, hidden prefix 0.
-/
import XehModel.Props.C09
import XehModel.Driver.C08

namespace Xeh.C08
open Xeh Prog

/-- the outcome of a modelled function is a result or an error value, never a panic -/
def NoPanic {α : Type} (o : Outcome α) : Prop := ∀ site, o ≠ .panic site

theorem noPanic_ok {α : Type} (a : α) : NoPanic (Outcome.ok a) := fun _ h => by cases h
theorem noPanic_err {α : Type} (e : Xerr) : NoPanic (Outcome.err e : Outcome α) := fun _ h => by cases h

/-- `NoPanic` says exactly: the outcome is `ok _` or `err _` -/
theorem noPanic_iff {α : Type} (o : Outcome α) : NoPanic o ↔ (∃ a, o = .ok a) ∨ (∃ e, o = .err e) := by
  constructor
  · intro h
    cases o with
    | ok a => exact .inl ⟨a, rfl⟩
    | err e => exact .inr ⟨e, rfl⟩
    | panic s => exact absurd rfl (h s)
  · rintro (⟨a, rfl⟩ | ⟨e, rfl⟩)
    · exact noPanic_ok a
    · exact noPanic_err e

/-! ### layer L3 — arithmetic, comparison, logic and bitwise words (arith.rs) -/
section Arith

/-- every arithmetic word, on every data stack, returns a stack or an error value -/
theorem noPanic_arith : ∀ e ∈ arithTable, ∀ st : List Cell, NoPanic (e.2.runStack 0 st) :=
  fun e he st => (C09.type_error_payload_and_no_panic e he st).1

/-- the same, phrased for the lookup the driver (and therefore the correspondence check) uses -/
theorem noPanic_arith_word (w : String) (p : Prog) (hw : arithWord w = some p) (st : List Cell) :
    NoPanic (p.runStack 0 st) :=
  noPanic_arith (w, p) (C09.arithWord_mem w p hw) st

theorem arithAnswer_ne_panic (p : Prog) (cs : List Cell) (h : NoPanic (p.runStack 0 cs.reverse)) :
    Driver.C08.arithAnswer p cs ≠ "panic" := by
  unfold Driver.C08.arithAnswer
  cases ho : p.runStack 0 cs.reverse with
  | ok s => simp [Driver.C08.classOf]
  | err e => simp [Driver.C08.classOf]
  | panic site => exact absurd ho (h site)

/-- the model never answers `panic` to a `C08 arith …` request: an implementation-side `panic`
    on such a request is therefore always reported as a disagreement -/
theorem driver_arith_never_panic (w : String) (cells : List String) :
    Driver.C08.handle ("arith" :: w :: cells) ≠ "panic" := by
  simp only [Driver.C08.handle]
  split
  · next p cs hw hc => exact arithAnswer_ne_panic p cs (noPanic_arith_word w p hw _)
  · simp
  · simp

end Arith

/-! ### non-vacuity: concrete instances, including the inputs that panicked before the `fix:` commits -/

example : ("/", wordDiv) ∈ arithTable := by simp [arithTable]
example : NoPanic (wordDiv.runStack 0 [.int (-1), .int (-(2^127))]) := noPanic_arith ("/", wordDiv) (by simp [arithTable]) _
example : wordDiv.runStack 0 [.int (-1), .int (-(2^127))] = .err .integerOverflow := by decide
example : wordRem.runStack 0 [.int 0, .int 1] = .err .divisionByZero := by decide
example : wordAbs.runStack 0 [.int (-(2^127))] = .err .integerOverflow := by decide
example : ¬ NoPanic (Outcome.panic "x" : Outcome Nat) := fun h => h "x" rfl

/-! ### further layers: append one `section <Layer>` with its `noPanic_<layer>` theorems below -/

end Xeh.C08
