/-
C08 — no source text, input or API call sequence can crash the interpreter.

STATUS: **partial**. The property as stated quantifies over every word, every source text and
every API call sequence of the real interpreter, including host-level failure modes (host stack
exhaustion, allocator aborts, panics inside dependencies). Those are outside any model; they are
reached only by the implementation-side exploration of harness/src/props/c08.rs (search, not
proof). What *is* proved here is panic-freedom of the functions that have an executable model,
collected layer by layer: one section per layer, each exporting `noPanic_<layer>` theorems stated
with the single predicate `NoPanic`. Panics are values of the model (`Outcome.panic site`, also
used for every `unwrap`/index/overflow-check site of the modelled Rust code), so `NoPanic` is a
real statement about the modelled code paths in both build profiles.

Full statement (NOT claimed; kept visible):
  for every interpreter state `xs` reachable through the public API with instruction and stack
  limits set, every source text `t` and every API call `f ∈ {eval, compile, run, next, rnext,
  pretty_error, last_err_location, format_cell, format_cell_safe, fmt_opcode, set_binary_input}`:
  `f xs t` returns a result or an error value — the process never panics, aborts or traps.
Missing for the full statement: models of the layers that are not yet collected below (sections
are appended as the layers land), and anything host-level.

Layers collected so far:
  * L3 arithmetic (Model/Arith.lean): every word of `arithTable` (the 32 words of arith.rs except
    `random`), every data stack, hidden prefix 0.
  * L4 the VM (Model/VM.lean) over the whole modelled word table (93 words: stack, control helpers,
    arithmetic, collections, tags, text encodings, printing): `vm_never_panics` — for EVERY machine state
    (well formed or not), every program, every number of steps, `State::run` answers a result or an error
    value; the only `panic` values the model can produce are its own two gap markers (a word the table
    lacks, a value the printing model does not cover), which the driver reports as `unsupported`.
    `vm_step_panics_only_in_words` is the same for one `fetch_and_run` and an arbitrary word table.
  * L7 whole sources (Model/Session.lean): `source_never_panics` — `build_from_source` (what `eval`, `compile` and a
    REPL line do) on EVERY session, in every mode, with every token list — meta blocks at any depth, `const`,
    definitions, unbalanced anything — answers built / rejected / failed, never `panic`; `session_run_never_panics`
    for `run`. This is `vm_never_panics` carried through the session layer: the VM's two gap markers begin with
    "model:" (`Session.gap_marker`, a fact about `String.startsWith` on an interpolated message) and are answered
    `unsupported`; the session layer's own panic branches are unreachable. Because it holds for every session it
    holds for every history of calls.
  * L1 bit strings (Model/Bitstr.lean, where every index / `unwrap` / subtraction site of bitstr.rs is a
    `panic` value): on a well-formed handle no operation panics (`noPanic_bitstr`, from the C04 refinement
    theorems, which state `= .ok …`).
  * token location (`pretty_error` / `last_err_location`): `noPanic_token_location` (C17loc).
  * Z85 decoding: the crate function does panic (`C18.z85_crate_panics`); behind the guard of the glue no
    text reaches that path (`noPanic_z85`).
  * The lexer and the compiler models return `Except` / `CRes`, types without a panic value: for them
    panic-freedom is not a theorem but the content of the correspondence (every implementation answer,
    including `panic`, is compared with a model that cannot answer `panic`).
-/
import XehModel.Props.C09
import XehModel.Props.C04
import XehModel.Props.C17loc
import XehModel.Props.C18
import XehModel.Proofs.NativeNoPanic
import XehModel.Proofs.SessionNoPanic
import XehModel.Driver.C08

namespace Xeh.C08
open Xeh Prog

/-- the outcome of a modelled function is a result or an error value, never a panic -/
def NoPanic {α : Type} (o : Outcome α) : Prop := ∀ site, o ≠ .panic site

theorem noPanic_ok {α : Type} (a : α) : NoPanic (Outcome.ok a) := fun _ h => by cases h
theorem noPanic_err {α : Type} (e : Xerr) : NoPanic (Outcome.err e : Outcome α) := fun _ h => by cases h

/-- `NoPanic` says exactly: the outcome is `ok _` or `err _` -/
theorem noPanic_iff {α : Type} (o : Outcome α) : NoPanic o ↔ (∃ a, o = .ok a) ∨ (∃ e, o = .err e) := by
  constructor
  · intro h
    cases o with
    | ok a => exact .inl ⟨a, rfl⟩
    | err e => exact .inr ⟨e, rfl⟩
    | panic s => exact absurd rfl (h s)
  · rintro (⟨a, rfl⟩ | ⟨e, rfl⟩)
    · exact noPanic_ok a
    · exact noPanic_err e

/-! ### layer L3 — arithmetic, comparison, logic and bitwise words (arith.rs) -/
section Arith

/-- every arithmetic word, on every data stack, returns a stack or an error value -/
theorem noPanic_arith : ∀ e ∈ arithTable, ∀ st : List Cell, NoPanic (e.2.runStack 0 st) :=
  fun e he st => (C09.type_error_payload_and_no_panic e he st).1

/-- the same, phrased for the lookup the driver (and therefore the correspondence check) uses -/
theorem noPanic_arith_word (w : String) (p : Prog) (hw : arithWord w = some p) (st : List Cell) :
    NoPanic (p.runStack 0 st) :=
  noPanic_arith (w, p) (C09.arithWord_mem w p hw) st

theorem arithAnswer_ne_panic (p : Prog) (cs : List Cell) (h : NoPanic (p.runStack 0 cs.reverse)) :
    Driver.C08.arithAnswer p cs ≠ "panic" := by
  unfold Driver.C08.arithAnswer
  cases ho : p.runStack 0 cs.reverse with
  | ok s => simp [Driver.C08.classOf]
  | err e => simp [Driver.C08.classOf]
  | panic site => exact absurd ho (h site)

/-- the model never answers `panic` to a `C08 arith …` request: an implementation-side `panic`
    on such a request is therefore always reported as a disagreement -/
theorem driver_arith_never_panic (w : String) (cells : List String) :
    Driver.C08.handle ("arith" :: w :: cells) ≠ "panic" := by
  simp only [Driver.C08.handle]
  split
  · next p cs hw hc => exact arithAnswer_ne_panic p cs (noPanic_arith_word w p hw _)
  · simp
  · simp

end Arith

/-! ### layer L4 — the VM over the whole word table -/
section VM
open Xeh.Mach

/-- one `fetch_and_run` of a running machine, any word table: a panic can only come out of a word's program
    (or be the marker of a word the table lacks) -/
theorem vm_step_panics_only_in_words (np : String → Option Prog) (m : Mach) (s : String) (m' : Mach)
    (hrun : m.isRunning = true) (h : Mach.step np m = (.panic s, m')) :
    ∃ name, (np name = none ∧ s = s!"model: native word {name} is outside the model") ∨
      ∃ p m0, np name = some p ∧ (Mach.runProg p m0).1 = .panic s :=
  Mach.step_panic np m s m' hrun h

/-- no program of the word table has a reachable panic node (printing words: only the gap marker) -/
theorem words_never_panic (name : String) (p : Prog) (h : nativeProg name = some p) (m : Mach) (s : String)
    (hp : (Mach.runProg p m).1 = .panic s) : s = "model: printing this value is outside the model" :=
  Mach.runProg_only _ p (Mach.nativeProg_only name p h) m s hp

/-- `State::run` from any machine state, any program, any number of steps -/
theorem vm_never_panics (fuel : Nat) (m : Mach) (s : String) (m' : Mach)
    (h : Mach.run nativeProg fuel m = some (.panic s, m')) :
    s = "model: printing this value is outside the model" ∨
    ∃ name, nativeProg name = none ∧ s = s!"model: native word {name} is outside the model" :=
  Mach.vm_never_panics fuel m s m' h

/-- with only covered words and printable values in play, `run` answers `ok` or an error value -/
theorem vm_run_noPanic (np : String → Option Prog) (hall : ∀ name, ∃ p, np name = some p ∧ Mach.PanicFree p)
    (fuel : Nat) (m : Mach) (s : String) (m' : Mach) : Mach.run np fuel m ≠ some (.panic s, m') :=
  Mach.run_np np hall fuel m s m'

/-- undoing one log entry answers `ok` or an error value, whatever the machine: every entry that takes something off a
    stack looks at the current context's mark first (seeded change C08/11 dropped that look for the undo of `do`, and a
    later step sliced the loop stack from beyond its end) -/
theorem undo_never_panics (c : Mach.Core) (st : RStep) (p : String) : (Mach.undoC c st).1 ≠ .panic p := by
  cases st <;> simp only [Mach.undoC] <;> (repeat' split) <;> simp

theorem undoSeg_never_panics : ∀ (l : List RStep) (c : Mach.Core) (p : String), (Mach.undoSeg l c).1 ≠ .panic p
  | [], c, p => by simp [Mach.undoSeg]
  | st :: rest, c, p => by
    cases st
    case setIp ip => simp [Mach.undoSeg]
    all_goals
      simp only [Mach.undoSeg]
      split
      · exact undoSeg_never_panics rest _ p
      · simp
      · rename_i q c' hq
        exact absurd (congrArg Prod.fst hq) (undo_never_panics c _ q)

/-- **a reverse step never panics**: `State::rnext` on any machine, with any reverse log — also one whose entries no
    longer fit the stacks (a probe that failed while the program was paused left its context open; the program's own
    entries then reach below that context's marks): the answer is `ok` or an error value -/
theorem reverse_step_never_panics (m : Mach) (p : String) : (Mach.rnext m).1 ≠ .panic p := by
  unfold Mach.rnext
  cases hl : m.log with
  | none => simp
  | some l =>
    simp only
    cases l with
    | nil => simp [Mach.rnextC]
    | cons st rest =>
      simp only [Mach.rnextC]
      split
      · exact undoSeg_never_panics rest _ p
      · simp
      · rename_i q c' hq
        exact absurd (congrArg Prod.fst hq) (undo_never_panics m.core _ q)

/-- **a whole source never panics**: `build_from_source` — reading, compiling, running the meta blocks, closing the
    context and (in eval mode) running the program — on any session whatsoever (no well-formedness assumed), in any
    mode, with any token list and any fuel: the answer is never `panic`. Holding for every session, it holds after
    any history of sources, aborts and runs. -/
theorem source_never_panics (fuel : Nat) (mode : Mode) (toks : List Compile.Tok) (s : Session.Sess) (p : String)
    (s' : Session.Sess) : s.buildSource fuel mode toks ≠ .panic p s' :=
  Session.buildSource_never_panics fuel mode toks s p s'

/-- `run` on any session (what `Xstate::run` does after `compile`) -/
theorem session_run_never_panics (fuel : Nat) (s : Session.Sess) (p : String) (s' : Session.Sess) :
    s.runS fuel ≠ .panic p s' := by
  have := Session.npan_runS s fuel
  intro h
  rw [h] at this
  exact this

/-- the hypothesis `isRunning` of the step theorem is needed: `fetch_and_run` beyond the program does panic
    (which is why `next` and `run` test `ip < code.len()` first) -/
example : (Mach.step nativeProg {}).1 = .panic "code[ip] out of bounds" := rfl

/-- non-vacuity: a machine that fails (an error value, not a panic) and one that finishes -/
example : (Mach.run nativeProg 5 { code := [.native "drop"] }).map (·.1) = some (.err .stackUnderflow) := rfl
example : (Mach.run nativeProg 5 { code := [.loadI64 1, .native "dup", .native "+"] }).map (fun r => (r.1, r.2.ds)) =
    some (.ok (), [.int 2]) := by decide

end VM

/-! ### layer L1 — bit strings on well-formed handles; token location; Z85 -/
section Leaves
open Xeh.Bitstr

/-- every read-only operation, `detach`, `append`, `insert`, `invert` on a well-formed handle: a result, never a
    panic (each index / `unwrap` / subtraction site of bitstr.rs is a `panic` value of the model) -/
theorem noPanic_bitstr (h : Heap) (s t : Handle) (ws : WF h s) (wt : WF h t) (k : Nat)
    (ht : t.buf = s.buf → 2 ≤ (h.buf s.buf).rc) :
    NoPanic (h.view s).iter8 ∧ NoPanic (h.view s).bitsIter ∧ NoPanic (h.view s).toBytes ∧
    NoPanic (h.view s).toBytesWithPadding ∧ NoPanic (h.view s).bytestr ∧ NoPanic (h.view s).toHexString ∧
    NoPanic (View.eqWith (h.view s) (h.view t)) ∧
    NoPanic (detach h s) ∧ NoPanic (append h s t) ∧ NoPanic (invert h s) ∧ NoPanic (insert h s k t) := by
  refine ⟨?_, ?_, ?_, ?_, ?_, ?_, ?_, ?_, ?_, ?_, ?_⟩
  · rw [View.iter8_spec _ ws.view]; exact noPanic_ok _
  · rw [View.bitsIter_spec _ ws.view]; exact noPanic_ok _
  · rw [View.toBytes_spec _ ws.view]; exact noPanic_ok _
  · rw [View.toBytesWithPadding_spec _ ws.view]; exact noPanic_ok _
  · rw [View.bytestr_spec _ ws.view]; exact noPanic_ok _
  · rw [View.toHexString_spec _ ws.view]; exact noPanic_ok _
  · rw [View.eqWith_spec _ _ ws.view wt.view]; exact noPanic_ok _
  · obtain ⟨h', s', e, _⟩ := detach_spec h s ws; rw [e]; exact noPanic_ok _
  · obtain ⟨h', r, e, _⟩ := append_spec h s t ws wt ht; rw [e]; exact noPanic_ok _
  · obtain ⟨h', r, e, _⟩ := invert_spec h s ws; rw [e]; exact noPanic_ok _
  · by_cases hk : s.start + k ≤ s.end_ ∧ s.start + k ≤ Bitstr.usizeMax
    · obtain ⟨h', r, e, _⟩ := insert_spec h s t k ws wt hk.1 hk.2; rw [e]; exact noPanic_ok _
    · rw [insert_invalid h s t k hk]; exact noPanic_ok _

/-- `token_location` (behind `pretty_error` and `last_err_location`) on any text and any token start -/
theorem noPanic_token_location (pre post : List Char) :
    (Lex.tokenLocation (pre ++ post) (utf8Len pre)).isPanic = false :=
  C17loc.location_total pre post

/-- Z85 decoding behind the guard of the glue -/
theorem noPanic_z85 (data : List Nat) (p : String) : Enc.z85Guarded data ≠ .panic p :=
  C18.zero85_decode_never_panics data p

end Leaves

/-! ### non-vacuity: concrete instances, including the inputs that panicked before the `fix:` commits -/

example : ("/", wordDiv) ∈ arithTable := by simp [arithTable]
example : NoPanic (wordDiv.runStack 0 [.int (-1), .int (-(2^127))]) := noPanic_arith ("/", wordDiv) (by simp [arithTable]) _
example : wordDiv.runStack 0 [.int (-1), .int (-(2^127))] = .err .integerOverflow := by decide
example : wordRem.runStack 0 [.int 0, .int 1] = .err .divisionByZero := by decide
example : wordAbs.runStack 0 [.int (-(2^127))] = .err .integerOverflow := by decide
example : ¬ NoPanic (Outcome.panic "x" : Outcome Nat) := fun h => h "x" rfl

/-! ### further layers: append one `section <Layer>` with its `noPanic_<layer>` theorems below -/

end Xeh.C08
