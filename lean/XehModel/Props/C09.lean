/-
C09 — arithmetic, comparison and bitwise words follow exact integer / IEEE semantics.

Property theorems only (helper lemmas live in Proofs/). All statements quantify over every
operand, every stack underneath (`s`) and every hidden-prefix length `h ≤ |s|` (cells below the
context's `ds_len`, which the word must not touch).

Reals: `SF.add64` … are the *definition* of IEEE-754 binary64 arithmetic used here — decode to an
exact dyadic rational, compute exactly, round to nearest even (Model/SoftFloat.lean). They are
validated against the hardware FPU by the correspondence check on every run; `real_*` theorems
state that the words apply exactly those operations to exactly their operands.
-/
import XehModel.Proofs.Tactics
import XehModel.Proofs.ArithGood

set_option linter.unusedSimpArgs false

namespace Xeh.C09
open Xeh Prog

variable (a b : Int) (s : List Cell) (h : Nat)

/-! ### + - * : exact when representable, otherwise the two's-complement wrapped value -/

theorem add_wrap (hh : h ≤ s.length) :
    wordAdd.runStack h (.int b :: .int a :: s) = .ok (.int (wrap128 (a + b)) :: s) := by
  unfold wordAdd arithOpsReal; run_simp

theorem add_exact (hh : h ≤ s.length) (hr : InRange (a + b)) :
    wordAdd.runStack h (.int b :: .int a :: s) = .ok (.int (a + b) :: s) := by
  rw [add_wrap a b s h hh, wrap128_id hr]

theorem sub_wrap (hh : h ≤ s.length) :
    wordSub.runStack h (.int b :: .int a :: s) = .ok (.int (wrap128 (a - b)) :: s) := by
  unfold wordSub arithOpsReal; run_simp

theorem sub_exact (hh : h ≤ s.length) (hr : InRange (a - b)) :
    wordSub.runStack h (.int b :: .int a :: s) = .ok (.int (a - b) :: s) := by
  rw [sub_wrap a b s h hh, wrap128_id hr]

theorem mul_wrap (hh : h ≤ s.length) :
    wordMul.runStack h (.int b :: .int a :: s) = .ok (.int (wrap128 (a * b)) :: s) := by
  unfold wordMul arithOpsReal; run_simp

theorem mul_exact (hh : h ≤ s.length) (hr : InRange (a * b)) :
    wordMul.runStack h (.int b :: .int a :: s) = .ok (.int (a * b) :: s) := by
  rw [mul_wrap a b s h hh, wrap128_id hr]

/-! ### / : truncating division; zero divisor and the one unrepresentable quotient are errors -/

theorem div_spec (hh : h ≤ s.length) (hb : b ≠ 0) (hr : InRange (a.tdiv b)) :
    wordDiv.runStack h (.int b :: .int a :: s) = .ok (.int (a.tdiv b) :: s) := by
  unfold wordDiv; run_simp; simp [hb, hr]

theorem div_zero (hh : h ≤ s.length) :
    wordDiv.runStack h (.int 0 :: .int a :: s) = .err .divisionByZero := by
  unfold wordDiv; run_simp

theorem div_overflow (hh : h ≤ s.length) (hb : b ≠ 0) (hr : ¬ InRange (a.tdiv b)) :
    wordDiv.runStack h (.int b :: .int a :: s) = .err .integerOverflow := by
  unfold wordDiv; run_simp; simp [hb, hr]

/-- the only unrepresentable quotient of in-range operands is `i128::MIN / -1` -/
theorem div_overflow_iff (ha : InRange a) (hbr : InRange b) (hb : b ≠ 0) :
    ¬ InRange (a.tdiv b) ↔ (a = -(2^127) ∧ b = -1) := by
  unfold InRange at *
  constructor
  · intro hn
    have h1 : (a.tdiv b).natAbs = a.natAbs / b.natAbs := Int.natAbs_tdiv a b
    have h2 : a.natAbs / b.natAbs ≤ a.natAbs := Nat.div_le_self _ _
    by_cases hb1 : b = -1
    · subst hb1
      simp at hn
      omega
    · exfalso
      by_cases hb2 : b = 1
      · subst hb2; simp at hn; omega
      · have h3 : 2 ≤ b.natAbs := by omega
        have h4 : a.natAbs / b.natAbs ≤ a.natAbs / 2 := Nat.div_le_div_left h3 (by omega)
        omega
  · rintro ⟨rfl, rfl⟩
    decide

/-! ### rem : sign of the dividend (truncated remainder); zero divisor is an error -/

theorem rem_spec (hh : h ≤ s.length) (hb : b ≠ 0) (hbr : InRange b) :
    wordRem.runStack h (.int b :: .int a :: s) = .ok (.int (a.tmod b) :: s) := by
  have hr : InRange (a.tmod b) := by
    unfold InRange at *
    have h1 := Int.natAbs_tmod a b
    have h2 : a.natAbs % b.natAbs < b.natAbs := Nat.mod_lt _ (by omega)
    omega
  unfold wordRem; run_simp; simp [hb, wrap128_id hr]

theorem rem_zero (hh : h ≤ s.length) :
    wordRem.runStack h (.int 0 :: .int a :: s) = .err .divisionByZero := by
  unfold wordRem; run_simp

/-! ### neg abs -/

theorem neg_exact (hh : h ≤ s.length) (hr : InRange (-a)) :
    wordNeg.runStack h (.int a :: s) = .ok (.int (-a) :: s) := by
  unfold wordNeg; run_simp; simp [hr]

theorem neg_overflow (hh : h ≤ s.length) (hr : ¬ InRange (-a)) :
    wordNeg.runStack h (.int a :: s) = .err .integerOverflow := by
  unfold wordNeg; run_simp; simp [hr]

theorem abs_exact (hh : h ≤ s.length) (hr : InRange (a.natAbs : Int)) :
    wordAbs.runStack h (.int a :: s) = .ok (.int (a.natAbs : Int) :: s) := by
  unfold wordAbs; run_simp; simp [hr]

theorem abs_overflow (hh : h ≤ s.length) (hr : ¬ InRange (a.natAbs : Int)) :
    wordAbs.runStack h (.int a :: s) = .err .integerOverflow := by
  unfold wordAbs; run_simp; simp [hr]

/-! ### min max and the six comparisons against the order of `Int` -/

theorem min_spec (hh : h ≤ s.length) :
    wordMin.runStack h (.int b :: .int a :: s) = .ok (.int (min a b) :: s) := by
  unfold wordMin arithOpsReal; run_simp; simp [Int.min_def]

theorem max_spec (hh : h ≤ s.length) :
    wordMax.runStack h (.int b :: .int a :: s) = .ok (.int (max a b) :: s) := by
  unfold wordMax arithOpsReal; run_simp; simp [Int.max_def]

theorem lt_spec (hh : h ≤ s.length) :
    (wordCmp (· == .lt)).runStack h (.int b :: .int a :: s) = .ok (.flag (decide (a < b)) :: s) := by
  unfold wordCmp; run_simp
  rcases cmp_cases a b with ⟨hc, e⟩ | ⟨hc, e⟩ | ⟨hc, e⟩ <;> rw [e] <;> simp [show ∀ x y : Ordering, (x != y) = !(x == y) from fun _ _ => rfl] <;> omega

theorem le_spec (hh : h ≤ s.length) :
    (wordCmp (· != .gt)).runStack h (.int b :: .int a :: s) = .ok (.flag (decide (a ≤ b)) :: s) := by
  unfold wordCmp; run_simp
  rcases cmp_cases a b with ⟨hc, e⟩ | ⟨hc, e⟩ | ⟨hc, e⟩ <;> rw [e] <;> simp [show ∀ x y : Ordering, (x != y) = !(x == y) from fun _ _ => rfl] <;> omega

theorem gt_spec (hh : h ≤ s.length) :
    (wordCmp (· == .gt)).runStack h (.int b :: .int a :: s) = .ok (.flag (decide (a > b)) :: s) := by
  unfold wordCmp; run_simp
  rcases cmp_cases a b with ⟨hc, e⟩ | ⟨hc, e⟩ | ⟨hc, e⟩ <;> rw [e] <;> simp [show ∀ x y : Ordering, (x != y) = !(x == y) from fun _ _ => rfl] <;> omega

theorem ge_spec (hh : h ≤ s.length) :
    (wordCmp (· != .lt)).runStack h (.int b :: .int a :: s) = .ok (.flag (decide (a ≥ b)) :: s) := by
  unfold wordCmp; run_simp
  rcases cmp_cases a b with ⟨hc, e⟩ | ⟨hc, e⟩ | ⟨hc, e⟩ <;> rw [e] <;> simp [show ∀ x y : Ordering, (x != y) = !(x == y) from fun _ _ => rfl] <;> omega

theorem eq_spec (hh : h ≤ s.length) :
    (wordCmp (· == .eq)).runStack h (.int b :: .int a :: s) = .ok (.flag (decide (a = b)) :: s) := by
  unfold wordCmp; run_simp
  rcases cmp_cases a b with ⟨hc, e⟩ | ⟨hc, e⟩ | ⟨hc, e⟩ <;> rw [e] <;> simp [show ∀ x y : Ordering, (x != y) = !(x == y) from fun _ _ => rfl] <;> omega

theorem ne_spec (hh : h ≤ s.length) :
    (wordCmp (· != .eq)).runStack h (.int b :: .int a :: s) = .ok (.flag (decide (a ≠ b)) :: s) := by
  unfold wordCmp; run_simp
  rcases cmp_cases a b with ⟨hc, e⟩ | ⟨hc, e⟩ | ⟨hc, e⟩ <;> rw [e] <;> simp [show ∀ x y : Ordering, (x != y) = !(x == y) from fun _ _ => rfl] <;> omega

/-! ### bitwise words: two's-complement bit operations. `toU128 x` is the 128-bit two's-complement
    pattern of `x`; the statements say that bit `i` of the result is the Boolean operation on bit `i`
    of the operands, for every bit position. -/

theorem toU128_lt (x : Int) : toU128 x < 2^128 := by unfold toU128; omega

theorem toU128_ofU128 (n : Nat) (hn : n < 2^128) : toU128 (ofU128 n) = n := by
  unfold toU128 ofU128 wrap128; omega

theorem band_spec (hh : h ≤ s.length) :
    (arithOpsInt band128).runStack h (.int b :: .int a :: s) = .ok (.int (band128 a b) :: s) := by
  unfold arithOpsInt; run_simp

theorem band_bits (i : Nat) :
    (toU128 (band128 a b)).testBit i = ((toU128 a).testBit i && (toU128 b).testBit i) := by
  unfold band128
  rw [toU128_ofU128 _ (Nat.and_lt_two_pow _ (toU128_lt b)), Nat.testBit_and]

theorem bor_bits (i : Nat) :
    (toU128 (bor128 a b)).testBit i = ((toU128 a).testBit i || (toU128 b).testBit i) := by
  unfold bor128
  rw [toU128_ofU128 _ (Nat.or_lt_two_pow (toU128_lt a) (toU128_lt b)), Nat.testBit_or]

theorem bxor_bits (i : Nat) :
    (toU128 (bxor128 a b)).testBit i = ((toU128 a).testBit i ^^ (toU128 b).testBit i) := by
  unfold bxor128
  rw [toU128_ofU128 _ (Nat.xor_lt_two_pow (toU128_lt a) (toU128_lt b)), Nat.testBit_xor]

theorem bnot_spec (hh : h ≤ s.length) :
    wordBnot.runStack h (.int a :: s) = .ok (.int (-a - 1) :: s) := by
  unfold wordBnot bnot128; run_simp

/-- `-a-1` is the bitwise complement: its pattern plus the pattern of `a` is all ones -/
theorem bnot_bits : toU128 (bnot128 a) + toU128 a = 2^128 - 1 := by
  unfold toU128 bnot128; omega

/-! ### shifts with counts 0..127 -/

theorem shiftCount_id (k : Int) (h0 : 0 ≤ k) (h1 : k ≤ 127) : shiftCount k = k.toNat := by
  unfold shiftCount; omega

theorem bsl_wrap (k : Int) (hh : h ≤ s.length) (h0 : 0 ≤ k) (h1 : k ≤ 127) :
    (arithOpsInt shl128).runStack h (.int k :: .int a :: s) = .ok (.int (wrap128 (a * 2^k.toNat)) :: s) := by
  unfold arithOpsInt shl128; run_simp; rw [shiftCount_id k h0 h1]

theorem bsl_exact (k : Int) (hh : h ≤ s.length) (h0 : 0 ≤ k) (h1 : k ≤ 127) (hr : InRange (a * 2^k.toNat)) :
    (arithOpsInt shl128).runStack h (.int k :: .int a :: s) = .ok (.int (a * 2^k.toNat) :: s) := by
  rw [bsl_wrap a s h k hh h0 h1, wrap128_id hr]

/-- arithmetic right shift = floor division by 2^k (`Int./` is floor division for a positive divisor) -/
theorem bsr_spec (k : Int) (hh : h ≤ s.length) (h0 : 0 ≤ k) (h1 : k ≤ 127) :
    (arithOpsInt shr128).runStack h (.int k :: .int a :: s) = .ok (.int (a / 2^k.toNat) :: s) := by
  unfold arithOpsInt shr128; run_simp; rw [shiftCount_id k h0 h1]

/-! ### zero? positive? negative? -/

theorem zero_spec (hh : h ≤ s.length) :
    (wordNumTest (· == 0) SF.isZero64).runStack h (.int a :: s) = .ok (.flag (decide (a = 0)) :: s) := by
  unfold wordNumTest; run_simp; by_cases hz : a = 0 <;> simp [hz]

theorem positive_spec (hh : h ≤ s.length) :
    (wordNumTest (· > 0) (fun r => SF.lt64 realZero r)).runStack h (.int a :: s) = .ok (.flag (decide (a > 0)) :: s) := by
  unfold wordNumTest; run_simp

theorem negative_spec (hh : h ≤ s.length) :
    (wordNumTest (· < 0) (fun r => SF.lt64 r realZero)).runStack h (.int a :: s) = .ok (.flag (decide (a < 0)) :: s) := by
  unfold wordNumTest; run_simp

/-! ### reals: the words apply exactly the IEEE operation to exactly their operands -/

variable (x y : UInt64)

theorem real_add (hh : h ≤ s.length) :
    wordAdd.runStack h (.real y :: .real x :: s) = .ok (.real (SF.add64 x y) :: s) := by
  unfold wordAdd arithOpsReal; run_simp

theorem real_sub (hh : h ≤ s.length) :
    wordSub.runStack h (.real y :: .real x :: s) = .ok (.real (SF.sub64 x y) :: s) := by
  unfold wordSub arithOpsReal; run_simp

theorem real_mul (hh : h ≤ s.length) :
    wordMul.runStack h (.real y :: .real x :: s) = .ok (.real (SF.mul64 x y) :: s) := by
  unfold wordMul arithOpsReal; run_simp

theorem real_div (hh : h ≤ s.length) (hz : SF.isZero64 y = false) :
    wordDiv.runStack h (.real y :: .real x :: s) = .ok (.real (SF.div64 x y) :: s) := by
  unfold wordDiv; run_simp; simp [hz]

theorem real_div_zero (hh : h ≤ s.length) (hz : SF.isZero64 y = true) :
    wordDiv.runStack h (.real y :: .real x :: s) = .err .divisionByZero := by
  unfold wordDiv; run_simp; simp [hz]

theorem real_rem (hh : h ≤ s.length) :
    wordRem.runStack h (.real y :: .real x :: s) = .ok (.real (SF.rem64 x y) :: s) := by
  unfold wordRem; run_simp

theorem real_round (hh : h ≤ s.length) :
    wordRound.runStack h (.real x :: s) = .ok (.real (SF.round64 x) :: s) := by
  unfold wordRound; run_simp

theorem into_int (hh : h ≤ s.length) :
    wordIntoInt.runStack h (.real x :: s) = .ok (.int (SF.toInt64 x) :: s) := by
  unfold wordIntoInt; run_simp

theorem into_real (hh : h ≤ s.length) :
    wordIntoReal.runStack h (.int a :: s) = .ok (.real (SF.ofInt64 a) :: s) := by
  unfold wordIntoReal; run_simp

/-- `>int` never leaves the i128 range (saturating conversion) -/
theorem toInt64_inRange : InRange (SF.toInt64 x) := by
  unfold SF.toInt64 SF.toInt128 InRange
  split
  · omega
  · split <;> omega
  · dsimp only; split
    · omega
    · split <;> omega

/-! ### mixed int/real operands are a type error naming the left operand's actual value -/

theorem mixed_int_real (hh : h ≤ s.length) :
    wordAdd.runStack h (.real y :: .int a :: s) = .err (.typeErrorMsg (.int a) "real") := by
  unfold wordAdd arithOpsReal; run_simp

theorem mixed_real_int (hh : h ≤ s.length) :
    wordAdd.runStack h (.int b :: .real x :: s) = .err (.typeErrorMsg (.real x) "int") := by
  unfold wordAdd arithOpsReal; run_simp

/-! ### for **every** word of arith.rs and **every** stack: never a panic, and a type error quotes one
    of the two topmost cells (the cell itself or its untagged value) — never any other value -/

theorem type_error_payload_and_no_panic :
    ∀ e ∈ arithTable, ∀ st : List Cell, Good (e.2.runStack 0 st) (st.take 2) := by
  unfold arithTable
  simp only [List.forall_mem_cons]
  exact ⟨good_arithOpsReal _ _, good_arithOpsReal _ _, good_arithOpsReal _ _, good_wordDiv, good_wordRem,
    good_wordNeg, good_wordAbs,
    good_wordCmp _, good_wordCmp _, good_wordCmp _, good_wordCmp _, good_wordCmp _, good_wordCmp _,
    good_wordLogic _, good_wordLogic _, good_wordLogic _, good_wordNot,
    good_arithOpsInt _, good_arithOpsInt _, good_arithOpsInt _, good_unInt _,
    good_arithOpsInt _, good_arithOpsInt _, good_wordRound, good_arithOpsReal _ _, good_arithOpsReal _ _,
    good_wordIntoReal, good_wordIntoInt, good_wordNumTest _ _, good_wordNumTest _ _, good_wordNumTest _ _,
    good_unInt _, fun e he => by simp at he⟩

/-- the table really is what the driver (and therefore the correspondence check) looks words up in -/
theorem arithWord_mem (w : String) (p : Prog) (h : arithWord w = some p) : (w, p) ∈ arithTable := by
  unfold arithWord at h
  generalize arithTable = t at h ⊢
  induction t with
  | nil => simp at h
  | cons x xs ih =>
    obtain ⟨k, v⟩ := x
    rw [List.lookup_cons] at h
    split at h
    · rename_i heq; simp at h heq; simp [heq, h]
    · exact List.mem_cons_of_mem _ (ih h)

/-! ### non-vacuity: the hypotheses are met by concrete non-trivial states -/

example : wordAdd.runStack 1 [.int (2^127 - 1), .int 1, .str ['x']] = .ok [.int (-(2^127)), .str ['x']] := by decide
example : ¬ InRange ((-(2^127) : Int).tdiv (-1)) := by decide
example : wordDiv.runStack 0 [.int (-1), .int (-(2^127))] = .err .integerOverflow := by decide
example : ("bsl", arithOpsInt shl128) ∈ arithTable := by simp [arithTable]
example : (arithOpsInt shl128).runStack 0 [.int 127, .int (-1)] = .ok [.int (-(2^127))] := by decide
example : wordRem.runStack 0 [.int 3, .int (-7)] = .ok [.int (-1)] := by decide

end Xeh.C09
