/-
C10 — a source that fails to build has no effect on anything submitted afterwards; a line that fails at
run time is not re-executed by later lines.

Model: Model/Session.lean (the interpreter session: `build_from_source`, `build1` with its meta-block
runs, `context_open/close`, `#(` `#)` `const`, `build_unwind`, `abort_run`) on top of the flow-stack
compiler (Model/Compile.lean) and the VM (Model/VM.lean). Tied to the code by the `C10 sess` and
`C11 sess` correspondence (whole histories, state compared after every source) and by Tie B.

* `rejected_source_restores` — FULL STRENGTH for the modelled language: for every session a source can be
  submitted to, every submission mode (eval / compile), every token list and every amount of fuel: if the
  source is rejected while it is being read or compiled — at whatever token, with whatever control
  structures, definitions, builders and meta blocks open, after whatever its meta blocks executed — the
  session afterwards *is* the session before, field by field (code, debug map, dictionary with every
  replaced constant restored, heap, data/return/loop/builder stacks, pending flows, saved contexts, the
  current context with its mode, the reverse log), except for four things a rejected source legitimately
  leaves behind: the instruction meter (a budget, like time), captured output (a meta block may have
  printed), the stop flag, and the last-token marker used for error locations.
  Every later source therefore starts from the same state as if the rejected one had never been submitted.
* `rejected_compile_part` — the same for the compiler's part alone (no session needed): every failing
  `compileToks` leaves a state whose truncation to the marks is the state it started from.
* `abort_*` — the REPL's repair of a line that failed at run time: after `abort_run` nothing is left
  to execute (`run` is a no-op), frames/loops/builders above the context marks are gone, the data stack,
  the variables, the dictionary and the code are untouched. Hence the failed line is not re-executed.

Not covered by a theorem (covered by correspondence + oracle only): the lexer-level part of "unread text is
never executed" (the model takes a token list, so unread text is dropped by construction; `include` is
outside the model), and the equivalence of the follow-up probes in the two histories (a consequence of
state equality for a deterministic interpreter; checked on the implementation by the C10 oracle).
-/
import XehModel.Proofs.SessionUnwind

namespace Xeh.C10
open Xeh Xeh.Mach Xeh.Compile Xeh.Session Xeh.Session.Sess

/-- **C10, main theorem.** A rejected source leaves the session exactly as it found it (up to the
    instruction meter, captured output, the stop flag and the last-token marker). -/
theorem rejected_source_restores (fuel : Nat) (mode : Mode) (toks : List Tok) (s s' : Sess) (e : Xerr)
    (idle : Idle s) (hmode : mode ≠ .metaEval)
    (h : s.buildSource fuel mode toks = .rejected e s') :
    s' = { s with m := { s.m with meter := s'.m.meter, out := s'.m.out, aboutToStop := s'.m.aboutToStop },
                  lastTok := s'.lastTok } := by
  have hb := sok_build1 (ext_open idle mode hmode) hmode fuel toks
  unfold Sess.buildSource at h
  simp only [] at h
  generalize (s.contextOpen mode).build1 fuel toks = r at h hb
  cases r with
  | err e2 s2 =>
    simp only at h
    obtain ⟨_, rfl⟩ := BRes.rejected.inj h
    have := unwind_restores hb idle.dmap
    rw [this]
  | ok s2 =>
    simp only at h
    split at h <;> cases h
  | panic p s2 => cases h
  | unsupported u => cases h
  | timeout => cases h

/-- whatever the rejected source's meta blocks executed, they could not reach the submitting session's
    data stack, variables or code: the failing state still contains all of it (the invariant behind the
    main theorem, stated for the state *before* unwinding) -/
theorem rejected_source_never_touched_the_old_state (fuel : Nat) (mode : Mode) (toks : List Tok) (s s2 : Sess) (e : Xerr)
    (idle : Idle s) (hmode : mode ≠ .metaEval)
    (h : (s.contextOpen mode).build1 fuel toks = .err e s2) :
    s2.m.code.take s.m.code.length = s.m.code ∧ s2.m.heap.take s.m.heap.length = s.m.heap ∧
    hidOf s2.m.ds s.m.ds.length = s.m.ds ∧ hidOf s2.m.rs s.m.rs.length = s.m.rs ∧
    hidOf s2.flows s.flows.length = s.flows ∧ hidOf s2.nested s.nested.length = s.nested := by
  have hb := sok_build1 (ext_open idle mode hmode) hmode fuel toks
  rw [h] at hb
  exact ⟨hb.code, hb.heap, hb.ds, hb.rs, hb.flows, hb.nested⟩

/-- the compiler's part alone: a failing build of any token list, from any compiler state whose pending
    flows refer to no code below the mark (in particular: none pending, the situation `build_unwind` is used
    in), leaves a state whose truncation to the marks is the state it started from -/
theorem rejected_compile_part (toks : List Tok) (idx : Nat) (s sp : CState) (e : CErr)
    (hflows : Orgs s.code.length s.flows)
    (h : compileToks toks idx s = .err e sp) : unwindC s sp = s := by
  have hg := compileToks_good toks idx s s (Pre.refl s) hflows
  rw [h] at hg
  exact unwindC_restores hg

/-! ### `abort_run`: a line that failed while running is not resumed -/

/-- after `abort_run` the machine is not running … -/
theorem abort_not_running (s : Sess) : s.abortRun.m.isRunning = false := by
  simp [Sess.abortRun, Mach.isRunning]

/-- … so `run` (what the next REPL line does after compiling) executes nothing of the failed line: with
    nothing new compiled it returns at once and changes nothing, whatever the fuel -/
theorem abort_then_run_is_noop (s : Sess) (fuel : Nat) : s.abortRun.runS fuel = .ok s.abortRun := by
  have hr : Mach.run nativeProg fuel s.abortRun.m = some (.ok (), s.abortRun.m) := by
    cases fuel <;> simp [Mach.run, abort_not_running]
  simp only [Sess.runS, hr]

/-- `abort_run` drops exactly the frames, loops and builders the failed program left above the context
    marks and keeps everything else: data stack, variables, dictionary, code, context marks -/
theorem abort_keeps (s : Sess) :
    s.abortRun.m.ds = s.m.ds ∧ s.abortRun.m.heap = s.m.heap ∧ s.abortRun.m.dict = s.m.dict ∧
    s.abortRun.m.code = s.m.code ∧ s.abortRun.m.ctx.marks = s.m.ctx.marks ∧
    s.abortRun.m.rs = hidOf s.m.rs s.m.ctx.rsLen ∧ s.abortRun.m.loops = hidOf s.m.loops s.m.ctx.lsLen ∧
    s.abortRun.m.special = hidOf s.m.special s.m.ctx.ssPtr ∧ s.abortRun.flows = s.flows ∧ s.abortRun.nested = s.nested :=
  ⟨rfl, rfl, rfl, rfl, rfl, rfl, rfl, rfl, rfl, rfl⟩

/-- the code a later line compiles is appended behind the abandoned code, and only it runs: after
    `abort_run` the instruction pointer is where the next `compile` starts emitting -/
theorem abort_ip (s : Sess) : s.abortRun.m.ctx.ip = s.abortRun.m.code.length := rfl

/-! ### the hypotheses are satisfiable, the theorems are not vacuous -/

/-- the empty session is idle -/
example : Idle ({} : Sess) := ⟨⟨Nat.le_refl _, Nat.le_refl _, Nat.le_refl _, Nat.le_refl _⟩, Nat.le_refl _, rfl⟩

/-- a source is rejected half-way (a literal has been compiled, an unknown word follows, more text trails):
    the conclusion of the main theorem is about something that happens -/
example : ∃ e s', ({} : Sess).buildSource 5 .eval [.lit (.int 1), .word "foo", .lit (.int 2)] = .rejected e s' := by
  simp [Sess.buildSource, Sess.build1, tokens, Sess.visible, Sess.visLen, CState.topFun, Sess.ofC, buildWord, Sess.toC, cerr, andRun,
    Sess.metaRun, Sess.contextOpen, Sess.emit]

end Xeh.C10
