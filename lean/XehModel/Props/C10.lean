/-
C10 — a source that fails to build has no effect on anything submitted afterwards; a line that fails at
run time is not re-executed by later lines.

Model: Model/Session.lean (the interpreter session: `build_from_source`, `build1` with its meta-block
runs, `context_open/close`, `#(` `#)` `const`, `build_unwind`, `abort_run`) on top of the flow-stack
compiler (Model/Compile.lean) and the VM (Model/VM.lean). Tied to the code by the `C10 sess` and
`C11 sess` correspondence (whole histories, state compared after every source) and by Tie B.

* `rejected_source_restores` — FULL STRENGTH for the modelled language: for every session a source can be
  submitted to, every submission mode (eval / compile), every token list and every amount of fuel: if the
  source is rejected while it is being read or compiled — at whatever token, with whatever control
  structures, definitions, builders and meta blocks open, after whatever its meta blocks executed — the
  session afterwards *is* the session before, field by field (code, debug map, dictionary with every
  replaced constant restored, heap, data/return/loop/builder stacks, pending flows, saved contexts, the
  current context with its mode, the reverse log), except for four things a rejected source legitimately
  leaves behind: the instruction meter (a budget, like time), captured output (a meta block may have
  printed), the stop flag, and the last-token marker used for error locations.
  Every later source therefore starts from the same state as if the rejected one had never been submitted.
* `rejected_compile_part` — the same for the compiler's part alone (no session needed): every failing
  `compileToks` leaves a state whose truncation to the marks is the state it started from.
* `abort_*` — the REPL's repair of a line that failed at run time: after `abort_run` nothing is left
  to execute (`run` is a no-op), frames/loops/builders above the context marks are gone, the data stack,
  the variables, the dictionary and the code are untouched. Hence the failed line is not re-executed.

* `rejected_source_then_any_history` — the follow-up, also for all inputs: the interpreter that was given the rejected
  source and the one that never saw it give the same answers (same errors) to ANY later history of sources (`eval`,
  `compile`), `run()` calls, whole REPL lines (compile, run, `abort_run` only when the run failed — what `run_line` does
  since repair 1568e86) and REPL aborts, print the same text, and stay equal in everything but the meter, the stop flag and the last-token marker
  (`later_twin`; Proofs/VMGhost.lean generated from the VMSim templates, Proofs/SessionGhost.lean: every function of
  the session model respects the relation). Hypothesis: no instruction limit (with one, what the rejected source's
  meta blocks executed stays counted — that is C14, and intended).

Not covered by a theorem (covered by correspondence + oracle only): the lexer-level part of "unread text is
never executed" (the model takes a token list, so unread text is dropped by construction; `include` is
outside the model).
-/
import XehModel.Proofs.SessionUnwind
import XehModel.Proofs.SessionGhost
import XehModel.Proofs.SessionRepl

namespace Xeh.C10
open Xeh Xeh.Mach Xeh.Compile Xeh.Session Xeh.Session.Sess

/-- **C10, main theorem.** A rejected source leaves the session exactly as it found it (up to the
    instruction meter, captured output, the stop flag and the last-token marker). -/
theorem rejected_source_restores (fuel : Nat) (mode : Mode) (toks : List Tok) (s s' : Sess) (e : Xerr)
    (idle : Idle s) (hmode : mode ≠ .metaEval)
    (h : s.buildSource fuel mode toks = .rejected e s') :
    s' = { s with m := { s.m with meter := s'.m.meter, out := s'.m.out, aboutToStop := s'.m.aboutToStop },
                  lastTok := s'.lastTok } := by
  have hb := sok_build1 (ext_open idle mode hmode) hmode fuel toks
  unfold Sess.buildSource at h
  simp only [] at h
  generalize (s.contextOpen mode).build1 fuel toks = r at h hb
  cases r with
  | err e2 s2 =>
    simp only at h
    obtain ⟨_, rfl⟩ := BRes.rejected.inj h
    have := unwind_restores hb idle.dmap
    rw [this]
  | ok s2 =>
    simp only at h
    split at h <;> cases h
  | panic p s2 => cases h
  | unsupported u => cases h
  | timeout => cases h

/-- whatever the rejected source's meta blocks executed, they could not reach the submitting session's
    data stack, variables or code: the failing state still contains all of it (the invariant behind the
    main theorem, stated for the state *before* unwinding) -/
theorem rejected_source_never_touched_the_old_state (fuel : Nat) (mode : Mode) (toks : List Tok) (s s2 : Sess) (e : Xerr)
    (idle : Idle s) (hmode : mode ≠ .metaEval)
    (h : (s.contextOpen mode).build1 fuel toks = .err e s2) :
    s2.m.code.take s.m.code.length = s.m.code ∧ s2.m.heap.take s.m.heap.length = s.m.heap ∧
    hidOf s2.m.ds s.m.ds.length = s.m.ds ∧ hidOf s2.m.rs s.m.rs.length = s.m.rs ∧
    hidOf s2.flows s.flows.length = s.flows ∧ hidOf s2.nested s.nested.length = s.nested := by
  have hb := sok_build1 (ext_open idle mode hmode) hmode fuel toks
  rw [h] at hb
  exact ⟨hb.code, hb.heap, hb.ds, hb.rs, hb.flows, hb.nested⟩

/-- the compiler's part alone: a failing build of any token list, from any compiler state whose pending
    flows refer to no code below the mark (in particular: none pending, the situation `build_unwind` is used
    in), leaves a state whose truncation to the marks is the state it started from -/
theorem rejected_compile_part (toks : List Tok) (idx : Nat) (s sp : CState) (e : CErr)
    (hflows : Orgs s.code.length s.flows)
    (h : compileToks toks idx s = .err e sp) : unwindC s sp = s := by
  have hg := compileToks_good toks idx s s (Pre.refl s) hflows
  rw [h] at hg
  exact unwindC_restores hg

/-! ### `abort_run`: a line that failed while running is not resumed -/

/-- after `abort_run` the machine is not running … -/
theorem abort_not_running (s : Sess) : s.abortRun.m.isRunning = false := by
  simp [Sess.abortRun, Mach.isRunning]

/-- … so `run` (what the next REPL line does after compiling) executes nothing of the failed line: with
    nothing new compiled it returns at once and changes nothing, whatever the fuel -/
theorem abort_then_run_is_noop (s : Sess) (fuel : Nat) : s.abortRun.runS fuel = .ok s.abortRun := by
  have hr : Mach.run nativeProg fuel s.abortRun.m = some (.ok (), s.abortRun.m) := by
    cases fuel <;> simp [Mach.run, abort_not_running]
  simp only [Sess.runS, hr]

/-- `abort_run` drops exactly the frames, loops and builders the failed program left above the context
    marks and keeps everything else: data stack, variables, dictionary, code, context marks -/
theorem abort_keeps (s : Sess) :
    s.abortRun.m.ds = s.m.ds ∧ s.abortRun.m.heap = s.m.heap ∧ s.abortRun.m.dict = s.m.dict ∧
    s.abortRun.m.code = s.m.code ∧ s.abortRun.m.ctx.marks = s.m.ctx.marks ∧
    s.abortRun.m.rs = hidOf s.m.rs s.m.ctx.rsLen ∧ s.abortRun.m.loops = hidOf s.m.loops s.m.ctx.lsLen ∧
    s.abortRun.m.special = hidOf s.m.special s.m.ctx.ssPtr ∧ s.abortRun.flows = s.flows ∧ s.abortRun.nested = s.nested :=
  ⟨rfl, rfl, rfl, rfl, rfl, rfl, rfl, rfl, rfl, rfl⟩

/-- the code a later line compiles is appended behind the abandoned code, and only it runs: after
    `abort_run` the instruction pointer is where the next `compile` starts emitting -/
theorem abort_ip (s : Sess) : s.abortRun.m.ctx.ip = s.abortRun.m.code.length := rfl

/-- `exit` that finds no exit code — an empty stack, a text, a number outside the range — fails like any other word and
    raises NO stop request: a rejected REPL line such as `#( exit #)` does not end the session (repair: `core_word_exit`
    used to raise the request before it looked for the code). Only an `exit` that ends with `Xerr::Exit` stops anything. -/
theorem exit_without_a_code_stops_nothing (m : Mach) (h : ∀ c, (runProg wordExit m).1 ≠ .err (.exit c)) :
    (runProg wordExit m).2.aboutToStop = m.aboutToStop := by
  unfold wordExit at h ⊢
  cases hds : m.ds with
  | nil => simp [runProg, popData, hds]
  | cons c rest =>
    by_cases hlen : (c :: rest).length > m.ctx.dsLen
    · have hp : m.popData = (.ok c, { (m.logStep (.pushData c)) with ds := rest }) := by
        simp only [popData, hds]; simp only [hlen, if_true]
      simp only [runProg, hp] at h ⊢
      cases hc : c.toIsize with
      | ok code => simp [hc, Prog.ofOutcome, runProg] at h
      | err e => simp [hc, Prog.ofOutcome, runProg, logStep]
      | panic p => simp [hc, Prog.ofOutcome, runProg, logStep]
    · have hp : m.popData = (.err .stackUnderflow, m) := by
        simp only [popData, hds]; simp only [hlen, if_false]
      simp [runProg, hp]

/-- … and one that has its code does stop: the request is raised and the answer is `Exit code` -/
theorem exit_with_a_code_stops (m : Mach) (code : Int) (rest : List Cell) (hds : m.ds = .int code :: rest)
    (hd : (Cell.int code :: rest).length > m.ctx.dsLen) (h1 : isizeMin ≤ code) (h2 : code ≤ isizeMax) :
    (runProg wordExit m).1 = .err (.exit code) ∧ (runProg wordExit m).2.aboutToStop = true := by
  have hc : (Cell.int code).toIsize = .ok code := by
    simp only [Cell.toIsize, Cell.value]
    have : ¬ (code < isizeMin ∨ code > isizeMax) := by omega
    simp [this]
  have hp : m.popData = (.ok (.int code), { (m.logStep (.pushData (.int code))) with ds := rest }) := by
    simp only [popData, hds]; simp only [hd, if_true]
  unfold wordExit
  simp [runProg, hp, hc, Prog.ofOutcome]

/-! ### every later source behaves as if the rejected one had never been submitted

`rejected_source_restores` leaves four fields different. Nothing the interpreter does afterwards can tell: the two
interpreters — the one that saw the rejected source and the one that did not — give the same answers to any further
history of sources and REPL aborts, print the same text, and stay equal in everything but those fields.
(No instruction limit: with a limit, what the rejected source's meta blocks executed stays counted — C14 — and a later
source may hit the limit earlier. That is the one observable difference, and it is intended.) -/

/-- what may happen to an interpreter later on -/
inductive Later where
  /-- a further source is submitted (`eval` or `compile`, or a REPL line) -/
  | source (mode : Mode) (toks : List Tok)
  /-- the REPL's `abort_run` after a line that failed at run time -/
  | abort
  /-- `run()`: the program that is paused (or was just compiled) goes on -/
  | run
  /-- a whole REPL line (src/repl.rs `run_line`): `compile`, then `run`, and `abort_run` only when the run failed
      (a line that is rejected has been forgotten already: nothing is aborted — repair 1568e86) -/
  | line (toks : List Tok)

/-- what the user sees of it -/
inductive Seen where
  | done
  | rejected (e : Xerr)
  | failed (e : Xerr)
  | panic (p : String)
  | aborted

/-- a history of later events: what was seen, and the interpreter afterwards; `none` when the model has no answer (a
    word outside it, or the fuel of the model's `run`) -/
def later (fuel : Nat) : List Later → Sess → Option (List Seen × Sess)
  | [], s => some ([], s)
  | .abort :: rest, s => (later fuel rest s.abortRun).map fun r => (.aborted :: r.1, r.2)
  | .run :: rest, s =>
    match s.runS fuel with
    | .ok s' => (later fuel rest s').map fun r => (.done :: r.1, r.2)
    | .err e s' => (later fuel rest s').map fun r => (.failed e :: r.1, r.2)
    | .panic p s' => (later fuel rest s').map fun r => (.panic p :: r.1, r.2)
    | .unsupported _ => none
    | .timeout => none
  | .line toks :: rest, s =>
    match s.buildSource fuel .compile toks with
    | .done s1 =>
      match s1.runS fuel with
      | .ok s2 => (later fuel rest s2).map fun r => (.done :: r.1, r.2)
      | .err e s2 => (later fuel rest s2.abortRun).map fun r => (.failed e :: r.1, r.2)
      | .panic p s2 => (later fuel rest s2).map fun r => (.panic p :: r.1, r.2)
      | .unsupported _ => none
      | .timeout => none
    | .rejected e s' => (later fuel rest s').map fun r => (.rejected e :: r.1, r.2)
    | .failed e s' => (later fuel rest s'.abortRun).map fun r => (.failed e :: r.1, r.2)
    | .panic p s' => (later fuel rest s').map fun r => (.panic p :: r.1, r.2)
    | .unsupported _ => none
    | .timeout => none
  | .source mode toks :: rest, s =>
    match s.buildSource fuel mode toks with
    | .done s' => (later fuel rest s').map fun r => (.done :: r.1, r.2)
    | .rejected e s' => (later fuel rest s').map fun r => (.rejected e :: r.1, r.2)
    | .failed e s' => (later fuel rest s').map fun r => (.failed e :: r.1, r.2)
    | .panic p s' => (later fuel rest s').map fun r => (.panic p :: r.1, r.2)
    | .unsupported _ => none
    | .timeout => none

/-- two interpreters that differ only in the meter, the stop flag, the last-token marker, and in what they had printed
    (`o`, `o'`) before they started printing the same text -/
def Twin (o o' : List Char) (x y : Sess) : Prop := ∃ z, GSt o x z ∧ GSt o' y z

/-- what `Twin` says, spelled out -/
theorem Twin.spec {o o' : List Char} {x y : Sess} (h : Twin o o' x y) :
    ∃ d, x.m.out = o ++ d ∧ y.m.out = o' ++ d ∧
      y = { x with m := { x.m with meter := y.m.meter, out := y.m.out, aboutToStop := y.m.aboutToStop },
                   lastTok := y.lastTok } := by
  obtain ⟨z, h1, h2⟩ := h
  obtain ⟨a1, a2⟩ := GS.spec h1
  obtain ⟨b1, b2⟩ := GS.spec h2
  refine ⟨z.m.out, a1, b1, ?_⟩
  obtain ⟨xm, _, _, _, _, _⟩ := x
  obtain ⟨ym, _, _, _, _, _⟩ := y
  obtain ⟨zm, _, _, _, _, _⟩ := z
  cases xm; cases ym; cases zm
  simp only [Sess.mk.injEq, Mach.mk.injEq] at a2 b2 ⊢
  simp_all

/-- **twins stay twins**, and are told the same: any history of sources and aborts -/
theorem later_twin {o o' : List Char} (fuel : Nat) (evs : List Later)
    (hmodes : ∀ mode toks, Later.source mode toks ∈ evs → mode ≠ .metaEval) :
    ∀ x y : Sess, Twin o o' x y →
      match later fuel evs x, later fuel evs y with
      | some (a, x'), some (b, y') => a = b ∧ Twin o o' x' y'
      | none, none => True
      | _, _ => False := by
  induction evs with
  | nil => intro x y h; exact ⟨rfl, h⟩
  | cons ev rest ih =>
    have ih' := ih (fun mode toks hmem => hmodes mode toks (List.mem_cons_of_mem _ hmem))
    have lift : ∀ (sn : Seen) (x' y' : Sess), Twin o o' x' y' →
        match (later fuel rest x').map (fun r => (sn :: r.1, r.2)), (later fuel rest y').map (fun r => (sn :: r.1, r.2)) with
        | some (a, x''), some (b, y'') => a = b ∧ Twin o o' x'' y''
        | none, none => True
        | _, _ => False := by
      intro sn x' y' ht
      have := ih' x' y' ht
      revert this
      cases later fuel rest x' <;> cases later fuel rest y' <;> simp only [Option.map] <;> intro this
      · trivial
      · exact this
      · exact this
      · exact ⟨by rw [this.1], this.2⟩
    intro x y ⟨z, h1, h2⟩
    cases ev with
    | abort =>
      simp only [later]
      exact lift .aborted _ _ ⟨z.abortRun, gs_abortRun h1, gs_abortRun h2⟩
    | run =>
      have r1 := gst_runS h1 fuel
      have r2 := gst_runS h2 fuel
      simp only [later]
      revert r1 r2
      cases z.runS fuel <;> cases x.runS fuel <;> cases y.runS fuel <;> simp only [GRt] <;> intro r1 r2 <;>
        first
          | exact r1.elim
          | exact r2.elim
          | trivial
          | skip
      · exact lift .done _ _ ⟨_, r1, r2⟩
      · obtain ⟨e1, g1⟩ := r1; obtain ⟨e2, g2⟩ := r2; subst e1 e2
        exact lift (.failed _) _ _ ⟨_, g1, g2⟩
      · obtain ⟨e1, g1⟩ := r1; obtain ⟨e2, g2⟩ := r2; subst e1 e2
        exact lift (.panic _) _ _ ⟨_, g1, g2⟩
    | line toks =>
      have r1 := gs_buildSource fuel .compile (by decide) toks x z h1
      have r2 := gs_buildSource fuel .compile (by decide) toks y z h2
      simp only [later]
      revert r1 r2
      cases z.buildSource fuel .compile toks <;> cases x.buildSource fuel .compile toks <;>
        cases y.buildSource fuel .compile toks <;> intro r1 r2 <;>
        first
          | exact r1.elim
          | exact r2.elim
          | trivial
          | skip
      · -- built on all three: now the run
        rename_i zs xs ys
        have q1 := gst_runS r1.toGSt fuel
        have q2 := gst_runS r2.toGSt fuel
        dsimp only
        revert q1 q2
        cases zs.runS fuel <;> cases xs.runS fuel <;> cases ys.runS fuel <;> simp only [GRt] <;> intro q1 q2 <;>
          first
            | exact q1.elim
            | exact q2.elim
            | trivial
            | skip
        · exact lift .done _ _ ⟨_, q1, q2⟩
        · obtain ⟨e1, g1⟩ := q1; obtain ⟨e2, g2⟩ := q2; subst e1 e2
          exact lift (.failed _) _ _ ⟨_, gst_abortRun g1, gst_abortRun g2⟩
        · obtain ⟨e1, g1⟩ := q1; obtain ⟨e2, g2⟩ := q2; subst e1 e2
          exact lift (.panic _) _ _ ⟨_, g1, g2⟩
      · obtain ⟨e1, g1⟩ := r1; obtain ⟨e2, g2⟩ := r2; subst e1 e2
        exact lift (.rejected _) _ _ ⟨_, g1.toGSt, g2.toGSt⟩
      · obtain ⟨e1, g1⟩ := r1; obtain ⟨e2, g2⟩ := r2; subst e1 e2
        exact lift (.failed _) _ _ ⟨_, gst_abortRun g1.toGSt, gst_abortRun g2.toGSt⟩
      · obtain ⟨e1, g1⟩ := r1; obtain ⟨e2, g2⟩ := r2; subst e1 e2
        exact lift (.panic _) _ _ ⟨_, g1.toGSt, g2.toGSt⟩
    | source mode toks =>
      have hm := hmodes mode toks List.mem_cons_self
      have r1 := gs_buildSource fuel mode hm toks x z h1
      have r2 := gs_buildSource fuel mode hm toks y z h2
      simp only [later]
      revert r1 r2
      cases z.buildSource fuel mode toks <;> cases x.buildSource fuel mode toks <;>
        cases y.buildSource fuel mode toks <;> intro r1 r2 <;>
        first
          | exact r1.elim
          | exact r2.elim
          | trivial
          | skip
      · exact lift .done _ _ ⟨_, r1.toGSt, r2.toGSt⟩
      · obtain ⟨e1, g1⟩ := r1; obtain ⟨e2, g2⟩ := r2; subst e1 e2
        exact lift (.rejected _) _ _ ⟨_, g1.toGSt, g2.toGSt⟩
      · obtain ⟨e1, g1⟩ := r1; obtain ⟨e2, g2⟩ := r2; subst e1 e2
        exact lift (.failed _) _ _ ⟨_, g1.toGSt, g2.toGSt⟩
      · obtain ⟨e1, g1⟩ := r1; obtain ⟨e2, g2⟩ := r2; subst e1 e2
        exact lift (.panic _) _ _ ⟨_, g1.toGSt, g2.toGSt⟩

/-- **C10, the follow-up.** Take the interpreter that was given a rejected source and the interpreter that never saw it.
    Whatever is submitted afterwards — any number of sources in eval or compile mode, `run()` calls and whole REPL lines,
    each of which may build, be rejected in turn, fail at run time, with REPL aborts in between — the two give the same answer to every one of
    them (the same errors), print the same text `d`, and end up equal in everything but the meter, the stop flag and
    the last-token marker. -/
theorem rejected_source_then_any_history (fuel : Nat) (mode : Mode) (toks : List Tok) (s s' : Sess) (e : Xerr)
    (idle : Idle s) (hmode : mode ≠ .metaEval) (hlim : s.m.insnLimit = none)
    (h : s.buildSource fuel mode toks = .rejected e s')
    (fuel2 : Nat) (evs : List Later) (hmodes : ∀ mode toks, Later.source mode toks ∈ evs → mode ≠ .metaEval) :
    match later fuel2 evs s, later fuel2 evs s' with
    | some (a, r), some (b, r') =>
      a = b ∧ ∃ d, r.m.out = s.m.out ++ d ∧ r'.m.out = s'.m.out ++ d ∧
        r' = { r with m := { r.m with meter := r'.m.meter, out := r'.m.out, aboutToStop := r'.m.aboutToStop },
                      lastTok := r'.lastTok }
    | none, none => True
    | _, _ => False := by
  have hr := rejected_source_restores fuel mode toks s s' e idle hmode h
  let z : Sess := { s with m := { s.m with out := [] } }
  have t0 : Twin s.m.out s'.m.out s s' := by
    refine ⟨z, ?_, ?_⟩
    · exact GS.ofSpec (by exact hlim) (by simp [z]) (by simp [z])
    · refine GS.ofSpec (by exact hlim) (by simp [z]) ?_
      rw [hr]
  have := later_twin fuel2 evs hmodes s s' t0
  revert this
  cases later fuel2 evs s <;> cases later fuel2 evs s' <;> intro this
  · trivial
  · exact this
  · exact this
  · exact ⟨this.1, this.2.spec⟩

/-! ### the hypotheses are satisfiable, the theorems are not vacuous -/

/-- the empty session is idle -/
example : Idle ({} : Sess) := ⟨⟨Nat.le_refl _, Nat.le_refl _, Nat.le_refl _, Nat.le_refl _⟩, Nat.le_refl _, rfl⟩

/-- a source is rejected half-way (a literal has been compiled, an unknown word follows, more text trails):
    the conclusion of the main theorem is about something that happens -/
example : ∃ e s', ({} : Sess).buildSource 5 .eval [.lit (.int 1), .word "foo", .lit (.int 2)] = .rejected e s' := by
  simp [Sess.buildSource, Sess.build1, tokens, Sess.visible, Sess.visLen, CState.topFun, Sess.ofC, buildWord, Sess.toC, cerr, andRun,
    Sess.metaRun, Sess.contextOpen, Sess.emit]

/-- the follow-up theorem is about histories that have answers: a later source is built, a second one is
    rejected in turn, and the REPL aborts -/
example : ((later 5 [.source .compile [.lit (.int 1)], .source .compile [.word "foo"], .abort] ({} : Sess)).map (·.1)).isSome = true := by
  simp [later, Sess.buildSource, Sess.build1, tokens, Sess.visible, Sess.visLen, CState.topFun, Sess.ofC, buildWord, Sess.toC, cerr,
    andRun, Sess.metaRun, Sess.contextOpen, Sess.emit, Sess.contextClose, Sess.hasPendingFlow, Sess.fromC, forgetBuildLog]

/-- … and about REPL lines: a line is built, the next one is rejected (and, being rejected, aborts nothing) -/
example : ((later 5 [.source .compile [.lit (.int 1)], .line [.word "foo"], .abort] ({} : Sess)).map (·.1)).isSome = true := by
  simp [later, Sess.buildSource, Sess.build1, tokens, Sess.visible, Sess.visLen, CState.topFun, Sess.ofC, buildWord, Sess.toC, cerr,
    andRun, Sess.metaRun, Sess.contextOpen, Sess.emit, Sess.contextClose, Sess.hasPendingFlow, Sess.fromC, forgetBuildLog]

end Xeh.C10
