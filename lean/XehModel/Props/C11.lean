/-
C11 — meta-evaluation is sealed and equivalent to inlining its result.                      (PARTIAL)

Model: Model/Session.lean (`#(` = `context_open(MetaEval)`, the run at every token boundary of a meta
block, `#)` = `context_close`: run, truncate the block's code, purge its non-constant definitions, re-emit
the results as literals; `const`), on top of the compiler and VM models. Tied to the code by the `C11 sess`
correspondence (every intermediate state and the final bytecode of histories with meta blocks at every
position) and Tie B.

Proved here, for every machine state / dictionary / fuel:
* `meta_refuses_variables` — inside a meta block reading, writing and allocating variables fail with the
  constant-context error and change nothing.
* `meta_execution_sealed` — whatever a meta block executes (any number of instructions, whatever the
  outcome): the data stack below the block's base, the return/loop/builder stacks below their marks, every
  variable, the dictionary, the bytecode and the context marks are unchanged.
* `meta_close_purges` — closing a block leaves, of the dictionary entries added since it was opened,
  exactly constants; everything older is untouched and keeps its position.
* `source_never_changes_what_was_there` — submitting a source in *compile* mode (meta blocks included, at
  every position, nested, failing or not): when it is done every variable that existed has its value, the
  data stack that existed is still there underneath, the context is the one before; and
  `compiling_changes_neither_stack_nor_variables`: nothing is left on top either — the data stack after `compile` IS
  the data stack before (Proofs/SessionQuiet.lean: the token loop followed at its base level, every meta block opened
  from there closed by the block theorems; Proofs/SessionAligned.lean).
* `meta_block_opens`, `meta_block_steps`, `meta_block_closes_clean` — a block opened outside a meta block, as a
  whole: inside it the session stays an extension of the session at the `#(` through every step the token loop
  can take; when it closes, the session is the one at the `#(` with the code extended by one literal per result
  — the opcodes the compiler emits for the same values written as literals — and only constants added to the
  dictionary.
* `meta_block_is_its_values` — the composition: "P[#( e #)] behaves like P[values of e]" for the token loop. From any
  session outside a meta block, with the `#(` at any position of the source: if the block gets closed (followed
  semantically, by the depth of the saved contexts — `#(` and `#)` are dictionary words, not syntax) and is clean
  (defines no constant, declares no variable, leaves the return/loop/builder stacks alone — the one thing the block
  theorems cannot know), then reading the rest of the source after the block and reading it after the block's values
  written as literals give the same answer, the same error, and sessions equal in everything but debug map,
  last-token marker, meter, stop flag and what the block printed (Proofs/SessionInline.lean; the congruence of the
  session model up to token positions: Proofs/SessionGhostD.lean, of the compiler: Proofs/CompileTok.lean).
  Hypotheses: recording off and no instruction limit (both are observable differences: the block's execution is logged
  and metered). Still decided per program only: blocks that define constants (`P[values]` has no counterpart for them).
* `eval_is_compile_then_run` — for an interpreter at rest, every source and every fuel: `eval src` gives the same
  answer and the same session as `compile src` followed by `run` (Proofs/SessionBase.lean: reading a source never
  looks at the base context's mode or stack floor, whatever meta blocks it contains; Proofs/VMCtx.lean, generated:
  the VM never reads the bookkeeping fields of a context; Proofs/SessionEval.lean).
Known finding (listed in known_findings.json): a block nested in another block shares that block's stack —
pinned by the existing suite (`test_meta_stack`), contradicting "sealed" for that position.
-/
import XehModel.Proofs.SessionUnwind
import XehModel.Proofs.SessionBlock
import XehModel.Proofs.SessionEval
import XehModel.Proofs.SessionInline
import XehModel.Proofs.SessionQuiet

namespace Xeh.C11
open Xeh Xeh.Mach Xeh.Compile Xeh.Session Xeh.Session.Sess

/-- variable access and allocation refuse to work in a meta block, and leave the machine alone -/
theorem meta_refuses_variables (m : Mach) (hm : m.ctx.mode = .metaEval) (idx : Nat) (v : Cell) :
    m.cellRef idx = .err constContext ∧ m.swapCellRef idx v = (.err constContext, m) ∧
    m.allocHeap v = (.err constContext, m) := by
  simp [cellRef, swapCellRef, allocHeap, hm]

/-- whatever runs inside a meta block — any number of instructions, any outcome — cannot see past the
    block's marks and cannot change a variable, the dictionary or the bytecode -/
theorem meta_execution_sealed (np : String → Option Prog) (fuel : Nat) (m m' : Mach) (o : Outcome Unit)
    (w : WF m) (hm : m.ctx.mode = .metaEval) (h : Mach.run np fuel m = some (o, m')) :
    hidOf m'.ds m.ctx.dsLen = hidOf m.ds m.ctx.dsLen ∧ hidOf m'.rs m.ctx.rsLen = hidOf m.rs m.ctx.rsLen ∧
    hidOf m'.loops m.ctx.lsLen = hidOf m.loops m.ctx.lsLen ∧ hidOf m'.special m.ctx.ssPtr = hidOf m.special m.ctx.ssPtr ∧
    m'.heap = m.heap ∧ m'.dict = m.dict ∧ m'.code = m.code ∧ m'.ctx.marks = m.ctx.marks := by
  have sl := run_sealed np fuel m (o, m') w h
  have hmarks : m'.ctx.marks = m.ctx.marks := by have := congrArg Hid.marks sl.hid; simpa [Core.hid, Mach.core] using this
  have hf : ∀ (f : Ctx → Nat), (∀ x : Ctx, f x = f x.marks) → f m'.ctx = f m.ctx := fun f hf => by rw [hf m'.ctx, hf m.ctx, hmarks]
  have e1 := hf Ctx.dsLen (fun _ => rfl); have e2 := hf Ctx.rsLen (fun _ => rfl)
  have e3 := hf Ctx.lsLen (fun _ => rfl); have e4 := hf Ctx.ssPtr (fun _ => rfl)
  refine ⟨?_, ?_, ?_, ?_, sl.heapMeta hm, sl.dict, sl.codeMeta hm, hmarks⟩
  · have := congrArg Hid.ds sl.hid; simp only [Core.hid, Mach.core, e1] at this; exact this
  · have := congrArg Hid.rs sl.hid; simp only [Core.hid, Mach.core, e2] at this; exact this
  · have := congrArg Hid.loops sl.hid; simp only [Core.hid, Mach.core, e3] at this; exact this
  · have := congrArg Hid.special sl.hid; simp only [Core.hid, Mach.core, e4] at this; exact this

/-- the purge of `context_close` on the dictionary in Rust order: everything from `i` on is a constant
    afterwards -/
theorem purgeLoop_consts (f : Nat) : ∀ (i : Nat) (r : List (String × Entry)), r.length ≤ i + f →
    ∀ j, i ≤ j → ∀ e, (purgeLoop f i r)[j]? = some e → ∃ c, e.2 = .const c := by
  induction f with
  | zero =>
    intro i r hl j hj e he
    simp only [purgeLoop] at he
    have : r[j]? = none := List.getElem?_eq_none (by omega)
    rw [this] at he; cases he
  | succ f ih =>
    intro i r hl j hj e he
    simp only [purgeLoop] at he
    split at he
    · rename_i nm c hget
      rcases Nat.eq_or_lt_of_le hj with rfl | hlt
      · -- position i itself: the loop only moves on, the entry stays
        have keep : ∀ (f : Nat) (i' : Nat) (r : List (String × Entry)) (k : Nat), k < i' → (purgeLoop f i' r)[k]? = r[k]? := by
          intro f
          induction f with
          | zero => intro i' r k _; rfl
          | succ f ih2 =>
            intro i' r k hk
            simp only [purgeLoop]
            split
            · exact ih2 (i' + 1) r k (by omega)
            · rename_i e2 hne hg2
              have hi : i' < r.length := by
                rcases Nat.lt_or_ge i' r.length with h | h
                · exact h
                · simp [List.getElem?_eq_none h] at hg2
              rw [ih2 i' _ k hk]
              have := (swapRemove_take r i' (k + 1) (by omega) hi).1
              have h1 := congrArg (fun l => l[k]?) this
              simpa [List.getElem?_take] using h1
            · rfl
        rw [keep f (i + 1) r i (by omega), hget] at he
        cases he; exact ⟨c, rfl⟩
      · exact ih (i + 1) r (by omega) j (by omega) e he
    · rename_i e2 hne hget
      have hi : i < r.length := by
        rcases Nat.lt_or_ge i r.length with h | h
        · exact h
        · simp [List.getElem?_eq_none h] at hget
      have hlen : (swapRemove r i).length + 1 = r.length := by
        unfold swapRemove
        cases hl2 : r.getLast? with
        | none => simp at hl2; subst hl2; simp at hi
        | some l => simp only; split <;> simp <;> omega
      exact ih i (swapRemove r i) (by omega) j hj e he
    · rename_i hnone
      have : r[j]? = none := by
        have hi : r.length ≤ i := by
          rcases Nat.lt_or_ge i r.length with h | h
          · rw [List.getElem?_eq_getElem h] at hnone; cases hnone
          · exact h
        exact List.getElem?_eq_none (by omega)
      rw [this] at he; cases he

/-- closing a meta block: of the dictionary entries added since the block was opened only constants remain
    (positions counted from the oldest entry); the older entries are untouched -/
theorem meta_close_purges (dict : List (String × Entry)) (diLen : Nat) (hl : diLen ≤ dict.length) :
    (∀ j, diLen ≤ j → ∀ e, (purge dict diLen).reverse[j]? = some e → ∃ c, e.2 = .const c) ∧
    hidOf (purge dict diLen) diLen = hidOf dict diLen := by
  refine ⟨fun j hj e he => ?_, (purge_old dict diLen diLen (Nat.le_refl _) hl).1⟩
  unfold purge at he
  rw [List.reverse_reverse] at he
  exact purgeLoop_consts dict.length diLen dict.reverse (by simp) j hj e he

/-- submitting a source in compile mode never changes what was there: every existing variable keeps its
    value, the existing data/return stacks and code are still there, the context is the one before —
    whatever meta blocks the source contains. (partial: see the header) -/
theorem source_never_changes_what_was_there_partial (fuel : Nat) (toks : List Tok) (s s' : Sess) (idle : Idle s)
    (h : s.buildSource fuel .compile toks = .done s') :
    s'.m.heap.take s.m.heap.length = s.m.heap ∧ hidOf s'.m.ds s.m.ds.length = s.m.ds ∧
    hidOf s'.m.rs s.m.rs.length = s.m.rs ∧ s'.m.code.take s.m.code.length = s.m.code ∧
    s'.m.ctx = s.m.ctx ∧ s'.nested = s.nested := by
  have hb := sok_build1 (ext_open idle .compile (by decide)) (by decide) fuel toks
  unfold Sess.buildSource at h
  simp only [] at h
  generalize hg : (s.contextOpen .compile).build1 fuel toks = r at h hb
  cases r with
  | ok s2 =>
    simp only at h
    have e0 : Ext0 s s2 := hb.ext0
    obtain ⟨hmode, hnest⟩ := build1_ok_base fuel toks (by decide) hg hb
    have hmode' : (forgetBuildLog s.m s2.m).ctx.mode = .compile := hmode
    simp only [Sess.contextClose, hnest, hmode'] at h
    cases h
    exact ⟨e0.heap, e0.ds, e0.rs, e0.code, rfl, rfl⟩
  | err e2 s2 => cases h
  | panic p s2 => cases h
  | unsupported u => cases h
  | timeout => cases h

/-- **compiling a source executes nothing outside its meta blocks, so it changes neither the data stack nor any
    variable**: when `compile` answers *done* — whatever meta blocks the source contains, nested, defining constants,
    printing — the data stack is exactly the one it was given, every variable that existed has its value, the code that
    existed is still there, the context and the saved contexts are the ones before. -/
theorem compiling_changes_neither_stack_nor_variables (fuel : Nat) (toks : List Tok) (s s' : Sess) (idle : Idle s)
    (h : s.buildSource fuel .compile toks = .done s') :
    s'.m.ds = s.m.ds ∧ s'.m.heap.take s.m.heap.length = s.m.heap ∧ s'.m.code.take s.m.code.length = s.m.code ∧
    s'.m.ctx = s.m.ctx ∧ s'.nested = s.nested := by
  obtain ⟨h1, _, _, h4, h5, h6⟩ := source_never_changes_what_was_there_partial fuel toks s s' idle h
  exact ⟨compile_is_quiet fuel toks s s' idle h, h1, h4, h5, h6⟩

/-! ### a meta block as a whole: `#(` … `#)` is equivalent to its results written as literals

A block opened in a context that is not itself a meta block (top level, inside builders, inside definitions,
inside conditionals and loops). `Ext .metaEval s0 s` (Proofs/SessionUnwind.lean) says that `s` still contains
everything `s0` had: `s0`'s code is a prefix of the code, every variable of `s0` has its value, the data /
return / loop / builder stacks of `s0` lie untouched underneath, the pending flows and saved contexts of `s0`
are still there, replaced constants can be restored. -/

/-- `#(`: the session just inside the block is an extension of the session at the `#(` -/
theorem meta_block_opens {s0 : Sess} (i : Idle s0) (h0 : s0.m.ctx.mode ≠ .metaEval) :
    Ext .metaEval s0 (s0.contextOpen .metaEval) := ext_open_block i h0

/-- every step the token loop takes inside the block — compiling a literal or a local, any immediate or ordinary
    word through the flow-stack compiler, a definition, `late`, `const`, opening a nested block, closing a
    *nested* block, and the run that follows each of them — keeps the session an extension of the session at
    the `#(`, or fails in a state that still is one (so that C10's unwinding restores it) -/
theorem meta_block_steps {s0 s : Sess} (h : Ext .metaEval s0 s) (fuel : Nat) :
    (∀ op, SOK .metaEval s0 (andRun fuel (.ok (s.emit op)))) ∧
    (∀ w, SOK .metaEval s0 (andRun fuel (s.ofC (immediate s.toC w)))) ∧
    (∀ w, SOK .metaEval s0 (andRun fuel (s.ofC (buildWord s.toC w)))) ∧
    (∀ w n, SOK .metaEval s0 (andRun fuel (s.ofC (withName s.toC w n)))) ∧
    (∀ n t, SOK .metaEval s0 (andRun fuel (s.ofC (late s.toC n t)))) ∧
    (∀ n, SOK .metaEval s0 (andRun fuel (s.constDef n))) ∧
    SOK .metaEval s0 (andRun fuel (.ok (s.contextOpen .metaEval))) ∧
    (s.nested.length ≠ s0.nested.length + 1 → SOK .metaEval s0 (andRun fuel (s.nestedEnd fuel))) := by
  obtain ⟨hp, ho⟩ := pre_toC h
  exact ⟨fun op => sok_andRun fuel (.ok _) (ext_emit op h),
    fun w => sok_andRun fuel _ (sok_ofC h _ (immediate_good _ _ _ hp ho)),
    fun w => sok_andRun fuel _ (sok_ofC h _ (buildWord_good _ _ _ hp ho)),
    fun w n => sok_andRun fuel _ (sok_ofC h _ (withName_good _ _ _ _ hp ho)),
    fun n t => sok_andRun fuel _ (sok_ofC h _ (late_good _ _ _ _ hp ho)),
    fun n => sok_andRun fuel _ (sok_constDef h n),
    sok_andRun fuel (.ok _) (ext_contextOpen h),
    fun hne => sok_andRun fuel _ (sok_nestedEnd h (Or.inr hne) fuel)⟩

/-- `#)`: from any state inside the block in which the block's own context is current and nothing is open,
    closing the block gives back the session of the `#(` — context, nesting, pending flows, data stack, every
    variable, the other stacks — with the code extended by exactly one literal per result, the very opcodes the
    compiler emits for the values written as literals (`Mach.loadValueOp`), and the part of the dictionary that
    existed at the `#(` as the block left it (only `const` touches it). The block's own code, words and
    variables are gone (`meta_close_purges`). -/
theorem meta_block_closes_clean {s0 s t : Sess} (fuel : Nat) (h0 : s0.m.ctx.mode ≠ .metaEval)
    (h : Ext .metaEval s0 s) (hbase : s.nested.length = s0.nested.length + 1) (hnp : s.hasPendingFlow = false)
    (hc : s.contextClose fuel = .ok t) :
    t.m.ctx = s0.m.ctx ∧ t.nested = s0.nested ∧ t.flows = s0.flows ∧ t.m.ds = s0.m.ds ∧
    t.m.heap.take s0.m.heap.length = s0.m.heap ∧ hidOf t.m.rs s0.m.rs.length = s0.m.rs ∧
    hidOf t.m.loops s0.m.loops.length = s0.m.loops ∧ hidOf t.m.special s0.m.special.length = s0.m.special ∧
    (∃ vs : List Cell, t.m.code = s0.m.code ++ vs.map Mach.loadValueOp) ∧
    hidOf t.m.dict s0.m.dict.length = hidOf s.m.dict s0.m.dict.length :=
  block_close fuel h0 h hbase hnp hc

/-! ### a meta block is its values -/

/-- **`P[#( e #)]` behaves like `P[values of e]`.**  Any session `s` outside a meta block in which a source can be read
    (`Idle`), recording off, no instruction limit; at token position `i` a word `w` that means the core word `#(` and is
    not shadowed by a local; following the block (`untilClosed`: until the saved contexts are as deep as at the `#(`
    again) it closes with `rest` unread in session `t`, and the block is `Clean` (no constant defined, no variable
    declared, return / loop / builder stacks as found).  Then there are values `vs` with
    `t.code = s.code ++ literals of vs` such that, wherever the literals sit in their source (`j`), reading
    `#( … #) rest` from `s` and reading `vs rest` from `s` give the same kind of answer with the same error and
    sessions that are `Alike` (`AlikeR`: ok/ok, err/err with the same error, …): equal in code, stacks, variables, dictionary, pending flows and contexts, having
    printed the same text after what the block itself printed. -/
theorem meta_block_is_its_values (fuel depth : Nat) (s : Sess) (idle : Idle s) (h0 : s.m.ctx.mode ≠ .metaEval)
    (hlog : s.m.log = none) (hlim : s.m.insnLimit = none)
    (w : String) (rest0 : List Tok) (i : Nat)
    (hloc : ((CState.topFun ({ s with lastTok := i } : Sess).visible).bind fun ff => CState.rposition w ff.locals) = none)
    (hw : s.m.dict.lookup w = some (.native true "#("))
    (n : Nat) (rest : List Tok) (i' : Nat) (t : Sess)
    (hblk : untilClosed fuel s.nested.length n rest0 (i + 1) (({ s with lastTok := i } : Sess).contextOpen .metaEval) = .closed rest i' t)
    (clean : Clean s t) :
    ∃ vs : List Cell, t.m.code = s.m.code ++ vs.map Mach.loadValueOp ∧
      ∀ j, AlikeR t.m.out s.m.out (tokens fuel depth (.word w :: rest0) i s) (tokens fuel depth (vs.map Tok.lit ++ rest) j s) := by
  obtain ⟨vs, hc, hall⟩ := block_inlines fuel depth s idle h0 hlog hlim w rest0 i hloc hw n rest i' t hblk clean
  exact ⟨vs, hc, fun j => (hall j).spec⟩

/-- the hypotheses are satisfiable: with `#(` and `#)` in the dictionary, the block `#( 7 #)` read from the empty session
    gets closed, and it is clean -/
example :
    let s : Sess := { m := { dict := [("#(", .native true "#("), ("#)", .native true "#)")] } }
    ∃ rest i' t, untilClosed 5 s.nested.length 3 [.lit (.int 7), .word "#)"] 1 (({ s with lastTok := 0 } : Sess).contextOpen .metaEval) =
        .closed rest i' t ∧ Clean s t ∧ t.m.code = s.m.code ++ [Mach.loadValueOp (.int 7)] :=
  ⟨_, _, _, rfl, ⟨rfl, rfl, rfl, rfl, rfl, rfl⟩, rfl⟩

/-! ### `eval` = `compile`, then `run` -/

/-- **`eval src` is `compile src` followed by `run`.** For every interpreter at rest (in eval mode, no program in
    flight: `AtRest`), every token list — meta blocks at any position, nested, definitions, anything — and every fuel:
    the two give the same answer (built and run to the end; rejected with the same error; failed at run time with the
    same error; the model's `unsupported` / `timeout` alike) and leave the same session: identical when the source is
    rejected or runs to its end; identical up to the bookkeeping fields of the current context (`SameC`) when the run
    fails, because `eval` then leaves the failed source's own context current (`context_close` returns early). -/
theorem eval_is_compile_then_run (fuel : Nat) (toks : List Tok) (s : Sess) (idle : Idle s) (rest : AtRest s) :
    EvalR (s.buildSource fuel .eval toks) (compileThenRun fuel toks s) :=
  eval_eq_compile_run fuel toks s idle rest

/-- the empty session is at rest -/
example : AtRest ({} : Sess) := ⟨rfl, rfl, rfl, rfl, rfl⟩

/-- the hypotheses are satisfiable: the empty session is idle, and a source with a meta block compiles -/
example : Idle ({} : Sess) := ⟨⟨Nat.le_refl _, Nat.le_refl _, Nat.le_refl _, Nat.le_refl _⟩, Nat.le_refl _, rfl⟩

end Xeh.C11
