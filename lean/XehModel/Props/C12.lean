/-
C12 — maps, vectors and strings obey collection laws under the language's equality.

Property theorems only (helpers: Proofs/CollOrder.lean, CollMap.lean, CollGuard.lean, CollSeq.lean).

KNOWN FINDING (DESIGN §6 #16, #20; cannot be repaired: the pinned unit test `test_let_tag` depends on
it). `Ord for Cell` returns `Equal` for every pair of cells that is not int/int, real/real or str/str.
The model reproduces that (`Cell.cmp`, Model/Collections.lean). Consequently the map laws are FALSE at
full strength — `C12_key_collision` below proves the counterexample `{ 1 "a" 2 5 }` in the model, and the
same input is replayed on the implementation by the check — and are proved here in `_partial` form under
the explicit decidable guard

    KeysComparable m probes  :=  every key stored in `m` and every probe key is an int cell,
                                 or every one of them is a string cell (tags allowed)

What is missing with respect to the full statements (kept in comments next to each theorem):
* keys of different types / unordered types (nil, flags, bit-strings, vectors, maps, NaN) — refuted;
* non-NaN real keys: comparable in the implementation and handled by the model and by the
  correspondence / oracle, but the lawfulness of `SF.lt64 / SF.eq64` as an order is not proved, so real
  keys are outside the proved guard.
The sequence theorems (`nth get slice reverse push collect unbox length concat join`) are full:
every `Int` index, every stack underneath, every hidden-prefix length.
-/
import XehModel.Proofs.CollGuard
import XehModel.Proofs.CollSeq
import XehModel.Proofs.CollSort

set_option linter.unusedSimpArgs false
set_option linter.unusedVariables false

namespace Xeh.C12
open Xeh Prog Coll

/-! ## the contract `Ord for Cell` owes to rpds and to `sort` -/

/- full statement (refuted by `C12_key_collision`):
   theorem cmp_lawful : CmpLawfulOn (fun c => ¬ IsNaNCell c) -/
/-- on int cells and on string cells `cmp` is a total preorder (`oriented`, `le_trans`) whose `Equal`
    is exactly `equal?` -/
theorem cmp_lawful_partial : CmpLawfulOn IsIntCell ∧ CmpLawfulOn IsStrCell :=
  ⟨cmp_lawful_int, cmp_lawful_str⟩

/-- the counterexample to the unguarded statements: `1` and `"a"` are different values that compare
    `Equal`; the literal `{ 1 "a" 2 5 }` has one entry and `"a" get` on it returns `2`. -/
theorem C12_key_collision :
    Cell.cmp (.int 1) (.str ['a']) = .eq ∧ Cell.beq (.int 1) (.str ['a']) = false ∧
    mapLiteral [.int 1, .str ['a'], .int 2, .int 5] = .ok (.map (.cons (.int 5) (.int 2) .nil)) ∧
    wordGet.runStack 0 [.str ['a'], .map (.cons (.int 5) (.int 2) .nil)] = .ok [.int 2] :=
  ⟨by decide, by simp [Cell.beq, Cell.beqV, Cell.beqVV], by decide, by decide⟩

/-- hence no lawful order exists on a set containing an int and a string -/
theorem C12_not_lawful_mixed (P : Cell → Prop) (h1 : P (.int 1)) (h2 : P (.str ['a'])) : ¬ CmpLawfulOn P := by
  intro L
  have := (L.eq_iff_beq _ _ h1 h2).mp (by decide)
  simp [Cell.beq, Cell.beqV, Cell.beqVV] at this

/-! ## the words are the map operations -/

variable (s : List Cell) (h : Nat)

theorem insert_word (m : PairList) (k v : Cell) (hh : h ≤ s.length) :
    wordInsert.runStack h (k :: v :: .map m :: s) = .ok (.map (m.insert k v) :: s) := by
  unfold wordInsert; run_simp

theorem remove_word (m : PairList) (k : Cell) (hh : h ≤ s.length) :
    wordRemove.runStack h (k :: .map m :: s) = .ok (.map (m.erase k) :: s) := by
  unfold wordRemove; run_simp

/-- `get` on a map: the stored value, or `nil` when the key is absent -/
theorem get_map_word (m : PairList) (k : Cell) (hh : h ≤ s.length) :
    wordGet.runStack h (k :: .map m :: s) = .ok ((m.lookup k).getD .nil :: s) := by
  unfold wordGet; run_simp

/-- a tagged map is accepted like the map itself (repair 003d52a) -/
theorem insert_word_tagged (m t : PairList) (k v : Cell) (hh : h ≤ s.length) :
    wordInsert.runStack h (k :: v :: .tagged (.map m) t :: s) = .ok (.map (m.insert k v) :: s) := by
  unfold wordInsert; run_simp

/-! ## map laws (guarded) -/

def SortedMap (m : PairList) : Prop := SortedKeys m.toList

/- full: theorem get_insert_same (m k v) : (m.insert k v).lookup k = some v -/
theorem get_insert_same_partial (m : PairList) (k v : Cell) (hg : KeysComparable m [k]) :
    (m.insert k v).lookup k = some v := by
  obtain ⟨P, L, _, hp⟩ := hg.elim
  simp only [PairList.insert, PairList.lookup, PairList.toList_ofList]
  exact lookupL_insertL_same L v (hp k (by simp)) _

/- full: theorem get_insert_other (m k k' v) (hne : Cell.beq k' k = false) : (m.insert k v).lookup k' = m.lookup k' -/
theorem get_insert_other_partial (m : PairList) (k k' v : Cell) (hg : KeysComparable m [k, k'])
    (hne : Cell.beq k' k = false) : (m.insert k v).lookup k' = m.lookup k' := by
  obtain ⟨P, L, hin, hp⟩ := hg.elim
  have hk := hp k (by simp); have hk' := hp k' (by simp)
  simp only [PairList.insert, PairList.lookup, PairList.toList_ofList]
  refine lookupL_insertL_other L v hk hk' ?_ _ hin
  intro he; rw [(L.eq_iff_beq _ _ hk' hk).mp he] at hne; cases hne

/- full: theorem get_remove_same (m k) : (m.erase k).lookup k = none -/
theorem get_remove_same_partial (m : PairList) (k : Cell) (hs : SortedMap m) (hg : KeysComparable m [k]) :
    (m.erase k).lookup k = none := by
  obtain ⟨P, L, hin, hp⟩ := hg.elim
  simp only [PairList.erase, PairList.lookup, PairList.toList_ofList]
  exact lookupL_eraseL_same L (hp k (by simp)) _ hin hs

theorem get_remove_other_partial (m : PairList) (k k' : Cell) (hs : SortedMap m) (hg : KeysComparable m [k, k'])
    (hne : Cell.beq k' k = false) : (m.erase k).lookup k' = m.lookup k' := by
  obtain ⟨P, L, hin, hp⟩ := hg.elim
  have hk := hp k (by simp); have hk' := hp k' (by simp)
  simp only [PairList.erase, PairList.lookup, PairList.toList_ofList]
  refine lookupL_eraseL_other L hk hk' ?_ _ hin hs
  intro he; rw [(L.eq_iff_beq _ _ hk' hk).mp he] at hne; cases hne

theorem insert_idempotent_partial (m : PairList) (k v : Cell) (hg : KeysComparable m [k]) :
    (m.insert k v).insert k v = m.insert k v := by
  obtain ⟨P, L, _, hp⟩ := hg.elim
  simp only [PairList.insert, PairList.toList_ofList]
  rw [insertL_idem L v (hp k (by simp))]

/-- one value per key: inserting a present key keeps the size, a new key adds one (holds unguarded) -/
theorem size_insert (m : PairList) (k v : Cell) :
    (m.insert k v).size = if (m.lookup k).isSome then m.size else m.size + 1 := by
  simp only [PairList.insert, PairList.lookup, PairList.size, PairList.toList_ofList]
  exact length_insertL v _

theorem size_remove (m : PairList) (k : Cell) :
    (m.erase k).size = if (m.lookup k).isSome then m.size - 1 else m.size := by
  simp only [PairList.erase, PairList.lookup, PairList.size, PairList.toList_ofList]
  exact length_eraseL _

/-- the representation invariant (strictly ascending keys) is kept by every operation -/
theorem sorted_insert_partial (m : PairList) (k v : Cell) (hs : SortedMap m) (hg : KeysComparable m [k]) :
    SortedMap (m.insert k v) := by
  obtain ⟨P, L, hin, hp⟩ := hg.elim
  simp only [SortedMap, PairList.insert, PairList.toList_ofList]
  exact sorted_insertL L v (hp k (by simp)) _ hin hs

theorem sorted_remove (m : PairList) (k : Cell) (hs : SortedMap m) : SortedMap (m.erase k) := by
  simp only [SortedMap, PairList.erase, PairList.toList_ofList]
  exact sorted_eraseL _ hs

/-- the guard is kept too, so the laws chain over whole operation sequences -/
theorem guard_insert_partial (m : PairList) (k v : Cell) (probes : List Cell) (hg : KeysComparable m (k :: probes)) :
    KeysComparable (m.insert k v) (k :: probes) := by
  unfold KeysComparable keysComparable at *
  simp only [PairList.insert, PairList.toList_ofList, List.all_append, List.all_map, Bool.or_eq_true, Bool.and_eq_true,
    List.all_eq_true, List.all_cons, Function.comp] at *
  rcases hg with ⟨h1, h2, h3⟩ | ⟨h1, h2, h3⟩
  · refine Or.inl ⟨fun p hp => ?_, h2, h3⟩
    rcases mem_insertL _ p hp with rfl | hp
    · exact h2
    · exact h1 p hp
  · refine Or.inr ⟨fun p hp => ?_, h2, h3⟩
    rcases mem_insertL _ p hp with rfl | hp
    · exact h2
    · exact h1 p hp

theorem guard_remove (m : PairList) (k : Cell) (probes : List Cell) (hg : KeysComparable m probes) :
    KeysComparable (m.erase k) probes := by
  unfold KeysComparable keysComparable at *
  simp only [PairList.erase, PairList.toList_ofList, List.all_append, List.all_map, Bool.or_eq_true, Bool.and_eq_true,
    List.all_eq_true, Function.comp] at *
  rcases hg with ⟨h1, h2⟩ | ⟨h1, h2⟩
  · exact Or.inl ⟨fun p hp => h1 p (mem_eraseL _ p hp), h2⟩
  · exact Or.inr ⟨fun p hp => h1 p (mem_eraseL _ p hp), h2⟩

/-! ### agreement with an association list built from the same operations

`alGet k al` = value of the first entry of `al` whose key is `equal?` to `k`. A map `m` *agrees* with
an association list `al` when both answer every probe of the guarded class alike. -/

def Agrees (P : Cell → Prop) (m : PairList) (al : Entries) : Prop := ∀ k, P k → m.lookup k = alGet k al

/-- on a well-formed map, lookup *is* association-list lookup over its own entries -/
theorem lookup_eq_assoc_partial (m : PairList) (k : Cell) (hs : SortedMap m) (hg : KeysComparable m [k]) :
    m.lookup k = alGet k m.toList := by
  obtain ⟨P, L, hin, hp⟩ := hg.elim
  exact lookupL_eq_alGet L (hp k (by simp)) _ hin hs

theorem agrees_empty (P : Cell → Prop) : Agrees P .nil [] := fun _ _ => rfl

/-- insert on the map = cons on the association list -/
theorem agrees_insert_partial {P : Cell → Prop} (L : CmpLawfulOn P) (m : PairList) (al : Entries) (k v : Cell)
    (hk : P k) (hin : KeysIn P m.toList) (ha : Agrees P m al) : Agrees P (m.insert k v) ((k, v) :: al) := by
  intro k' hk'
  simp only [alGet, List.find?_cons]
  cases hb : Cell.beq k' k
  · simp only []
    have : (m.insert k v).lookup k' = m.lookup k' := by
      simp only [PairList.insert, PairList.lookup, PairList.toList_ofList]
      refine lookupL_insertL_other L v hk hk' ?_ _ hin
      intro he; rw [(L.eq_iff_beq _ _ hk' hk).mp he] at hb; cases hb
    rw [this]; exact ha k' hk'
  · simp only [Option.map]
    have he := (L.eq_iff_beq _ _ hk' hk).mpr hb
    simp only [PairList.insert, PairList.lookup, PairList.toList_ofList]
    rw [lookupL_congr L hk' hk he _ (keysIn_insertL L v hk _ hin)]
    exact lookupL_insertL_same L v hk _

/-! ### literals and foreach -/

/-- the pairs of a literal, in source order: `{ v₀ k₀ v₁ k₁ … }` -/
def literalPairs : List Cell → List (Cell × Cell)
  | v :: k :: rest => (k, v) :: literalPairs rest
  | _ => []

theorem mapCollectL_eq_fold : ∀ (cells : List Cell) (acc : Entries),
    mapCollectL cells acc = (literalPairs cells).foldl (fun a p => insertL p.1 p.2 a) acc
  | [], _ => rfl
  | [_], _ => rfl
  | v :: k :: rest, acc => by simp only [mapCollectL, literalPairs, List.foldl_cons]; exact mapCollectL_eq_fold rest _

/-- a map literal is the left fold of `insert` over its pairs, starting from the empty map (unguarded) -/
theorem literal_eq_fold_insert (cells : List Cell) (he : cells.length % 2 = 0) :
    mapLiteral cells = .ok (.map ((literalPairs cells).foldl (fun m p => m.insert p.1 p.2) .nil)) := by
  have key : ∀ (ps : List (Cell × Cell)) (acc : Entries),
      PairList.ofList (ps.foldl (fun a p => insertL p.1 p.2 a) acc)
        = ps.foldl (fun m p => m.insert p.1 p.2) (PairList.ofList acc) := by
    intro ps
    induction ps with
    | nil => intro acc; rfl
    | cons p ps ih => intro acc; simp only [List.foldl_cons]; rw [ih]; simp [PairList.insert]
  unfold mapLiteral
  simp only [he, bne_self_eq_false, Bool.false_eq_true, if_false]
  rw [mapCollectL_eq_fold, key]; rfl

theorem literal_odd (cells : List Cell) (ho : cells.length % 2 = 1) :
    mapLiteral cells = .err (.controlFlow "missing key element") := by
  unfold mapLiteral mapMissingKey; simp [ho]

/-- `foreach` over a map pushes key then value of every entry exactly once, in ascending key order, and
    the entries are exactly what `get` answers (full strength needs the guard only for the last part) -/
theorem foreach_enumerates_partial (m : PairList) (hs : SortedMap m) :
    foreachItems (.map m) = .ok (m.toList.flatMap fun p => [p.1, p.2]) ∧
    m.toList.Pairwise (fun p q => Cell.cmp p.1 q.1 = .lt) ∧
    (∀ k v, KeysComparable m [k] → ((k, v) ∈ m.toList → m.lookup k = some v)) ∧
    (∀ k v, m.lookup k = some v → ∃ k', (k', v) ∈ m.toList ∧ Cell.cmp k k' = .eq) := by
  refine ⟨rfl, hs, ?_, ?_⟩
  · intro k v hg hm
    obtain ⟨P, L, hin, _⟩ := hg.elim
    exact lookupL_of_mem L _ hin hs hm
  · intro k v hl
    exact mem_of_lookupL _ hl

theorem foreach_vector (v : CellList) : foreachItems (.vec v) = .ok v.toList := rfl

/-! ## vectors and strings: every `Int` index

`pyIndex len i` / `pyNorm len i` / `pySlice l a b` (Proofs/CollSeq.lean) are Python's `l[i]` and `l[a:b]`
conventions. Operands may carry tags (`ic.value = .int i`). `hlen` states what holds of every Rust
vector / string: its length fits `isize`. -/

section seq
variable (v : CellList) (ic vc : Cell) (i : Int)

/-- `nth` with an index outside the isize range is rejected by `to_isize` -/
theorem nth_overflow (hi : ic.value = .int i) (ho : i < isizeMin ∨ isizeMax < i) (hh : h ≤ s.length) :
    wordNth.runStack h (ic :: s) = .err .integerOverflow := by
  unfold wordNth
  rw [runStack_pop_cons _ _ _ _ hh]
  simp [Cell.toIsize, hi, ofOutcome, ho]

/-- `nth` inside the isize range but outside `-len .. len-1`: OutOfBounds naming the index as given -/
theorem nth_out_of_range (hi : ic.value = .int i) (hv : vc.value = .vec v) (hr : ¬ (i < isizeMin ∨ isizeMax < i))
    (hp : pyIndex v.length i = none) (hh : h ≤ s.length) :
    wordNth.runStack h (ic :: vc :: s) = .err (.outOfBounds i 0 v.length) := by
  unfold wordNth
  rw [runStack_pop_cons _ _ _ _ (by simp; omega)]
  simp only [Cell.toIsize, hi, hr, if_false, ofOutcome]
  rw [runStack_pop_cons _ _ _ _ hh]
  simp [Cell.toVec, hv, ofOutcome, relativeIndex_eq_pyIndex, hp]

/-- `nth` in range: element `i` from the front, or `len + i` for a negative index -/
theorem nth_in_range (hi : ic.value = .int i) (hv : vc.value = .vec v) (hr : ¬ (i < isizeMin ∨ isizeMax < i))
    (a : Nat) (hp : pyIndex v.length i = some a) (hh : h ≤ s.length) :
    ∃ x, v.toList[a]? = some x ∧ wordNth.runStack h (ic :: vc :: s) = .ok (x :: s) := by
  have hlt : a < v.toList.length := pyIndex_lt hp
  refine ⟨v.toList[a], List.getElem?_eq_getElem hlt, ?_⟩
  unfold wordNth
  rw [runStack_pop_cons _ _ _ _ (by simp; omega)]
  simp only [Cell.toIsize, hi, hr, if_false, ofOutcome]
  rw [runStack_pop_cons _ _ _ _ hh]
  simp [Cell.toVec, hv, ofOutcome, relativeIndex_eq_pyIndex, hp, List.getElem?_eq_getElem hlt]

/-- `get` on a vector: an unsigned index -/
theorem get_vec_in_range (hi : ic.value = .int i) (hv : vc.value = .vec v) (h0 : 0 ≤ i) (h1 : i ≤ usizeMax)
    (x : Cell) (hx : v.toList[i.toNat]? = some x) (hh : h ≤ s.length) :
    wordGet.runStack h (ic :: vc :: s) = .ok (x :: s) := by
  unfold wordGet
  rw [runStack_pop_cons _ _ _ _ (by simp; omega), runStack_pop_cons _ _ _ _ hh]
  have : ¬ i < 0 := by omega
  have h2 : ¬ i > usizeMax := by omega
  simp [hv, Cell.toUsize, hi, this, h2, ofOutcome, hx]

theorem get_vec_out_of_range (hi : ic.value = .int i) (hv : vc.value = .vec v) (h0 : 0 ≤ i) (h1 : i ≤ usizeMax)
    (hx : v.toList[i.toNat]? = none) (hh : h ≤ s.length) :
    wordGet.runStack h (ic :: vc :: s) = .err (.outOfBounds i 0 v.length) := by
  unfold wordGet
  rw [runStack_pop_cons _ _ _ _ (by simp; omega), runStack_pop_cons _ _ _ _ hh]
  have : ¬ i < 0 := by omega
  have h2 : ¬ i > usizeMax := by omega
  simp [hv, Cell.toUsize, hi, this, h2, ofOutcome, hx, Int.toNat_of_nonneg h0]

theorem get_vec_negative (hi : ic.value = .int i) (hv : vc.value = .vec v) (h0 : i < 0) (hh : h ≤ s.length) :
    wordGet.runStack h (ic :: vc :: s) = .err (.typeErrorMsg ic "positive integer") := by
  unfold wordGet
  rw [runStack_pop_cons _ _ _ _ (by simp; omega), runStack_pop_cons _ _ _ _ hh]
  simp [hv, Cell.toUsize, hi, h0, ofOutcome]

theorem get_vec_overflow (hi : ic.value = .int i) (hv : vc.value = .vec v) (h1 : usizeMax < i) (hh : h ≤ s.length) :
    wordGet.runStack h (ic :: vc :: s) = .err .integerOverflow := by
  unfold wordGet
  rw [runStack_pop_cons _ _ _ _ (by simp; omega), runStack_pop_cons _ _ _ _ hh]
  have : ¬ i < 0 := by unfold usizeMax at h1; omega
  simp [hv, Cell.toUsize, hi, this, h1, ofOutcome]

/-- `slice` of a vector is Python's `l[a:b]` for EVERY pair of integers (no index is an error) -/
theorem slice_vec_spec (ac bc : Cell) (a b : Int) (ha : ac.value = .int a) (hb : bc.value = .int b)
    (hv : vc.value = .vec v) (hlen : (v.toList.length : Int) ≤ isizeMax) (hh : h ≤ s.length) :
    wordSlice.runStack h (bc :: ac :: vc :: s) = .ok (.vec (CellList.ofList (pySlice v.toList a b)) :: s) := by
  unfold wordSlice
  rw [runStack_pop_cons _ _ _ _ (by simp; omega)]
  simp only [Cell.toXint, hb, ofOutcome]
  rw [runStack_pop_cons _ _ _ _ (by simp; omega)]
  simp only [Cell.toXint, ha, ofOutcome]
  rw [runStack_pop_cons _ _ _ _ hh]
  simp [hv, sliceList_eq_pySlice _ _ _ hlen]

/-- `slice` of a string counts characters, not bytes -/
theorem slice_str_spec (ac bc sc : Cell) (cs : List Char) (a b : Int) (ha : ac.value = .int a) (hb : bc.value = .int b)
    (hv : sc.value = .str cs) (hlen : (cs.length : Int) ≤ isizeMax) (hh : h ≤ s.length) :
    wordSlice.runStack h (bc :: ac :: sc :: s) = .ok (.str (pySlice cs a b) :: s) := by
  unfold wordSlice
  rw [runStack_pop_cons _ _ _ _ (by simp; omega)]
  simp only [Cell.toXint, hb, ofOutcome]
  rw [runStack_pop_cons _ _ _ _ (by simp; omega)]
  simp only [Cell.toXint, ha, ofOutcome]
  rw [runStack_pop_cons _ _ _ _ hh]
  simp [hv, sliceList_eq_pySlice _ _ _ hlen]

/-- what `l[a:b]` contains: the elements at positions `norm a ≤ p < norm b`, in order -/
theorem slice_elements (l : List Cell) (a b : Int) (j : Nat) :
    (pySlice l a b)[j]? = if pyNorm l.length a + j < pyNorm l.length b then l[pyNorm l.length a + j]? else none :=
  pySlice_getElem? l a b j

theorem reverse_spec (hv : vc.value = .vec v) (hh : h ≤ s.length) :
    wordReverse.runStack h (vc :: s) = .ok (.vec (CellList.ofList v.toList.reverse) :: s) := by
  unfold wordReverse
  rw [runStack_pop_cons _ _ _ _ hh]
  simp [Cell.toVec, hv, ofOutcome]

theorem reverse_elements (l : List Cell) (j : Nat) (hj : j < l.length) :
    l.reverse[j]? = l[l.length - 1 - j]? := List.getElem?_reverse hj

/-- `push` ( x vec -- vec' ) appends at the end -/
theorem push_spec (x : Cell) (hv : vc.value = .vec v) (hh : h ≤ s.length) :
    wordPush.runStack h (vc :: x :: s) = .ok (.vec (CellList.ofList (v.toList ++ [x])) :: s) := by
  unfold wordPush
  rw [runStack_pop_cons _ _ _ _ (by simp; omega)]
  simp only [Cell.toVec, hv, ofOutcome]
  rw [runStack_pop_cons _ _ _ _ hh]
  simp

/-- `length`: elements of a vector, UTF-8 **bytes** of a string, bits of a bit-string -/
theorem length_vec (hv : vc.value = .vec v) (hh : h ≤ s.length) :
    wordLength.runStack h (vc :: s) = .ok (.int v.length :: s) := by
  unfold wordLength natCell; rw [runStack_pop_cons _ _ _ _ hh]; simp [hv]

theorem length_str (sc : Cell) (cs : List Char) (hv : sc.value = .str cs) (hh : h ≤ s.length) :
    wordLength.runStack h (sc :: s) = .ok (.int (utf8Len cs) :: s) := by
  unfold wordLength natCell; rw [runStack_pop_cons _ _ _ _ hh]; simp [hv]

theorem length_bitstr (bc : Cell) (bs : List Bool) (hv : bc.value = .bitstr bs) (hh : h ≤ s.length) :
    wordLength.runStack h (bc :: s) = .ok (.int bs.length :: s) := by
  unfold wordLength natCell; rw [runStack_pop_cons _ _ _ _ hh]; simp [hv]

/-- `unbox` pushes the elements, first element deepest -/
theorem unbox_spec (hv : vc.value = .vec v) (hh : h ≤ s.length) :
    wordUnbox.runStack h (vc :: s) = .ok (v.toList.reverse ++ s) := by
  unfold wordUnbox
  rw [runStack_pop_cons _ _ _ _ hh]
  simp [Cell.toVec, hv, ofOutcome, runStack_pushAll]

/-- `n collect` gathers the `n` topmost cells (deepest first) — and nothing below them -/
theorem collect_spec (xs : List Cell) (nc : Cell) (hn : nc.value = .int xs.length) (hu : (xs.length : Int) ≤ usizeMax)
    (hh : h ≤ s.length) :
    wordCollect.runStack h (nc :: (xs.reverse ++ s)) = .ok (.vec (CellList.ofList xs) :: s) := by
  unfold wordCollect
  rw [runStack_pop_cons _ _ _ _ (by simp; omega)]
  have h0 : ¬ ((xs.length : Int) < 0) := by omega
  have h1 : ¬ ((xs.length : Int) > usizeMax) := by omega
  simp only [Cell.toUsize, hn, h0, h1, if_false, ofOutcome, Int.toNat_natCast, runStack]
  have hd : ¬ xs.length > (xs.reverse ++ s).length - h := by simp; omega
  simp only [hd, if_false, runStack]
  have : (xs.reverse ++ s).reverse.drop ((xs.reverse ++ s).length - xs.length) = xs := by
    simp [List.reverse_append]
  rw [this]
  have := runStack_popN xs.reverse (.push (.vec (CellList.ofList xs)) .done) h s hh
  simp only [List.length_reverse] at this
  rw [this]; simp

theorem collect_underflow (nc : Cell) (n : Nat) (hn : nc.value = .int n) (hu : (n : Int) ≤ usizeMax)
    (hd : n > s.length - h) (hh : h ≤ s.length) :
    wordCollect.runStack h (nc :: s) = .err .stackUnderflow := by
  unfold wordCollect
  rw [runStack_pop_cons _ _ _ _ hh]
  have h0 : ¬ ((n : Int) < 0) := by omega
  have h1 : ¬ ((n : Int) > usizeMax) := by omega
  simp [Cell.toUsize, hn, h0, h1, ofOutcome, runStack, hd]

/-- `unbox` followed by `length collect` gives the vector back and leaves the rest of the stack alone -/
theorem collect_unbox (hv : vc.value = .vec v) (hu : (v.length : Int) ≤ usizeMax) (hh : h ≤ s.length) :
    (wordUnbox.runStack h (vc :: s)).bind (fun st => wordCollect.runStack h (.int v.length :: st))
      = .ok (.vec v :: s) := by
  rw [unbox_spec s h v vc hv hh]
  simp only [Outcome.bind]
  have := collect_spec s h v.toList (.int v.length) (by simp [Cell.value, CellList.length]) (by simpa [CellList.length] using hu) hh
  rw [this]; simp

/-- `concat` / `join` on a vector of strings are concatenation / `intercalate` -/
theorem concat_join_spec (ss : List (List Char)) (sep : List Char) (sc : Cell) (hsep : sc.value = .str sep)
    (hh : h ≤ s.length) :
    wordConcat.runStack h (.vec (strCells ss) :: s) = .ok (.str ss.flatten :: s) ∧
    wordJoin.runStack h (sc :: .vec (strCells ss) :: s) = .ok (.str (sep.intercalate ss) :: s) := by
  constructor
  · unfold wordConcat
    rw [runStack_pop_cons _ _ _ _ hh]
    simp [Cell.toVec, Cell.value, ofOutcome, joinCells_strs, List.intercalate, flatten_intersperse_nil]
  · unfold wordJoin
    rw [runStack_pop_cons _ _ _ _ (by simp; omega)]
    simp only [Cell.toStr, hsep, ofOutcome]
    rw [runStack_pop_cons _ _ _ _ hh]
    simp [Cell.toVec, Cell.value, ofOutcome, joinCells_strs]

theorem sort_word (hv : vc.value = .vec v) (hh : h ≤ s.length) :
    wordSort.runStack h (vc :: s) = .ok (.vec (CellList.ofList (sortL v.toList)) :: s) := by
  unfold wordSort
  rw [runStack_pop_cons _ _ _ _ hh]
  simp [Cell.toVec, hv, ofOutcome]

/- full: for pairwise comparable elements of any of the three classes (non-NaN reals included) -/
/-- `sort` of all-int or all-string elements (tags allowed) is an ascending permutation of the input;
    the permutation part holds for every input -/
theorem sort_sorted_perm_partial (l : List Cell) (hg : keysComparable l = true) :
    Ascending (sortL l) ∧ (sortL l).Perm l := by
  obtain ⟨P, L, hP⟩ := keysComparable_elim hg
  exact ⟨sortL_ascending L l hP, sortL_perm l⟩

theorem sort_perm (l : List Cell) : (sortL l).Perm l := sortL_perm l

end seq

/-! ### non-vacuity -/

example : wordCollect.runStack 0 [.int 2, .int 20, .int 10, .nil] = .ok [.vec (.cons (.int 10) (.cons (.int 20) .nil)), .nil] := by decide
example : wordCollect.runStack 0 [.int 5, .int 2, .int 1] = .err .stackUnderflow := by decide
example : wordCollect.runStack 1 [.int 2, .int 2, .int 1] = .err .stackUnderflow := by decide

example : KeysComparable (.cons (.int 1) (.str ['x']) (.cons (.tagged (.int 3) .nil) .nil .nil)) [.int 2, .int 3] := by decide
example : KeysComparable (.cons (.str ['a']) (.int 1) .nil) [.str ['b']] := by decide
example : ¬ KeysComparable (.cons (.str ['a']) (.int 1) .nil) [.int 5] := by decide
example : SortedMap (.cons (.int 1) .nil (.cons (.int 3) .nil .nil)) := by
  simp [SortedMap, SortedKeys, PairList.toList]; decide
example : (PairList.nil.insert (.int 3) (.str ['c'])).insert (.int 1) .nil
    = .cons (.int 1) .nil (.cons (.int 3) (.str ['c']) .nil) := by decide
example : pyIndex 3 (-1) = some 2 ∧ pyIndex 3 3 = none ∧ pyIndex 3 (-4) = none ∧ pyIndex 0 0 = none := by decide
example : pySlice [1, 2, 3, 4] (-3) (2^64) = [2, 3, 4] ∧ pySlice [1, 2, 3, 4] (-(2^127)) (-1) = [1, 2, 3] ∧ pySlice [1, 2, 3] 2 1 = [] := by decide
example : wordNth.runStack 0 [.int (-(2^63) - 1), .vec (.cons (.int 7) .nil)] = .err .integerOverflow := by decide
example : wordNth.runStack 0 [.int (-(2^63)), .vec (.cons (.int 7) .nil)] = .err (.outOfBounds (-(2^63)) 0 1) := by decide
example : wordSlice.runStack 1 [.int (2^127 - 1), .int (-(2^127)), .str ['a', 'é'], .nil] = .ok [.str ['a', 'é'], .nil] := by decide
example : keysComparable [.int 3, .tagged (.int 1) .nil, .int 2] = true := by decide
example : sortL [.int 3, .tagged (.int 1) .nil, .int 2] = [.tagged (.int 1) .nil, .int 2, .int 3] := by decide
example : literalPairs [.int 1, .str ['a'], .int 2, .int 5] = [(.str ['a'], .int 1), (.int 5, .int 2)] := rfl

end Xeh.C12
