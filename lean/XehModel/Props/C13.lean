/-
C13 — tags never change what a value does.

Property theorems only (helpers: Proofs/TagStrip.lean, TagBlind.lean, TagFresh.lean).

* `strip : Cell → Cell` (Model/Tags.lean) removes every tag at every depth.
* `tag_blind_*`: for every word of arith.rs and every collection / type-predicate word except the
  printing words `concat join` (which honour the `#fmt` tag) and the five tag words, running the word on
  a stack and on the stripped stack gives the same outcome up to tags: both succeed or both fail, a
  failure is the same error variant with the same payload up to tags, and the result stacks are equal
  after stripping — which is stronger than `equal?` of the results (`equal?` ignores tags; the two differ
  only on NaN / host objects, which are not `equal?` to themselves). Hypothesis `StackWF`: tags do not
  nest directly (`with_tags` stores `value()`), true of every value the implementation can build.
  Stack words (`dup drop swap rot over depth`), `I J K`, `equal? assert assert-eq` live in
  Model/Words.lean and are not covered here.
* `fresh_untagged`: a computing word pushes a result without a tag. Exceptions, by design of the code
  (they return an operand / a stored element as it is): `>real` and `>int` when no conversion is needed,
  `get nth unbox`, and the stack words.
* `tags_map_laws_*`: the tag words behave as a map attached to the value. A tag map is an `Xmap`, so
  `get-tag` after `insert-tag` is subject to the C12 finding; those two laws are `_partial` under the same
  decidable guard `KeysComparable` (all tag keys and the probe are ints, or all are strings).
-/
import XehModel.Proofs.TagBlind
import XehModel.Proofs.TagFresh
import XehModel.Proofs.CollGuard

set_option linter.unusedSimpArgs false
set_option linter.unusedVariables false

namespace Xeh.C13
open Xeh Prog Coll

/-! ## tag_blind -/

theorem tag_blind_arith : ∀ e ∈ arithTable, Blind e.2 := by
  unfold arithTable
  simp only [List.forall_mem_cons]
  exact ⟨blind_arithOpsReal _ _, blind_arithOpsReal _ _, blind_arithOpsReal _ _, blind_wordDiv, blind_wordRem,
    blind_wordNeg, blind_wordAbs,
    blind_wordCmp _, blind_wordCmp _, blind_wordCmp _, blind_wordCmp _, blind_wordCmp _, blind_wordCmp _,
    blind_wordLogic _, blind_wordLogic _, blind_wordLogic _, blind_wordNot,
    blind_arithOpsInt _, blind_arithOpsInt _, blind_arithOpsInt _, blind_wordBnot,
    blind_arithOpsInt _, blind_arithOpsInt _, blind_wordRound, blind_arithOpsReal _ _, blind_arithOpsReal _ _,
    blind_wordIntoReal, blind_wordIntoInt, blind_wordNumTest _ _, blind_wordNumTest _ _, blind_wordNumTest _ _,
    blind_wordPopcnt, fun e he => by simp at he⟩

/-- the printing words that honour the formatting tag -/
def fmtWords : List String := ["concat", "join"]

theorem tag_blind_coll : ∀ e ∈ collTable, e.1 ∉ fmtWords → Blind e.2 := by
  unfold collTable fmtWords
  simp only [List.forall_mem_cons]
  exact ⟨fun _ => blind_wordInsert, fun _ => blind_wordRemove, fun _ => blind_wordGet, fun _ => blind_wordLength,
    fun _ => blind_wordNth, fun _ => blind_wordSlice, fun h => absurd (by simp) h, fun h => absurd (by simp) h,
    fun _ => blind_wordSort, fun _ => blind_wordReverse, fun _ => blind_wordPush, fun _ => blind_wordCollect,
    fun _ => blind_wordUnbox,
    fun _ => blind_wordIs _ isNil_strip, fun _ => blind_wordIs _ isBool_strip, fun _ => blind_wordIs _ isInt_strip,
    fun _ => blind_wordIs _ isReal_strip, fun _ => blind_wordIs _ isStr_strip, fun _ => blind_wordIs _ isBitstr_strip,
    fun _ => blind_wordIs _ isVec_strip, fun e he => by simp at he⟩

/-- the statement of the property: two stacks that differ only in tags (any tagging of any argument at
    any depth, tags on tags included) give outcomes that differ only in tags -/
theorem tag_blind (p : Prog) (hp : Blind p) (s s' : List Cell) (hs : StackWF s) (hs' : StackWF s')
    (heq : s.map Cell.strip = s'.map Cell.strip) :
    stripOutcome (p.runStack 0 s) = stripOutcome (p.runStack 0 s') := by
  rw [hp s hs, hp s' hs', heq]

/-- in particular: success and failure agree -/
theorem tag_blind_same_success (p : Prog) (hp : Blind p) (s : List Cell) (hs : StackWF s) :
    (∃ r, p.runStack 0 s = .ok r) ↔ (∃ r, p.runStack 0 (s.map Cell.strip) = .ok r) := by
  have h := hp s hs
  cases h1 : p.runStack 0 s <;> cases h2 : p.runStack 0 (s.map Cell.strip) <;> rw [h1, h2] at h <;>
    simp [stripOutcome] at h ⊢

/-- the words of both tables really are what the driver looks up -/
theorem collWord_mem (w : String) (p : Prog) (h : collWord w = some p) : (w, p) ∈ collTable := by
  unfold collWord at h
  generalize collTable = t at h ⊢
  induction t with
  | nil => simp at h
  | cons x xs ih =>
    obtain ⟨k, v⟩ := x
    rw [List.lookup_cons] at h
    split at h
    · rename_i heq; simp at h heq; simp [heq, h]
    · exact List.mem_cons_of_mem _ (ih h)

/-! ## fresh_untagged -/

/-- the words that may hand back an operand or a stored element unchanged -/
def passThroughWords : List String := [">real", ">int", "get", "nth", "unbox"]

theorem fresh_untagged_arith : ∀ e ∈ arithTable, e.1 ∉ passThroughWords →
    ∀ (h : Nat) (s r : List Cell), e.2.runStack h s = .ok r → ∃ c rest, r = c :: rest ∧ c.tags = none := by
  unfold arithTable passThroughWords
  simp only [List.forall_mem_cons]
  exact ⟨fun _ => (fresh_arithOpsReal _ _).sound, fun _ => (fresh_arithOpsReal _ _).sound, fun _ => (fresh_arithOpsReal _ _).sound,
    fun _ => fresh_wordDiv.sound, fun _ => fresh_wordRem.sound, fun _ => fresh_wordNeg.sound, fun _ => fresh_wordAbs.sound,
    fun _ => (fresh_wordCmp _).sound, fun _ => (fresh_wordCmp _).sound, fun _ => (fresh_wordCmp _).sound,
    fun _ => (fresh_wordCmp _).sound, fun _ => (fresh_wordCmp _).sound, fun _ => (fresh_wordCmp _).sound,
    fun _ => (fresh_wordLogic _).sound, fun _ => (fresh_wordLogic _).sound, fun _ => (fresh_wordLogic _).sound,
    fun _ => fresh_wordNot.sound,
    fun _ => (fresh_arithOpsInt _).sound, fun _ => (fresh_arithOpsInt _).sound, fun _ => (fresh_arithOpsInt _).sound,
    fun _ => fresh_wordBnot.sound, fun _ => (fresh_arithOpsInt _).sound, fun _ => (fresh_arithOpsInt _).sound,
    fun _ => fresh_wordRound.sound, fun _ => (fresh_arithOpsReal _ _).sound, fun _ => (fresh_arithOpsReal _ _).sound,
    fun h => absurd (by simp) h, fun h => absurd (by simp) h,
    fun _ => (fresh_wordNumTest _ _).sound, fun _ => (fresh_wordNumTest _ _).sound, fun _ => (fresh_wordNumTest _ _).sound,
    fun _ => fresh_wordPopcnt.sound, fun e he => by simp at he⟩

theorem fresh_untagged_coll : ∀ e ∈ collTable, e.1 ∉ passThroughWords →
    ∀ (h : Nat) (s r : List Cell), e.2.runStack h s = .ok r → ∃ c rest, r = c :: rest ∧ c.tags = none := by
  unfold collTable passThroughWords
  simp only [List.forall_mem_cons]
  exact ⟨fun _ => fresh_wordInsert.sound, fun _ => fresh_wordRemove.sound, fun h => absurd (by simp) h,
    fun _ => fresh_wordLength.sound, fun h => absurd (by simp) h, fun _ => fresh_wordSlice.sound,
    fun _ => fresh_wordConcat.sound, fun _ => fresh_wordJoin.sound, fun _ => fresh_wordSort.sound,
    fun _ => fresh_wordReverse.sound, fun _ => fresh_wordPush.sound, fun _ => fresh_wordCollect.sound,
    fun h => absurd (by simp) h,
    fun _ => (fresh_wordIs _).sound, fun _ => (fresh_wordIs _).sound, fun _ => (fresh_wordIs _).sound,
    fun _ => (fresh_wordIs _).sound, fun _ => (fresh_wordIs _).sound, fun _ => (fresh_wordIs _).sound,
    fun _ => (fresh_wordIs _).sound, fun e he => by simp at he⟩

/-- the exceptions are real: `>int` of a tagged int and `nth` of a tagged element return them as they are -/
theorem fresh_untagged_exceptions :
    wordIntoInt.runStack 0 [.tagged (.int 5) .nil] = .ok [.tagged (.int 5) .nil] ∧
    wordNth.runStack 0 [.int 0, .vec (.cons (.tagged (.int 5) .nil) .nil)] = .ok [.tagged (.int 5) .nil] := by
  decide

/-! ## tags_map_laws -/

variable (c k x : Cell)

/-- attaching, replacing or removing tags never alters the value -/
theorem value_with_tags (t : PairList) : (c.withTags t).value = c.value := rfl
theorem value_insert_tag : (c.insertTag k x).value = c.value := by
  unfold Cell.insertTag; cases c.tags <;> rfl
theorem value_remove_tag : (c.removeTag k).value = c.value := by
  unfold Cell.removeTag; cases c.tags <;> rfl

/-- `with-tags` attaches exactly the given map, `tags` reads it back; an untagged value has no tags -/
theorem tags_with_tags (t : PairList) : (c.withTags t).tags = some t := rfl

theorem tags_word (s : List Cell) (h : Nat) (t : PairList) (hh : h ≤ s.length) :
    wordTags.runStack h (c.withTags t :: s) = .ok (.map t :: s) := by
  unfold wordTags; rw [runStack_pop_cons _ _ _ _ hh]; simp [Cell.withTags, Cell.tags]

theorem tags_word_untagged (s : List Cell) (h : Nat) (hc : c.tags = none) (hh : h ≤ s.length) :
    wordTags.runStack h (c :: s) = .ok (.nil :: s) := by
  unfold wordTags; rw [runStack_pop_cons _ _ _ _ hh]; simp [hc]

theorem with_tags_word (s : List Cell) (h : Nat) (tc : Cell) (t : PairList) (ht : tc.value = .map t) (hh : h ≤ s.length) :
    wordWithTags.runStack h (tc :: c :: s) = .ok (c.withTags t :: s) := by
  unfold wordWithTags
  rw [runStack_pop_cons _ _ _ _ (by simp; omega)]
  simp only [Cell.toMap, ht, ofOutcome]
  rw [runStack_pop_cons _ _ _ _ hh]; simp

/-- the tag words are the map operations on the attached map -/
theorem insert_tag_word (s : List Cell) (h : Nat) (hh : h ≤ s.length) :
    wordInsertTag.runStack h (k :: x :: c :: s) = .ok (c.insertTag k x :: s) := by
  unfold wordInsertTag; run_simp
theorem remove_tag_word (s : List Cell) (h : Nat) (hh : h ≤ s.length) :
    wordRemoveTag.runStack h (k :: c :: s) = .ok (c.removeTag k :: s) := by
  unfold wordRemoveTag; run_simp
theorem get_tag_word (s : List Cell) (h : Nat) (hh : h ≤ s.length) :
    wordGetTag.runStack h (k :: c :: s) = .ok ((c.getTag k).getD .nil :: s) := by
  unfold wordGetTag; run_simp

/-- **the formatting words** (`^hex ^dec ^oct ^bin` = `<fmt-base>` with the base pushed by the compiler; `fmt/prefix`
    `fmt/tags` `fmt/upcase` = one bit each) leave the value on top as it is or hand it back with ONE tag inserted,
    `#fmt`; the value under the tags is the same, and by `insert_tag_word`'s laws every other tag stays (seeded change
    C13/13 built a fresh tag map instead) -/
theorem fmt_base_word (n : Nat) (hn : (Cell.int (n : Nat)).toUsize = .ok n) (s : List Cell) (h : Nat) (hh : h ≤ s.length) :
    wordFmtBase.runStack h (.int (n : Nat) :: c :: s) = .ok (c :: s) ∨
    ∃ fl : Nat, wordFmtBase.runStack h (.int (n : Nat) :: c :: s) = .ok (c.insertTag fmtKey (.int (fl : Nat)) :: s) := by
  unfold wordFmtBase putFmt
  rw [runStack_pop_cons _ _ _ _ (by simp; omega)]
  simp only [hn, ofOutcome]
  rw [runStack_top_cons _ _ _ _ hh]
  split
  · right
    refine ⟨fmtRaw c - fmtRaw c % 256 + n % 256, ?_⟩
    rw [runStack_pop_cons _ _ _ _ hh]; simp [runStack]
  · left; simp [runStack]

theorem fmt_bit_word (k : Nat) (t : Bool) (s : List Cell) (h : Nat) (hh : h ≤ s.length) :
    (wordFmtBit k).runStack h (.flag t :: c :: s) = .ok (c :: s) ∨
    ∃ fl : Nat, (wordFmtBit k).runStack h (.flag t :: c :: s) = .ok (c.insertTag fmtKey (.int (fl : Nat)) :: s) := by
  unfold wordFmtBit putFmt
  rw [runStack_pop_cons _ _ _ _ (by simp; omega)]
  simp only [Cell.toBool, Cell.value, ofOutcome]
  rw [runStack_top_cons _ _ _ _ hh]
  split
  · right
    refine ⟨setFlagBit (fmtRaw c) k t, ?_⟩
    rw [runStack_pop_cons _ _ _ _ hh]; simp [runStack]
  · left; simp [runStack]

/-- … and the value under the tags is untouched -/
theorem fmt_words_keep_the_value (fl : Nat) : (c.insertTag fmtKey (.int (fl : Nat))).value = c.value := value_insert_tag _ _ _

/-- the tag map of a cell (empty for an untagged one) -/
def tagMap (c : Cell) : PairList := c.tags.getD .nil

/- full: theorem get_insert_tag : (c.insertTag k x).getTag k = some x   (refuted for mixed key types, C12) -/
theorem tags_map_laws_get_insert_partial (hg : KeysComparable (tagMap c) [k]) :
    (c.insertTag k x).getTag k = some x := by
  obtain ⟨P, L, _, hp⟩ := hg.elim
  have hk := hp k (by simp)
  unfold Cell.insertTag Cell.getTag
  cases hc : c.tags <;>
    simp only [Cell.withTags, Cell.tags, PairList.insert, PairList.lookup, PairList.toList_ofList] <;>
    exact lookupL_insertL_same L x hk _

theorem tags_map_laws_get_insert_other_partial (k' : Cell) (hg : KeysComparable (tagMap c) [k, k'])
    (hne : Cell.beq k' k = false) : (c.insertTag k x).getTag k' = c.getTag k' := by
  obtain ⟨P, L, hin, hp⟩ := hg.elim
  have hk := hp k (by simp); have hk' := hp k' (by simp)
  have hcmp : Cell.cmp k' k ≠ .eq := by
    intro he; rw [(L.eq_iff_beq _ _ hk' hk).mp he] at hne; cases hne
  unfold Cell.insertTag Cell.getTag
  unfold tagMap at hin
  cases hc : c.tags <;> rw [hc] at hin <;> simp only [Option.getD] at hin <;>
    simp only [Cell.withTags, Cell.tags, PairList.insert, PairList.lookup, PairList.toList_ofList] <;>
    rw [lookupL_insertL_other L x hk hk' hcmp _ hin]
  simp [PairList.toList, lookupL]

theorem tags_map_laws_get_remove_partial (hs : SortedKeys (tagMap c).toList) (hg : KeysComparable (tagMap c) [k]) :
    (c.removeTag k).getTag k = none := by
  obtain ⟨P, L, hin, hp⟩ := hg.elim
  have hk := hp k (by simp)
  unfold Cell.removeTag Cell.getTag
  unfold tagMap at hin hs
  cases hc : c.tags <;> rw [hc] at hin hs <;>
    simp only [Cell.withTags, Cell.tags, PairList.erase, PairList.lookup, PairList.toList_ofList, Option.getD] at *
  · simp [PairList.toList, lookupL]
  · exact lookupL_eraseL_same L hk _ hin hs

/-! ### non-vacuity -/

example : StackWF [.tagged (.int 1) (.cons (.str ['k']) (.tagged (.int 2) .nil) .nil), .vec (.cons (.tagged .nil .nil) .nil)] := by
  intro c hc; simp at hc; rcases hc with rfl | rfl <;> simp [Cell.TagWF, CellList.TagWF, PairList.TagWF, Cell.tags]
example : ("sort", wordSort) ∈ collTable ∧ "sort" ∉ fmtWords := by simp [collTable, fmtWords]
example : wordAdd.runStack 0 [.tagged (.int 2) (.cons (.str ['#', 'f', 'm', 't']) (.int 16) .nil), .int 1] = .ok [.int 3] := by decide
example : KeysComparable (tagMap (.tagged (.int 1) (.cons (.str ['a']) .nil .nil))) [.str ['#', 'f', 'm', 't']] := by decide
example : (Cell.int 7).insertTag (.str ['k']) (.flag true) = .tagged (.int 7) (.cons (.str ['k']) (.flag true) .nil) := by decide

/-! ### equality itself — what `equal?`, `assert-eq`, map lookups and the `case … of` instruction compare with -/

/-- `PartialEq for Cell` looks at the values: attaching a tag map to either operand, or replacing the one it carries,
    changes no comparison (at the top level by this theorem, inside vectors and maps because the comparison of their
    elements is this same function) -/
theorem equality_ignores_tags (a b : Cell) (ta tb : PairList) :
    Cell.beq (a.withTags ta) b = Cell.beq a b ∧ Cell.beq a (b.withTags tb) = Cell.beq a b ∧
    Cell.beq (a.withTags ta) (b.withTags tb) = Cell.beq a b := by
  have left : ∀ (x y : Cell) (t : PairList), Cell.beq (x.withTags t) y = Cell.beq x y := by
    intro x y t
    cases x <;> simp [Cell.withTags, Cell.value, Cell.beq]
  have right : ∀ (x y : Cell) (t : PairList), Cell.beq x (y.withTags t) = Cell.beq x y := by
    intro x y t
    have hv : ∀ (v : Cell), Cell.beqV v (y.withTags t) = Cell.beqV v y := by
      intro v
      cases y <;> simp [Cell.withTags, Cell.value, Cell.beqV]
    cases x <;> simp [Cell.beq, hv]
  exact ⟨left a b ta, right a b tb, by rw [left, right]⟩

/-- the `case … of` instruction (`Opcode::CaseOf`) takes its branch by that comparison alone: the selector and the
    candidate are popped / looked at as they are and handed to `Cell.beq`, so whether either carries tags cannot change
    which arm is taken (a discriminant test in front of the comparison — seeded change C13/12 — is what this rules out
    in the model; the correspondence holds the code to the model) -/
theorem case_of_compares_values (sel cand : Cell) (ts tc : PairList) :
    Cell.beq (cand.withTags tc) (sel.withTags ts) = Cell.beq cand sel :=
  (equality_ignores_tags cand sel tc ts).2.2

/-- `|02| open-bitstr u8` (a read result carries its `len` tag) against the literal `2` -/
example : Cell.beq ((Cell.int 2).withTags (.cons (.str ['l','e','n']) (.int 8) .nil)) (.int 2) = true := by
  simp [Cell.beq, Cell.beqV, Cell.beqVV, Cell.withTags, Cell.value]

end Xeh.C13
