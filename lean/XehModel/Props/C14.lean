/-
C14 — resource limits are hard bounds and hitting one is recoverable.

Model: Model/VM.lean. `meterIncrease` is the first thing `step` (= fetch_and_run) does; `pushData`
checks the stack limit before every push; `allocHeap` checks the heap limit before every
allocation. The theorems hold for every word table `np` (native words are arbitrary programs over
the interpreter's primitives), every opcode, every machine satisfying the structural invariant `WF`,
and every number of steps — including steps that fail midway.

Whole sources (section Sources): `source_counts_against_the_limit`, `history_counts_against_the_limit` — over any
history of sources on the session model (Model/Session.lean), built, rejected and unwound, or failed at run time, with
everything their meta blocks execute while they are being built, the meter never goes down and never passes the limit;
these need no well-formedness hypothesis (Proofs/VMMeter.lean, SessionMeter.lean).
`source_respects_stack_and_heap_limits`, `history_respects_stack_and_heap_limits` — the same for the other two limits:
with a stack limit S and a heap limit H, after any history of sources the data stack holds at most `max S (before)`
cells and the heap at most `max H (before)`, and the limits themselves are untouched — compiling `var` included (the
only thing that allocates: Proofs/CompileHeap.lean), unwinding included; again for every session, no well-formedness
assumed (Proofs/VMBound.lean, generated from VMMeter.lean; Proofs/SessionBound.lean).

The set_*_limit calls themselves are `{ m with insnLimit := …, meter := 0 }` etc.; variables are
allocated while a source is built (`allocHeap`), never by a running instruction.
-/
import XehModel.Proofs.SessionMeter
import XehModel.Proofs.SessionBound
import XehModel.Proofs.VMRev2
import XehModel.Props.C02
import XehModel.Proofs.CursorLimit

namespace Xeh.C14
open Xeh Xeh.Mach

variable (np : String → Option Prog)

/-! ### instruction limit -/

/-- the fetch that would exceed the limit fails before any state change -/
theorem insn_fail_atomic (m : Mach) (N : Nat) (hN : m.insnLimit = some N) (hm : m.meter ≥ N) :
    step np m = (.err (limitMsg "insn" N), m) := by
  simp [step, meterIncrease, hN, hm]

/-- **Instruction limit is a hard bound**: the meter never exceeds N, after any step of any program. -/
theorem meter_bound (m : Mach) (w : WF m) (N : Nat) (hN : m.insnLimit = some N) (hm : m.meter ≤ N) :
    (step np m).2.meter ≤ N := (step_frame np m w).2.1 N hN hm

/-- every successfully executed instruction advances the meter, so with the meter reset to 0 by
    `set_insn_limit(N)` at most N instructions ever execute -/
theorem insn_count_bound (n : Nat) (m m' : Mach) (w : WF m) (N : Nat) (hN : m.insnLimit = some N)
    (hm : m.meter ≤ N) (h : C02.stepN np n m = some m') : m.meter + n ≤ m'.meter ∧ m'.meter ≤ N := by
  induction n generalizing m with
  | zero => simp [C02.stepN] at h; subst h; exact ⟨by omega, hm⟩
  | succ n ih =>
    simp only [C02.stepN] at h
    split at h
    · rename_i m1 hs
      have f := step_frame np m w
      rw [hs] at f
      have := ih m1 f.2.2.2.2.2 (by rw [f.1.1]; exact hN) (f.2.1 N hN hm) h
      have hlt : m.meter < m1.meter := f.2.2.2.2.1 rfl
      omega
    · cases h

/-! ### stack limit -/

/-- **Stack limit is a hard bound**: no step of any program makes the data stack longer than
    max(S, its current length) — successful or failing. -/
theorem stack_bound (m : Mach) (w : WF m) (S : Nat) (hS : m.stackLimit = some S) :
    (step np m).2.ds.length ≤ max S m.ds.length := (step_frame np m w).2.2.1 S hS

/-- the push that would exceed the limit fails with an error and changes nothing -/
theorem push_fail_atomic (m : Mach) (c : Cell) (S : Nat) (hS : m.stackLimit = some S) (h : m.ds.length ≥ S) :
    m.pushData c = (.err (limitMsg "stack" S), m) := by
  simp [pushData, hS, h]

/-- over any run: the stack stays within max(S, initial depth), the meter within N -/
theorem run_bounds (fuel : Nat) (m : Mach) (w : WF m) (S N : Nat) (hS : m.stackLimit = some S)
    (hN : m.insnLimit = some N) (hm : m.meter ≤ N) (o : Outcome Unit) (m' : Mach)
    (h : Mach.run np fuel m = some (o, m')) :
    m'.ds.length ≤ max S m.ds.length ∧ m'.meter ≤ N ∧ m'.heap.length = m.heap.length := by
  induction fuel generalizing m with
  | zero =>
    simp only [Mach.run] at h
    split at h
    · cases h
    · cases h; exact ⟨by omega, hm, rfl⟩
  | succ fuel ih =>
    simp only [Mach.run] at h
    split at h
    · have f := step_frame np m w
      split at h
      · rename_i m1 hs
        rw [hs] at f
        have := ih m1 f.2.2.2.2.2 (by rw [f.1.2]; exact hS) (by rw [f.1.1]; exact hN) (f.2.1 N hN hm) h
        have b1 : m1.ds.length ≤ max S m.ds.length := f.2.2.1 S hS
        have b3 : m1.heap.length = m.heap.length := f.2.2.2.1
        exact ⟨by omega, this.2.1, by rw [this.2.2, b3]⟩
      · rename_i r hne
        injection h with h
        rw [h] at f
        exact ⟨f.2.2.1 S hS, f.2.1 N hN hm, f.2.2.2.1⟩
    · cases h; exact ⟨by omega, hm, rfl⟩

/-! ### heap limit -/

/-- no running instruction allocates: the heap keeps its size through every step -/
theorem heap_len_step (m : Mach) (w : WF m) : (step np m).2.heap.length = m.heap.length :=
  (step_frame np m w).2.2.2.1

/-- allocation (done while building `var`) respects the limit and fails atomically -/
theorem alloc_bound (m : Mach) (v : Cell) (H : Nat) (hH : m.heapLimit = some H) :
    (m.allocHeap v).2.heap.length ≤ max H m.heap.length ∧
    (m.heap.length ≥ H → (m.allocHeap v).2 = m ∧ ∃ e, (m.allocHeap v).1 = .err e) := by
  unfold allocHeap
  split
  · exact ⟨by show m.heap.length ≤ _; omega, fun _ => ⟨rfl, _, rfl⟩⟩
  · simp only [hH]
    split
    · exact ⟨by show m.heap.length ≤ _; omega, fun _ => ⟨rfl, _, rfl⟩⟩
    · rename_i hlt
      refine ⟨by simp only [List.length_append, List.length_cons, List.length_nil]; omega, fun h => absurd h hlt⟩

/-! ### recoverable -/

/-- A run stopped by the instruction limit stopped *before* the offending fetch with the machine
    untouched (`insn_fail_atomic`), so raising the limit resumes from exactly the machine that was
    interrupted: nothing was lost, nothing half-executed. -/
theorem resume_after_raise (m : Mach) (N : Nat) (hN : m.insnLimit = some N) (hm : m.meter ≥ N) :
    (step np m).2 = m := by
  rw [insn_fail_atomic np m N hN hm]

/-! ### non-vacuity -/

example : (step (fun _ => none) ({ code := [.loadI64 1, .jump (-1)], insnLimit := some 3, stackLimit := some 1 } : Mach)).1 = .ok () := by decide
/-- an endless, stack-flooding loop under N = 3, S = 1: the second push fails, the stack holds 1 cell -/
example : (Mach.run (fun _ => none) 10 ({ code := [.loadI64 1, .jump (-1)], insnLimit := some 3, stackLimit := some 1 } : Mach)).map
    (fun r => (r.1, r.2.ds.length, r.2.meter)) = some (.err (limitMsg "stack" 1), 1, 3) := by decide

/-! ### whole sources: what is executed while a source is being BUILT counts too, also when the source is rejected -/
section Sources
open Xeh.Session

/-- the session after a source, whatever became of it (built and run, rejected and unwound, failed at run time);
    `none` when the model has no answer (a word outside it, the fuel of the model's run) -/
def after : Sess.BRes → Option Sess
  | .done s => some s
  | .rejected _ s => some s
  | .failed _ s => some s
  | .panic _ s => some s
  | _ => none

/-- **one source under an instruction limit**: afterwards the limit is what it was, the meter has not gone down —
    in particular a rejected source does not get back what its meta blocks executed — and it has not passed the
    limit.  Every machine state, every source, every mode; no well-formedness hypothesis. -/
theorem source_counts_against_the_limit (fuel : Nat) (mode : Mode) (toks : List Compile.Tok) (s s' : Sess)
    (h : after (s.buildSource fuel mode toks) = some s') :
    s'.m.insnLimit = s.m.insnLimit ∧ s.m.meter ≤ s'.m.meter ∧
    ∀ N, s.m.insnLimit = some N → s.m.meter ≤ N → s'.m.meter ≤ N := by
  have b := buildSource_meter fuel mode toks s
  revert b h
  cases s.buildSource fuel mode toks with
  | done x => intro h b; cases h; exact ⟨b.limit, b.mono, b.bound⟩
  | rejected e x => intro h b; cases h; exact ⟨b.limit, b.mono, b.bound⟩
  | failed e x => intro h b; cases h; exact ⟨b.limit, b.mono, b.bound⟩
  | panic p x => intro h b; cases h; exact ⟨b.limit, b.mono, b.bound⟩
  | unsupported u => intro h; cases h
  | timeout => intro h; cases h

/-- a history of sources submitted one after the other to the same interpreter -/
def history (fuel : Nat) : List (Mode × List Compile.Tok) → Sess → Option Sess
  | [], s => some s
  | (mode, toks) :: rest, s =>
    match after (s.buildSource fuel mode toks) with
    | some s' => history fuel rest s'
    | none => none

/-- **any history of sources**: with the limit set to N and the meter at most N, the meter is at most N afterwards
    and never went down: at most N instructions execute after the limit is set, however the work is spread over
    sources that build, fail or are rejected -/
theorem history_counts_against_the_limit (fuel : Nat) (srcs : List (Mode × List Compile.Tok)) :
    ∀ (s s' : Sess), history fuel srcs s = some s' →
      s'.m.insnLimit = s.m.insnLimit ∧ s.m.meter ≤ s'.m.meter ∧
      ∀ N, s.m.insnLimit = some N → s.m.meter ≤ N → s'.m.meter ≤ N := by
  induction srcs with
  | nil => intro s s' h; cases h; exact ⟨rfl, Nat.le_refl _, fun _ _ h => h⟩
  | cons x rest ih =>
    intro s s' h
    obtain ⟨mode, toks⟩ := x
    simp only [history] at h
    split at h
    · rename_i s1 h1
      obtain ⟨a1, a2, a3⟩ := source_counts_against_the_limit fuel mode toks s s1 h1
      obtain ⟨b1, b2, b3⟩ := ih s1 s' h
      exact ⟨b1.trans a1, Nat.le_trans a2 b2, fun N hN hm => b3 N (a1 ▸ hN) (a3 N hN hm)⟩
    · cases h

/-- what a host does between the moment it sets the instruction limit and the moment it sets it again: sources, the
    OTHER two limits (sized to the input it is about to feed), recording switched on or off, a stopped program given up -/
inductive HostOp
  | source (mode : Mode) (toks : List Compile.Tok)
  | stackLimit (l : Option Nat)
  | heapLimit (l : Option Nat)
  | recording (on : Bool)
  | abortRun

def hostStep (fuel : Nat) : HostOp → Sess → Option Sess
  | .source mode toks, s => after (s.buildSource fuel mode toks)
  | .stackLimit l, s => some { s with m := s.m.setStackLimit l }
  | .heapLimit l, s => some { s with m := s.m.setHeapLimit l }
  | .recording on, s => some { s with m := s.m.setRecording on }
  | .abortRun, s => some s.abortRun

def hostHistory (fuel : Nat) : List HostOp → Sess → Option Sess
  | [], s => some s
  | op :: rest, s =>
    match hostStep fuel op s with
    | some s' => hostHistory fuel rest s'
    | none => none

/-- one host operation: the instruction limit is what it was, the meter has not gone down and has not passed it -/
theorem host_step_counts_against_the_limit (fuel : Nat) (op : HostOp) (s s' : Sess) (h : hostStep fuel op s = some s') :
    s'.m.insnLimit = s.m.insnLimit ∧ s.m.meter ≤ s'.m.meter ∧
    ∀ N, s.m.insnLimit = some N → s.m.meter ≤ N → s'.m.meter ≤ N := by
  cases op with
  | source mode toks => exact source_counts_against_the_limit fuel mode toks s s' h
  | stackLimit l => cases h; exact ⟨rfl, Nat.le_refl _, fun _ _ h => h⟩
  | heapLimit l => cases h; exact ⟨rfl, Nat.le_refl _, fun _ _ h => h⟩
  | recording on => cases h; exact ⟨rfl, Nat.le_refl _, fun _ _ h => h⟩
  | abortRun => cases h; exact ⟨rfl, Nat.le_refl _, fun _ _ h => h⟩

/-- **any history of host operations that does not set the instruction limit again**: at most N instructions execute
    after the limit is set — adjusting the stack or heap limit, switching recording, giving a program up and feeding
    further sources (built, failed or rejected) gives nothing back -/
theorem host_history_counts_against_the_limit (fuel : Nat) (ops : List HostOp) :
    ∀ (s s' : Sess), hostHistory fuel ops s = some s' →
      s'.m.insnLimit = s.m.insnLimit ∧ s.m.meter ≤ s'.m.meter ∧
      ∀ N, s.m.insnLimit = some N → s.m.meter ≤ N → s'.m.meter ≤ N := by
  induction ops with
  | nil => intro s s' h; cases h; exact ⟨rfl, Nat.le_refl _, fun _ _ h => h⟩
  | cons op rest ih =>
    intro s s' h
    simp only [hostHistory] at h
    split at h
    · rename_i s1 h1
      obtain ⟨a1, a2, a3⟩ := host_step_counts_against_the_limit fuel op s s1 h1
      obtain ⟨b1, b2, b3⟩ := ih s1 s' h
      exact ⟨b1.trans a1, Nat.le_trans a2 b2, fun N hN hm => b3 N (a1 ▸ hN) (a3 N hN hm)⟩
    · cases h

/-- … and the count really starts at the moment the limit is set: `set_insn_limit N` followed by any such history leaves
    the meter — the number of instructions executed since — at most N -/
theorem at_most_N_after_the_limit_is_set (fuel : Nat) (ops : List HostOp) (N : Nat) (s s' : Sess)
    (h : hostHistory fuel ops { s with m := s.m.setInsnLimit (some N) } = some s') :
    s'.m.meter ≤ N ∧ s'.m.insnLimit = some N := by
  obtain ⟨a1, _, a3⟩ := host_history_counts_against_the_limit fuel ops _ s' h
  exact ⟨a3 N rfl (Nat.zero_le _), a1⟩

/-- non-vacuity: limit 10, a source of four instructions, the stack limit adjusted, recording switched on, the same
    source again, the heap limit adjusted, and a third time: the third one is refused at the limit (meter 10), whatever
    was configured in between -/
example :
    (hostHistory 100
      [.source .eval [.lit (.int 1), .lit (.int 2), .word "drop", .word "drop"], .stackLimit (some 50), .recording true,
       .source .eval [.lit (.int 1), .lit (.int 2), .word "drop", .word "drop"], .heapLimit (some 70), .abortRun,
       .source .eval [.lit (.int 1), .lit (.int 2), .word "drop", .word "drop"]]
      ({ m := ({ dict := [("drop", .native false "drop")] } : Mach).setInsnLimit (some 10) } : Sess)).map
      (fun s => (s.m.meter, s.m.insnLimit, s.m.stackLimit, s.m.heapLimit, s.m.log.isSome)) = some (10, some 10, some 50, some 70, true) := by decide +kernel

/-- `State::run` itself, any machine (no well-formedness needed for the meter) -/
theorem run_counts_against_the_limit (fuel : Nat) (m : Mach) (r : R Unit) (h : Mach.run np fuel m = some r) :
    r.2.insnLimit = m.insnLimit ∧ m.meter ≤ r.2.meter ∧ ∀ N, m.insnLimit = some N → m.meter ≤ N → r.2.meter ≤ N := by
  have b := Mach.run_mle np fuel m r h
  exact ⟨b.limit, b.mono, b.bound⟩

/-- **one source under a stack limit S and a heap limit H**: whatever becomes of it (built and run, rejected and
    unwound, failed at run time), with everything its meta blocks execute and every variable it declares: the limits
    are what they were, the data stack holds at most `max S (cells before)` cells and the variable heap at most
    `max H (cells before)`.  In particular an interpreter that starts within its limits stays within them.
    Every session, every source, every mode; no well-formedness hypothesis. -/
theorem source_respects_stack_and_heap_limits (fuel : Nat) (mode : Mode) (toks : List Compile.Tok) (s s' : Sess)
    (h : after (s.buildSource fuel mode toks) = some s') :
    s'.m.stackLimit = s.m.stackLimit ∧ s'.m.heapLimit = s.m.heapLimit ∧
    (∀ S, s.m.stackLimit = some S → s'.m.ds.length ≤ max S s.m.ds.length) ∧
    (∀ H, s.m.heapLimit = some H → s'.m.heap.length ≤ max H s.m.heap.length) := by
  have b := buildSource_bound fuel mode toks s
  revert b h
  cases s.buildSource fuel mode toks with
  | done x => intro h b; cases h; exact b
  | rejected e x => intro h b; cases h; exact b
  | failed e x => intro h b; cases h; exact b
  | panic p x => intro h b; cases h; exact b
  | unsupported u => intro h; cases h
  | timeout => intro h; cases h

/-- **any history of sources** -/
theorem history_respects_stack_and_heap_limits (fuel : Nat) (srcs : List (Mode × List Compile.Tok)) :
    ∀ (s s' : Sess), history fuel srcs s = some s' →
      s'.m.stackLimit = s.m.stackLimit ∧ s'.m.heapLimit = s.m.heapLimit ∧
      (∀ S, s.m.stackLimit = some S → s'.m.ds.length ≤ max S s.m.ds.length) ∧
      (∀ H, s.m.heapLimit = some H → s'.m.heap.length ≤ max H s.m.heap.length) := by
  induction srcs with
  | nil => intro s s' h; cases h; exact SB.refl _
  | cons x rest ih =>
    intro s s' h
    obtain ⟨mode, toks⟩ := x
    simp only [history] at h
    split at h
    · rename_i s1 h1
      have a : SB s.m s1.m := source_respects_stack_and_heap_limits fuel mode toks s s1 h1
      have b : SB s1.m s'.m := ih s1 s' h
      exact a.trans b
    · cases h

/-- non-vacuity, in the situation the property is about: limit 10; a source whose meta block executes four
    instructions and which is then rejected (unknown word `foo`): what it compiled is gone (code length 0 again), the
    four instructions stay counted -/
example :
    (after (({ m := { insnLimit := some 10, dict := [("#(", .native true "#("), ("#)", .native true "#)"),
                                                     ("drop", .native false "drop")] } } : Sess).buildSource 100 .eval
      [.word "#(", .lit (.int 1), .lit (.int 2), .word "drop", .word "drop", .word "#)", .word "foo"])).map
      (fun s => (s.m.meter, s.m.code.length, s.m.insnLimit)) = some (4, 0, some 10) := by decide +kernel

end Sources

/-! ### the parsing and construction words (the layer of Model/Cursor.lean) -/

/-- **the stack limit binds the bit-string words too**, over any history: with `set_stack_limit(Some(L))` in force, after
    any sequence of reading, seeking, opening / closing, packing and emitting words — succeeding or failing, the limit
    possibly below the depth the stack already has — the limit is still `L` and the data stack is never deeper than
    `max L (depth before)`; a word whose result does not fit fails (`read_refused_moves_nothing`, C06) -/
theorem parsing_words_respect_the_stack_limit (ops : List Cur.POp) (s : Cur.CurState) (L : Nat)
    (h : s.stackLimit = some L) (hops : ∀ op ∈ ops, ∀ l, op ≠ Cur.POp.limit l) :
    (Cur.runAll s ops).stackLimit = some L ∧ (Cur.runAll s ops).ds.length ≤ max L s.ds.length :=
  Cur.limit_history ops s L h hops

end Xeh.C14
