/-
C15 — how a program is driven does not change what it does.

Model: Model/VM.lean. `next` = one `step` if running, `run` = iterate `step` while running (fuel
only bounds the number of iterations; every statement quantifies over all fuel), recording on/off =
`log := some … / none`.

Proved here for every program, word table (natives are arbitrary programs over the primitives),
machine and step count:
* recording is transparent: a recording machine and its non-recording twin produce the same outcome
  and the same machine up to the log, for one step, for `next`, and for whole runs;
* `run` is exactly single-stepping to the end.
Together: {run, step*} × {recording off, on} end in the same results, errors, stack, variables and
output.
* `eval_vs_compile_run` (session layer, Model/Session.lean): starting from an idle interpreter, evaluating a source in
  one call and compiling it and then running it give the same answer and the same session (Proofs/SessionEval.lean).
-/
import XehModel.Proofs.VMSim2
import XehModel.Props.C02
import XehModel.Proofs.SessionEval

namespace Xeh.C15
open Xeh Xeh.Mach

variable (np : String → Option Prog)

/-- One instruction: recording adds log entries and nothing else. -/
theorem erase_step (m : Mach) :
    (step np m).1 = (step np (eraseLog m)).1 ∧ eraseLog (step np m).2 = eraseLog (step np (eraseLog m)).2 :=
  Erase.step_sim np m (eraseLog m) rfl

theorem erase_next (m : Mach) :
    (next np m).1 = (next np (eraseLog m)).1 ∧ eraseLog (next np m).2 = eraseLog (next np (eraseLog m)).2 :=
  Erase.next_sim np m (eraseLog m) rfl

/-- Whole runs: with the same fuel, the recording machine and its non-recording twin terminate
    together, with the same outcome and the same final machine up to the log. -/
theorem erase_run (fuel : Nat) (m : Mach) :
    (run np fuel m).map (·.1) = (run np fuel (eraseLog m)).map (·.1) ∧
    (run np fuel m).map (fun r => eraseLog r.2) = (run np fuel (eraseLog m)).map (fun r => eraseLog r.2) :=
  Erase.run_sim np fuel m (eraseLog m) rfl

/-- switching recording on or off (`set_recording_enabled`) changes the log and nothing else — not the instruction
    meter, not a limit, not a stack: up to the log it is the same machine, so (by `step_log_independent`, `erase_run`)
    everything that follows is the same whichever way the switch was set and whenever it was set -/
theorem recording_switch_changes_only_the_log (m : Mach) (on : Bool) :
    eraseLog (m.setRecording on) = eraseLog m ∧ (m.setRecording on).meter = m.meter ∧
    (m.setRecording on).insnLimit = m.insnLimit := ⟨rfl, rfl, rfl⟩

/-- … and a run after the switch ends like the run without it -/
theorem run_after_recording_switch (fuel : Nat) (m : Mach) (on : Bool) :
    (run np fuel (m.setRecording on)).map (·.1) = (run np fuel m).map (·.1) ∧
    (run np fuel (m.setRecording on)).map (fun r => eraseLog r.2) = (run np fuel m).map (fun r => eraseLog r.2) :=
  Erase.run_sim np fuel (m.setRecording on) m rfl

/-- any two machines that differ only in the log behave alike (two-machine form, e.g. logs of
    different length) -/
theorem step_log_independent (a b : Mach) (h : eraseLog a = eraseLog b) :
    (step np a).1 = (step np b).1 ∧ eraseLog (step np a).2 = eraseLog (step np b).2 :=
  Erase.step_sim np a b h

/-- `run` is single-stepping: if n successful steps lead to a machine that is no longer running,
    `run` with any fuel ≥ n returns exactly that machine. -/
theorem run_eq_steps (n k : Nat) (m m' : Mach) (h : C02.stepN np n m = some m')
    (hrun : ∀ j mj, j < n → C02.stepN np j m = some mj → mj.isRunning = true)
    (hend : m'.isRunning = false) :
    run np (n + k) m = some (.ok (), m') := by
  induction n generalizing m with
  | zero =>
    simp [C02.stepN] at h; subst h
    cases k <;> simp [run, hend]
  | succ n ih =>
    simp only [C02.stepN] at h
    have hr0 : m.isRunning = true := hrun 0 m (by omega) rfl
    split at h
    · rename_i m1 hs
      have : n + 1 + k = (n + k) + 1 := by omega
      rw [this]
      simp only [run, hr0, if_true, hs]
      exact ih m1 h (fun j mj hj hmj => hrun (j + 1) mj (by omega) (by simp [C02.stepN, hs, hmj]))
    · cases h

/-- and if single-stepping hits an error after n successful steps, `run` returns that error and
    that machine -/
theorem run_eq_steps_err (n k : Nat) (m mn : Mach) (r : R Unit) (h : C02.stepN np n m = some mn)
    (hrun : ∀ j mj, j ≤ n → C02.stepN np j m = some mj → mj.isRunning = true)
    (hs : step np mn = r) (hne : r.1 ≠ .ok ()) :
    run np (n + 1 + k) m = some r := by
  induction n generalizing m with
  | zero =>
    simp [C02.stepN] at h; subst h
    have hr0 : m.isRunning = true := hrun 0 m (by omega) rfl
    have : 0 + 1 + k = k + 1 := by omega
    rw [this]
    simp only [run, hr0, if_true]
    obtain ⟨o, x⟩ := r
    rw [hs]
    cases o with
    | ok u => exact absurd rfl hne
    | err e => rfl
    | panic p => rfl
  | succ n ih =>
    simp only [C02.stepN] at h
    have hr0 : m.isRunning = true := hrun 0 m (by omega) rfl
    split at h
    · rename_i m1 hs1
      have : n + 1 + 1 + k = (n + 1 + k) + 1 := by omega
      rw [this]
      simp only [run, hr0, if_true, hs1]
      exact ih m1 h (fun j mj hj hmj => hrun (j + 1) mj (by omega) (by simp [C02.stepN, hs1, hmj]))
    · cases h

/-! ### non-vacuity -/

example : eraseLog ({ code := [.loadI64 1], log := some [] } : Mach) = eraseLog ({ code := [.loadI64 1], log := none } : Mach) := rfl
example : (run (fun _ => none) 5 ({ code := [.loadI64 1, .loadI64 2], log := some [] } : Mach)).map (fun r => (eraseLog r.2).ds)
    = some [.int 2, .int 1] := by decide

/-- **evaluating a source in one call = compiling it, then running it**: from an idle interpreter, for every source
    (whatever it contains, meta blocks included) and every fuel, the same result or error and the same session
    (identical; up to the bookkeeping fields of the current context when the run fails — see
    `Session.eval_eq_compile_run`). Together with `erase_run` (recording on/off) and `run_eq_steps` (run = stepping to
    the end) this covers the six ways of driving a program. -/
theorem eval_vs_compile_run (fuel : Nat) (toks : List Compile.Tok) (s : Session.Sess) (idle : Session.Idle s)
    (rest : Session.AtRest s) :
    Session.EvalR (s.buildSource fuel .eval toks) (Session.compileThenRun fuel toks s) :=
  Session.eval_eq_compile_run fuel toks s idle rest

end Xeh.C15
