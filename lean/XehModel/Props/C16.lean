/-
C16 — the lexer is total, loses no text, and reads literals as written; printing an integer,
bit-string, or vector/map of those and reading the text back yields an equal value.

Property theorems only (helper lemmas live in Proofs/Lex*.lean). The model is Model/Lex.lean
(`Lex.next` = `scan` on the remaining input, character by character with byte positions) and
Model/Print.lean (the `Debug for Cell` printer under `FmtFlags`).

* Totality is by construction: every function of Model/Lex.lean is structurally recursive on the
  remaining input (Lean accepted the definitions); `run_terminates`, `run_fuel_irrelevant`,
  `nextNonws_returns` are the all-fuel statements for the two driver loops.
* Reals: decimal → double (`str::parse::<f64>`) is a parameter, DESIGN §9 C16 "not carried": a real
  literal is `Tok.realLit text` where `text` is exactly what reaches the parser; `real_text`
  states which text that is and when the token is rejected instead.
* Vectors / maps: stated at token level (`value_print_tokens`, for ANY nesting of vectors and
  maps over in-range integers and bit-strings): the print lexes without error to `[`/`{`, the
  element literals (value before key for maps), `]`/`}`, separated by single blanks — the
  token list `toks v` defined by recursion on the value. That the words `[ … ]` / `{ v k … }`
  rebuild the value from those tokens is the compiler's and VM's business (C01/C12) and is
  checked here on the implementation only (format_cell → eval → `==` / `equal?`).
* Non-default format flags: `hex_print_not_readable` is the proved counterexample backing the
  recorded finding `[nondefault-fmt]` (^hex prints −1 as 32 f's, which the lexer rejects).
-/
import XehModel.Proofs.LexTiling
import XehModel.Proofs.LexNum
import XehModel.Proofs.LexBits
import XehModel.Proofs.LexStr
import XehModel.Proofs.LexSeq

set_option linter.unusedSimpArgs false

namespace Xeh.C16
open Xeh Xeh.Lex Xeh.Print

/-! ### totality, progress, tiling -/

/-- every token except EndOfInput consumes at least one byte (and at least one character) -/
theorem next_progress (lx : Lex) (h : lx.next.1 ≠ .ok .eof) :
    lx.next.2.pos ≥ lx.pos + 1 ∧ lx.next.2.rest.length < lx.rest.length := by
  have h1 := next_consumes lx h
  have h2 := next_split lx
  have := utf8Len_pos h1.1
  exact ⟨by omega, h1.2⟩

/-- the token reported by `next` is the text between the old and the new position
    (`last_substr()`), the next token starts where this one ended, nothing is skipped; a word /
    whitespace / comment token carries exactly that text -/
theorem next_tiling (lx : Lex) :
    lx.next.2.startPos = lx.pos ∧
    lx.next.2.pos = lx.pos + utf8Len lx.next.2.lastSubstr ∧
    lx.rest = lx.next.2.lastSubstr ++ lx.next.2.rest ∧
    (∀ s, lx.next.1 = .ok (.word s) → s = lx.next.2.lastSubstr) ∧
    (∀ s, lx.next.1 = .ok (.ws s) → s = lx.next.2.lastSubstr) ∧
    (∀ s, lx.next.1 = .ok (.comment s) → s = lx.next.2.lastSubstr) := by
  have h := next_split lx
  have t := scan_tok_text lx.pos lx.rest
  exact ⟨h.2.1, h.2.2, h.1.symm, t.1, t.2.1, t.2.2⟩

/-- EndOfInput is reported only when nothing is left -/
theorem eof_only_at_end (lx : Lex) (h : lx.next.1 = .ok .eof) : lx.rest = [] :=
  (next_eof lx h).1

/-- lexing a whole text stops at EndOfInput with nothing left, or at the first error -/
theorem run_terminates (text : List Char) :
    (run text).err.isSome ∨ (run text).final.rest = [] :=
  runFuel_complete _ _ (by simp [Lex.new])

/-- the step bound of `run` is immaterial: any larger bound gives the same run -/
theorem run_fuel_irrelevant (text : List Char) (n : Nat) (hn : text.length < n) :
    runFuel n (Lex.new text) = run text :=
  runFuel_enough _ _ _ (by simpa [Lex.new] using hn) (by simp [Lex.new])

/-- `next_nonws` always returns, and its answer does not depend on the step bound -/
theorem nextNonws_returns (lx : Lex) :
    ∃ r, lx.nextNonws = some r ∧ ∀ m, lx.rest.length < m → Lex.nextNonwsFuel m lx = some r :=
  nextNonwsFuel_some _ lx (Nat.lt_succ_self _)

/-- the token texts, concatenated in order, then the text of the failing token (if any), then
    what was not looked at, are exactly the input -/
theorem tokens_concat (text : List Char) :
    ((run text).items.map (·.text)).flatten ++ (run text).errText ++ (run text).final.rest = text :=
  runFuel_concat _ (Lex.new text)

/-- without an error the token texts reproduce the whole input -/
theorem tokens_concat_ok (text : List Char) (h : (run text).err = none) :
    ((run text).items.map (·.text)).flatten = text := by
  have h1 := tokens_concat text
  have h2 := run_terminates text
  simp only [h, Option.isSome_none, Bool.false_eq_true, false_or] at h2
  simpa [Run.errText, h, h2] using h1

/-- the reported byte ranges are contiguous from 0, each as long as its text, and the failing
    token (if any) starts where the last good one ended and is as long as its text -/
theorem ranges_contiguous (text : List Char) :
    tiles 0 (run text).items (run text).endPos ∧
    (∀ e t lo hi, (run text).err = some (e, t, lo, hi) → lo = (run text).endPos ∧ hi = lo + utf8Len t) := by
  have h := runFuel_tiles (text.length + 1) (Lex.new text)
  refine ⟨h.1, ?_⟩
  intro e t lo hi he
  refine ⟨?_, h.2 e t lo hi he⟩
  show lo = (run text).endPos
  unfold Run.endPos
  rw [he]

/-! ### integers -/

/-- printing any i128 (default flags: decimal) and lexing the text, followed by end of input or
    ASCII whitespace, yields exactly that integer literal and consumes exactly the print -/
theorem int_print_read (pos : Nat) (i : Int) (hi : InRange i) (rest : List Char) (hr : Sep rest) :
    scan pos (printInt {} i ++ rest) = ⟨.ok (.lit (.int i)), printInt {} i, rest⟩ :=
  scan_printDec pos i hi rest hr

/-- the printer's digit string denotes the number, in every base 2..36 and both letter cases
    (`digitsVal` is the positional value `from_str_radix` computes) -/
theorem print_digits_value (b : Nat) (up : Bool) (hb2 : 2 ≤ b) (hb : b ≤ 36) (n : Nat) :
    digitsVal b (natDigits b up n) 0 = some n :=
  digitsVal_natDigits b up hb2 hb n

/-- `sign? 0x digits` and `sign? 0b digits` (with `_` anywhere among the digits) denote the
    signed positional value of the digits when that is an i128, and are rejected otherwise -/
theorem radix_value (pos : Nat) (sg : List Char) (hsg : IsSign sg) (pc : Char) (R : Nat)
    (hp : (pc = 'x' ∧ R = 16) ∨ (pc = 'b' ∧ R = 2))
    (body rest : List Char) (hb : ∀ x ∈ body, isWs x = false) (hr : Sep rest)
    (v : Nat) (hne : body.filter (· != '_') ≠ []) (hv : digitsVal R (body.filter (· != '_')) 0 = some v) :
    scan pos (sg ++ '0' :: pc :: body ++ rest) =
      numStep pos
        (if InRange (if sg = ['-'] then -(v : Int) else (v : Int))
         then .ok (.lit (.int (if sg = ['-'] then -(v : Int) else (v : Int))))
         else .error .parseInt)
        (sg ++ '0' :: pc :: body) rest := by
  rw [scan_prefixed pos sg hsg pc R hp body rest hb hr, numDecide_int _ _ _ _ (no_dot_of_digits hv)]
  simp only []
  rw [parseInt_signed R sg _ hsg hne v hv]
  by_cases hR : InRange (if sg = ['-'] then -(v : Int) else (v : Int)) <;> simp [hR]

/-- a numeral starting with a non-zero digit is decimal -/
theorem decimal_value (pos : Nat) (sg : List Char) (hsg : IsSign sg) (d : Char) (hd : isDigit d = true)
    (hd0 : d ≠ '0') (body rest : List Char) (hb : ∀ x ∈ body, isWs x = false) (hr : Sep rest)
    (v : Nat) (hv : digitsVal 10 (d :: body.filter (· != '_')) 0 = some v) :
    scan pos (sg ++ d :: body ++ rest) =
      numStep pos
        (if InRange (if sg = ['-'] then -(v : Int) else (v : Int))
         then .ok (.lit (.int (if sg = ['-'] then -(v : Int) else (v : Int))))
         else .error .parseInt)
        (sg ++ d :: body) rest := by
  have hnd : body.any (· == '.') = false := by
    rw [← any_dot_filter]
    simp only [List.any_eq_false, beq_iff_eq]
    intro c hc heq
    exact digits_not_special hv c (Or.inl heq) (by simp [hc])
  rw [scan_decimal pos sg hsg d hd hd0 body rest hb hr, numDecide_int _ _ _ _ hnd]
  have hd0' : (d == '0') = false := by simp [hd0]
  simp only [hd0', Bool.false_eq_true, if_false]
  have : sg ++ [d] ++ body.filter (· != '_') = sg ++ (d :: body.filter (· != '_')) := by simp
  rw [this, parseInt_signed 10 sg _ hsg (by simp) v hv]
  by_cases hR : InRange (if sg = ['-'] then -(v : Int) else (v : Int)) <;> simp [hR]

/-- a leading `0` not followed by `x`/`b` means hexadecimal -/
theorem leading_zero_hex_value (pos : Nat) (sg : List Char) (hsg : IsSign sg)
    (body rest : List Char) (hb : ∀ x ∈ body, isWs x = false) (hr : Sep rest)
    (hnx : ∀ c t, body = c :: t → c ≠ 'x' ∧ c ≠ 'b')
    (v : Nat) (hv : digitsVal 16 (body.filter (· != '_')) 0 = some v) :
    scan pos (sg ++ '0' :: body ++ rest) =
      numStep pos
        (if InRange (if sg = ['-'] then -(v : Int) else (v : Int))
         then .ok (.lit (.int (if sg = ['-'] then -(v : Int) else (v : Int))))
         else .error .parseInt)
        (sg ++ '0' :: body) rest := by
  rw [scan_leadingZero pos sg hsg body rest hb hr hnx, numDecide_int _ _ _ _ (no_dot_of_digits hv)]
  simp only [beq_self_eq_true, if_true]
  have : sg ++ ['0'] ++ body.filter (· != '_') = sg ++ ('0' :: body.filter (· != '_')) := by simp
  rw [this, parseInt_signed 16 sg _ hsg (by simp) v (by rw [digitsVal_leading_zero]; exact hv)]
  by_cases hR : InRange (if sg = ['-'] then -(v : Int) else (v : Int)) <;> simp [hR]

/-- `_` in the body of a numeral is ignored -/
theorem underscore_ignored (d : Char) (radix : Option Nat) (tmp1 body : List Char) :
    numDecide d radix tmp1 body = numDecide d radix tmp1 (body.filter (· != '_')) :=
  numDecide_underscore d radix tmp1 body

/-- `from_str_radix` yields `i` exactly for a well-formed digit string whose signed value is `i`
    and lies in the i128 range: invalid digits, a missing digit, a second sign and overflow are
    all rejected -/
theorem overflow_rejected (radix : Nat) (s : List Char) (i : Int) :
    parseInt radix s = some i ↔
      ∃ n, (splitSign s).2 ≠ [] ∧ digitsVal radix (splitSign s).2 0 = some n ∧
        i = (if (splitSign s).1 then -(n : Int) else (n : Int)) ∧ InRange i :=
  parseInt_some_iff radix s i

/-- whatever a numeric token is, it is an integer literal, a real literal, or an error -/
theorem numeral_kinds {d : Char} {radix : Option Nat} {tmp1 body : List Char} {t : Tok}
    (h : numDecide d radix tmp1 body = .ok t) : (∃ i, t = .lit (.int i)) ∨ (∃ s, t = .realLit s) :=
  numDecide_ok h

/-- a `.` anywhere in the token makes it a real: rejected under a radix prefix, otherwise the
    text handed to the float parser is sign + digits with `_` removed, and the token is a literal
    exactly when that text is in the parser's grammar -/
theorem real_text (d : Char) (radix : Option Nat) (tmp1 body : List Char) (hd : body.any (· == '.') = true) :
    numDecide d radix tmp1 body =
      if radix.isSome then .error .parseFloat
      else if validFloat (tmp1 ++ body.filter (· != '_')) then .ok (.realLit (tmp1 ++ body.filter (· != '_')))
      else .error .parseFloat :=
  numDecide_real d radix tmp1 body hd

/-! ### strings -/

/-- a literal opened by `"` or `“`, whose body consists of raw characters (anything except `\`,
    `"`, `”`) and the five escapes `\\ \" \n \r \t`, closed by `"` or `”` and followed by a
    separator, is the string of the pieces' values -/
theorem escape_decode (pos : Nat) (o q : Char) (ho : o = '"' ∨ o = '“') (hq : q = '"' ∨ q = '”')
    (ps : List Piece) (hps : ∀ p ∈ ps, p.Ok) (rest : List Char) (hr : Sep rest) :
    scan pos (o :: (ps.flatMap Piece.text ++ q :: rest)) =
      ⟨.ok (.lit (.str (ps.map Piece.val))), o :: (ps.flatMap Piece.text ++ [q]), rest⟩ := by
  have ho1 : isWs o = false := by rcases ho with rfl | rfl <;> decide
  have ho2 : (o == '"' || o == '“') = true := by rcases ho with rfl | rfl <;> decide
  rw [scan_nonws_head pos o _ ho1]
  unfold scanTok
  simp only [ho2, if_true, scanStr_pieces ps hps q hq rest]
  have : sepOk rest = true := by
    rcases hr with rfl | ⟨w, r', rfl, hw⟩
    · rfl
    · exact hw
  simp [this]

/-- the escape table -/
theorem escape_table :
    unescape '\\' = some '\\' ∧ unescape '"' = some '"' ∧ unescape 'n' = some '\n' ∧
    unescape 'r' = some '\r' ∧ unescape 't' = some '\t' ∧
    (∀ k, k ≠ '\\' → k ≠ '"' → k ≠ 'n' → k ≠ 'r' → k ≠ 't' → unescape k = none) := by
  refine ⟨rfl, rfl, rfl, rfl, rfl, ?_⟩
  intro k h1 h2 h3 h4 h5
  exact unescape_none (by simp [Piece.Ok, h1, h2, h3, h4, h5])

/-- any other escape is an error pointing at the two characters of the escape -/
theorem bad_escape_rejected (pos : Nat) (o : Char) (ho : o = '"' ∨ o = '“')
    (ps : List Piece) (hps : ∀ p ∈ ps, p.Ok) (k : Char) (hk : ¬ Piece.Ok (.esc k)) (rest : List Char) :
    (scan pos (o :: (ps.flatMap Piece.text ++ '\\' :: k :: rest))).res =
      .error ⟨.escapeSeq, pos + utf8Len (o :: (ps.flatMap Piece.text ++ ['\\', k])) - utf8Size k - 1,
              pos + utf8Len (o :: (ps.flatMap Piece.text ++ ['\\', k]))⟩ := by
  have ho1 : isWs o = false := by rcases ho with rfl | rfl <;> decide
  have ho2 : (o == '"' || o == '“') = true := by rcases ho with rfl | rfl <;> decide
  rw [scan_nonws_head pos o _ ho1]
  unfold scanTok
  simp only [ho2, if_true, scanStr_bad_escape ps hps k hk rest]

/-! ### bit-strings -/

/-- a literal whose body consists of hex digits (4 bits each, most significant first), `x` (one
    set bit), `.` (one clear bit) and ASCII whitespace (ignored) denotes exactly those bits -/
theorem bitstr_literal_denotes (pos : Nat) (cs : List Char) (bits : List Bool) (rest : List Char)
    (h : decodeChars cs = some bits) :
    scan pos ('|' :: (cs ++ '|' :: rest)) = ⟨.ok (.lit (.bitstr bits)), '|' :: (cs ++ ['|']), rest⟩ := by
  rw [scan_nonws_head pos '|' _ (by decide)]
  unfold scanTok
  have h1 : ('|' == '"' || '|' == '“') = false := by decide
  have h2 : scanBits ('|' :: rest) = (.closed [], ['|'], rest) := by
    unfold scanBits
    have : toDigit 16 '|' = none := by decide +kernel
    simp [this, isWs]
  simp only [h1, Bool.false_eq_true, if_false, beq_self_eq_true, if_true, scanBits_decode cs bits _ h, h2]
  simp [BitsEnd.prepend]

/-- what each character of a bit-string literal contributes -/
theorem bitstr_char_table :
    bitCharBits 'x' = some [true] ∧ bitCharBits '.' = some [false] ∧ bitCharBits ' ' = some [] ∧
    bitCharBits 'A' = some [true, false, true, false] ∧ bitCharBits 'a' = some [true, false, true, false] ∧
    bitCharBits '7' = some [false, true, true, true] ∧ bitCharBits 'g' = none ∧ bitCharBits '\x0b' = none := by
  decide +kernel

/-- printing ANY bit-string and lexing the text yields exactly that bit-string and consumes
    exactly the print, whatever follows -/
theorem bitstr_print_read (pos : Nat) (bs : List Bool) (rest : List Char) :
    scan pos (printBits bs ++ rest) = ⟨.ok (.lit (.bitstr bs)), printBits bs, rest⟩ :=
  scan_printBits pos bs rest

/-! ### vectors and maps of integers and bit-strings (any nesting) -/

/-- the default print of a value built from in-range integers, bit-strings, vectors and maps
    lexes — without error, nothing lost — to exactly the token list `toks v`: the literal itself
    for an integer / bit-string; `[`, blank, (element, blank)*, `]` for a vector; `{`, blank,
    (value, blank, key, blank)*, `}` for a map -/
theorem value_print_tokens (v : Cell) (h : PV v) :
    ∃ s, printCell {} v = some s ∧ (run s).items.map (·.tok) = toks v ∧ (run s).err = none := by
  obtain ⟨s, hs, _, hl⟩ := lexes_cell v h
  have := (hl [] (Or.inl rfl))
  rw [List.append_nil] at this
  exact ⟨s, hs, this.run.1, this.run.2⟩

/-- the same in front of any separator: the print of a value is read back as a unit wherever it
    is embedded -/
theorem value_print_tokens_embedded (v : Cell) (h : PV v) :
    ∃ s, printCell {} v = some s ∧ ∀ rest, Sep rest → Lexes (s ++ rest) (toks v) rest := by
  obtain ⟨s, hs, _, hl⟩ := lexes_cell v h
  exact ⟨s, hs, hl⟩

/-! ### the recorded finding: non-default format flags are not readable back -/

/-- under `^hex` (base 16, prefix on) −1 prints as the 128-bit two's-complement pattern … -/
theorem hex_print_of_minus_one :
    printInt ⟨16, true, false, false⟩ (-1) = "0xffffffffffffffffffffffffffffffff".toList := by
  simp [printInt, natDigits, digitChar]

/-- … which the lexer rejects: print → read fails for negative integers under `^hex` -/
theorem hex_print_not_readable (pos : Nat) :
    (scan pos (printInt ⟨16, true, false, false⟩ (-1))).res = .error ⟨.parseInt, pos, pos + 34⟩ := by
  rw [hex_print_of_minus_one]
  have := scan_prefixed pos [] (Or.inl rfl) 'x' 16 (Or.inl ⟨rfl, rfl⟩)
    "ffffffffffffffffffffffffffffffff".toList [] (by decide +kernel) (Or.inl rfl)
  simp only [List.nil_append, List.append_nil] at this
  show (scan pos ('0' :: 'x' :: "ffffffffffffffffffffffffffffffff".toList)).res = _
  rw [this]
  have h : numDecide '0' (some 16) [] "ffffffffffffffffffffffffffffffff".toList = .error .parseInt := by
    simp [numDecide, parseInt, splitSign, digitsVal, toDigit, InRange]
  rw [h]
  simp [numStep, utf8Len, utf8Size]

/-! ### examples: the hypotheses are satisfiable, the quirks are real -/

example : (run " 12 \"a\\n\" |Fx| 0.5 ".toList).items.map (·.tok) =
    [.ws [' '], .lit (.int 12), .ws [' '], .lit (.str ['a', '\n']), .ws [' '],
     .lit (.bitstr [true, true, true, true, true]), .ws [' '], .realLit "0.5".toList, .ws [' ']] := by
  decide +kernel

example : ((run "a\x0bb é\r\n".toList).items.map (·.text)).flatten = "a\x0bb é\r\n".toList := by
  decide +kernel

-- a sign after the radix prefix is accepted (`0x-1` is −1): the code's behaviour, kept
example : (scan 0 "0x-1".toList).res = .ok (.lit (.int (-1))) := by decide +kernel
-- leading-zero hex whose first digit is `b` is the binary prefix
example : (scan 0 "0b1".toList).res = .ok (.lit (.int 1)) := by decide +kernel
example : (scan 0 "0bf".toList).res = .error ⟨.parseInt, 0, 3⟩ := by decide +kernel
-- i128 boundaries
example : (scan 0 "-170141183460469231731687303715884105728".toList).res
    = .ok (.lit (.int (-170141183460469231731687303715884105728))) := by decide +kernel
example : (scan 0 "170141183460469231731687303715884105728".toList).res = .error ⟨.parseInt, 0, 39⟩ := by
  decide +kernel
-- `\)` not preceded by whitespace does not close a comment; end of input does not close it either
example : (scan 0 "\\( a\\) b \\) c".toList).res = .ok (.comment "\\( a\\) b \\) ".toList) := by decide +kernel
example : (scan 0 "\\( a\\)".toList).res = .error ⟨.unterminatedComment, 0, 6⟩ := by decide +kernel
-- nothing is required after the closing bar of a bit-string, a separator is after a string
example : (run "|ff|abc".toList).items.map (·.tok) = [.lit (.bitstr (List.replicate 8 true)), .word "abc".toList] := by
  decide +kernel
example : (scan 0 "\"abc\"x".toList).res = .error ⟨.expectWs, 0, 5⟩ := by decide +kernel
-- instances of the print/read theorems
example : scan 7 (printInt {} (-42) ++ " x".toList) = ⟨.ok (.lit (.int (-42))), printInt {} (-42), " x".toList⟩ :=
  int_print_read 7 (-42) (by decide) _ (Or.inr ⟨' ', ['x'], rfl, rfl⟩)
example : toks (.vec (.cons (.int 1) (.cons (.bitstr [true]) .nil))) =
    [.word ['['], .ws [' '], .lit (.int 1), .ws [' '], .lit (.bitstr [true]), .ws [' '], .word [']']] := by
  simp [toks, toksElems]
example : PV (.map (.cons (.int 1) (.vec (.cons (.int (-2)) .nil)) .nil)) := by
  simp [PV, PVm, PVs, InRange]
example : (run "{ [ -2 |x| ] 1 }".toList).items.map (·.tok) =
    toks (.map (.cons (.int 1) (.vec (.cons (.int (-2)) (.cons (.bitstr [true]) .nil))) .nil)) := by
  simp only [toks, toksPairs, toksElems]; decide +kernel
example : printBits [true, false, true, false, true, true, true, true, false, true, true] = "|AF .xx|".toList := by
  simp [printBits, chunks8, joinSp, printChunk, bitsVal, digitChar]
  decide

end Xeh.C16
