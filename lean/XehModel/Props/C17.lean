/-
C17 — every error points at the token that caused it.

Pieces (all about the executable model; the tie to /repo is the correspondence of `C17 fail`
requests, where the real interpreter's `last_err_location()` is compared field by field):

* `debugMap_aligned`   — the debug map stays parallel to the code through every compiler step
                          (emission, backpatching, `:`/`;`, `late`, loops, case …), for every token list;
* `debugMap_origin`    — every opcode emitted while compiling a source is attributed to one of that
                          source's tokens, and (`immediate_origin`, `word_origin`) precisely to the token
                          being compiled when it was emitted — backpatching never re-attributes;
* `runtime_error_ip`   — an instruction that fails does not move the instruction pointer, whatever
                          it did before failing; so `debug_map[ip]` after the failure is the token of the
                          failing instruction, also inside called definitions and loops;
* `location_spec` (Props/C17loc.lean, by the lexer layer) — line, column and quoted line computed
                          from a token's byte offset are the true position of that token for any
                          mix of LF / CRLF / CR, tabs and multi-byte characters.
-/
import XehModel.Proofs.CompileOrigin
import XehModel.Proofs.VMRev2
import XehModel.Props.C17loc

namespace Xeh.C17
open Xeh Xeh.Compile Xeh.Mach

/-- compiling any source on top of an aligned state leaves debug map and code aligned -/
theorem debugMap_aligned (toks : List Tok) (idx : Nat) (s s' : CState) (h : Aligned s)
    (e : compileToks toks idx s = .ok s') : s'.dmap.length = s'.code.length :=
  compileToks_aligned toks idx s s' h e

/-- the debug map is only ever extended, and every new entry names a token of the source being
    compiled (`idx` = index of its first token) -/
theorem debugMap_origin (toks : List Tok) (idx : Nat) (s s' : CState)
    (e : compileToks toks idx s = .ok s') :
    ∃ l, s'.dmap = s.dmap ++ l ∧ ∀ t ∈ l, idx ≤ t ∧ t < idx + toks.length :=
  compileToks_origin toks idx s s' e

/-- one immediate word (control structure, builder, …): everything it emits is attributed to the
    token being compiled (`lastTok`), and entries of earlier tokens are untouched — in particular
    backpatching a jump of an earlier `if`/`while`/`do`/`of` never re-attributes it -/
theorem immediate_origin (s s' : CState) (w : String) (e : immediate s w = .ok s') :
    ∃ k, s'.dmap = s.dmap ++ List.replicate k s.lastTok :=
  let ⟨k, h, _⟩ := immediate_dext s s' w e; ⟨k, h⟩

/-- an ordinary word (call, native call, variable, constant) -/
theorem word_origin (s s' : CState) (w : String) (e : buildWord s w = .ok s') :
    ∃ k, s'.dmap = s.dmap ++ List.replicate k s.lastTok :=
  let ⟨k, h, _⟩ := buildWord_dext s s' w e; ⟨k, h⟩

/-- a failing instruction leaves the instruction pointer on itself (every opcode advances only after
    success), for every opcode, every native word and every machine -/
theorem runtime_error_ip (np : String → Option Prog) (m : Mach) (w : WF m) (h : (step np m).1 ≠ .ok ()) :
    (step np m).2.ctx.ip = m.ctx.ip := by
  have sh := step_shape np m w
  cases sh with
  | early hc _ _ _ _ _ =>
    have := congrArg Core.ctx hc
    simp only [core] at this
    rw [this]
  | exec m0 p s =>
    have h0 : m0.ctx = m.ctx := by have := congrArg Core.ctx p.core; simpa [core] using this
    cases s with
    | fail seg mp r e ne => rw [e, r.ctx, h0]
    | done seg mp n r e => rw [e] at h; exact absurd rfl h

/-! ### non-vacuity -/

example : Aligned ({} : CState) := rfl
/-- the jump emitted by `if` (while token 1 is being compiled) is attributed to token 1 and keeps that
    attribution when `then` (token 3) backpatches it -/
example : (immediate { lastTok := 1, code := [.loadI64 1], dmap := [0] } "if").casesOn
    (fun s => (immediate { s with lastTok := 3 } "then").casesOn (fun s' => s'.dmap = [0, 1] ∧ s'.code = [.loadI64 1, .jumpIfNot 1])
      (fun _ _ => False) (fun _ => False)) (fun _ _ => False) (fun _ => False) := by
  simp [immediate, CState.pushFlow, CState.emit, CState.origin, CState.takeFirstCond, CState.backpatchJump, fromTo]

end Xeh.C17
