/-
C17 — every error points at the token that caused it.

Pieces (all about the executable model; the tie to /repo is the correspondence of `C17 fail`
requests, where the real interpreter's `last_err_location()` is compared field by field):

* `debugMap_aligned`   — the debug map stays parallel to the code through every compiler step
                          (emission, backpatching, `:`/`;`, `late`, loops, case …), for every token list;
* `debugMap_origin`    — every opcode emitted while compiling a source is attributed to one of that
                          source's tokens, and (`immediate_origin`, `word_origin`) precisely to the token
                          being compiled when it was emitted — backpatching never re-attributes;
* `runtime_error_ip`   — an instruction that fails does not move the instruction pointer, whatever
                          it did before failing; so `debug_map[ip]` after the failure is the token of the
                          failing instruction, also inside called definitions and loops;
* `runtime_error_names_its_token` — end to end for the structured fragment (through C01's `source_means_what_it_says`):
                          compile the tokens with the flow-stack compiler, run; when the structural evaluator says
                          "the word at token `tok` fails with `e`", the VM fails with `e` and the debug-map entry
                          under the instruction pointer *after* the failure — what `last_err_location` reads — is
                          `tok`: inside conditionals, loops, case arms, called definitions, recursion;
* `build_error_blames_a_word_or_the_end`, `unknown_word_blames_itself`, `open_structure_blames_the_end` — failures while a
                          source is *built*: whatever compiling word fails, for whatever reason, the blamed token is the
                          word being compiled at that moment (or the name it reads), never a literal, never a token of
                          another source; an unknown word is blamed on itself; a structure left open is blamed on the
                          end of the text (the empty token there);
* `location_spec` (Props/C17loc.lean, by the lexer layer) — line, column and quoted line computed
                          from a token's byte offset are the true position of that token for any
                          mix of LF / CRLF / CR, tabs and multi-byte characters.
-/
import XehModel.Proofs.CompileOrigin
import XehModel.Proofs.CompileBlame
import XehModel.Proofs.VMRev2
import XehModel.Props.C17loc
import XehModel.Props.C01
import XehModel.Proofs.VMSeal

namespace Xeh.C17
open Xeh Xeh.Compile Xeh.Mach

/-- compiling any source on top of an aligned state leaves debug map and code aligned -/
theorem debugMap_aligned (toks : List Tok) (idx : Nat) (s s' : CState) (h : Aligned s)
    (e : compileToks toks idx s = .ok s') : s'.dmap.length = s'.code.length :=
  compileToks_aligned toks idx s s' h e

/-- the debug map is only ever extended, and every new entry names a token of the source being
    compiled (`idx` = index of its first token) -/
theorem debugMap_origin (toks : List Tok) (idx : Nat) (s s' : CState)
    (e : compileToks toks idx s = .ok s') :
    ∃ l, s'.dmap = s.dmap ++ l ∧ ∀ t ∈ l, idx ≤ t ∧ t < idx + toks.length :=
  compileToks_origin toks idx s s' e

/-- one immediate word (control structure, builder, …): everything it emits is attributed to the
    token being compiled (`lastTok`), and entries of earlier tokens are untouched — in particular
    backpatching a jump of an earlier `if`/`while`/`do`/`of` never re-attributes it -/
theorem immediate_origin (s s' : CState) (w : String) (e : immediate s w = .ok s') :
    ∃ k, s'.dmap = s.dmap ++ List.replicate k s.lastTok :=
  let ⟨k, h, _⟩ := immediate_dext s s' w e; ⟨k, h⟩

/-- an ordinary word (call, native call, variable, constant) -/
theorem word_origin (s s' : CState) (w : String) (e : buildWord s w = .ok s') :
    ∃ k, s'.dmap = s.dmap ++ List.replicate k s.lastTok :=
  let ⟨k, h, _⟩ := buildWord_dext s s' w e; ⟨k, h⟩

/-! ### failures while a source is built -/

/-- Whatever fails while a token list is compiled — an unknown word, an unbalanced closer, a `var` inside a conditional,
    a missing name, a heap limit, anything any compiling word can raise — blames a **word of this source** (`idx` is the
    index of its first token) **or the end of the text**; never a literal, never a position outside the source. -/
theorem build_error_blames_a_word_or_the_end (toks : List Tok) (idx : Nat) (s : CState) (e : CErr) (sp : CState)
    (h : compileToks toks idx s = .err e sp) :
    e.tok = idx + toks.length ∨ (idx ≤ e.tok ∧ ∃ w, toks[e.tok - idx]? = some (.word w)) :=
  Blame.compileToks_blames toks idx s e sp h

/-- an unknown word (not a local of the definition being compiled, not in the dictionary) is blamed on itself, at once,
    in whatever state and at whatever position the compiler reaches it -/
theorem unknown_word_blames_itself (w : String) (rest : List Tok) (idx : Nat) (s : CState)
    (hloc : ((CState.topFun s.flows).bind fun ff => CState.rposition w ff.locals) = none)
    (hdict : s.dict.lookup w = none) :
    compileToks (.word w :: rest) idx s = .err ⟨.unknownWord w.toList, idx⟩ { s with lastTok := idx } :=
  Blame.unknown_word_blames_itself w rest idx s hloc hdict

/-- a structure still open when the text ends is blamed on the end of the text -/
theorem open_structure_blames_the_end (idx : Nat) (s : CState) (f : Flow) (fs : List Flow) (hf : s.flows = f :: fs) :
    compileToks [] idx s = .err ⟨flowError f, idx⟩ { s with lastTok := idx } :=
  Blame.open_structure_blames_the_end idx s f fs hf

/-- the hypotheses are met: `1 foo 2` on an empty dictionary fails at token 1, which is the word `foo` -/
example : ∃ sp, compileToks [.lit (.int 1), .word "foo", .lit (.int 2)] 0 {} = .err ⟨.unknownWord "foo".toList, 1⟩ sp := by
  rw [compileToks]
  exact ⟨_, unknown_word_blames_itself "foo" _ 1 _ (by simp [CState.emit, CState.topFun]) (by simp [CState.emit])⟩

/-- a failing instruction leaves the instruction pointer on itself (every opcode advances only after
    success), for every opcode, every native word and every machine -/
theorem runtime_error_ip (np : String → Option Prog) (m : Mach) (w : WF m) (h : (step np m).1 ≠ .ok ()) :
    (step np m).2.ctx.ip = m.ctx.ip := by
  have sh := step_shape np m w
  cases sh with
  | early hc _ _ _ _ _ =>
    have := congrArg Core.ctx hc
    simp only [core] at this
    rw [this]
  | exec m0 p s =>
    have h0 : m0.ctx = m.ctx := by have := congrArg Core.ctx p.core; simpa [core] using this
    cases s with
    | fail seg mp r e ne => rw [e, r.ctx, h0]
    | done seg mp n r e => rw [e] at h; exact absurd rfl h

/-- well-formedness (stack floors within the stacks) survives any number of successful steps -/
theorem stepN_wf (np : String → Option Prog) : ∀ (n : Nat) (m m' : Mach), WF m → C02.stepN np n m = some m' → WF m' := by
  intro n
  induction n with
  | zero => intro m m' w h; cases h; exact w
  | succ n ih =>
    intro m m' w h
    simp only [C02.stepN] at h
    have hs := step_sealed np m w
    split at h
    · rename_i m1 heq
      rw [heq] at hs
      exact ih m1 m' hs.wf h
    · cases h

open Xeh.Structured in
/-- **a run-time error names the token that failed**, for every program of the structured fragment: compile the tokens
    with the flow-stack compiler, load the code, run.  If the structural evaluator (no bytecode, no instruction
    pointer) says that executing the word at token `tok` fails with error `e`, then the VM, after some number of
    successful steps, executes an instruction that fails with the same `e`, and the debug-map entry at the instruction
    pointer it is left with — the lookup `last_err_location` performs — is `tok`.  Conditionals, loops, `break`,
    case arms, calls into definitions (the failing word may be deep inside a called definition, or a recursion),
    locals: all nestings. -/
theorem runtime_error_names_its_token (np : String → Option Prog) (toks : List Tok) (m : Mach) (f : Nat)
    (st : Stmt) (ps' : PState)
    (hip : m.ctx.ip = 0) (hwf : WF m) (hlim : m.insnLimit = none)
    (hp : parseS toks { dict := m.dict, heapLen := m.heap.length } = some (st, ps')) (hsize : size st < 2^62) :
    ∃ s, compileToks toks 0 { dict := m.dict, heapLen := m.heap.length } = .ok s ∧ s.dmap = C01.dmapOf st ∧
      let m1 : Mach := { m with code := s.code, dict := s.dict,
                                heap := m.heap ++ List.replicate (s.heapLen - m.heap.length) Cell.nil }
      match evalS np (tabOf st) f st m1 with
      | .err e tok _ => ∃ n mv mv', C02.stepN np n m1 = some mv ∧ step np mv = (.err e, mv') ∧
          s.dmap[mv'.ctx.ip]? = some tok
      | _ => True := by
  obtain ⟨s, hc, hd, hrest⟩ := C01.source_means_what_it_says np toks m f st ps' hip hwf hlim hp hsize
  refine ⟨s, hc, hd, ?_⟩
  simp only at hrest ⊢
  split
  · rename_i e tok m' heq
    rw [heq] at hrest
    obtain ⟨n, mv, mv', h1, h2, _, h4⟩ := hrest
    refine ⟨n, mv, mv', h1, h2, ?_⟩
    have wv : WF mv := by
      refine stepN_wf np n _ mv ?_ h1
      exact ⟨hwf.ds, hwf.rs, hwf.ls, hwf.ss⟩
    have hip' := runtime_error_ip np mv wv (by rw [h2]; intro h; cases h)
    rw [h2] at hip'
    simp only at hip'
    rw [hip', hd]
    exact h4
  all_goals trivial

/-! ### non-vacuity -/

example : Aligned ({} : CState) := rfl
/-- the jump emitted by `if` (while token 1 is being compiled) is attributed to token 1 and keeps that
    attribution when `then` (token 3) backpatches it -/
example : (immediate { lastTok := 1, code := [.loadI64 1], dmap := [0] } "if").casesOn
    (fun s => (immediate { s with lastTok := 3 } "then").casesOn (fun s' => s'.dmap = [0, 1] ∧ s'.code = [.loadI64 1, .jumpIfNot 1])
      (fun _ _ => False) (fun _ => False)) (fun _ _ => False) (fun _ => False) := by
  simp [immediate, CState.pushFlow, CState.emit, CState.origin, CState.takeFirstCond, CState.backpatchJump, fromTo]

end Xeh.C17
