/-
C17 (location function part) — `token_location` (lex.rs 312–345): line, column and quoted line.

For EVERY source text and every token start on a char boundary (`text = pre ++ post`, the token
starts at byte `utf8Len pre`; `post` begins with the token), for any mix of LF / CRLF / CR line
ends, tabs and multi-byte characters:

* `line`  = number of LF characters before the token (a lone CR starts a new *segment* — it
  resets the column and the quoted line — but does not count as a line; the statement fixed in
  DESIGN §9 C17);
* `col`   = number of characters (not bytes) since the last CR/LF before the token;
* `whole_line` = the maximal run without CR/LF around the token start: the break-free suffix of
  `pre` followed by the break-free prefix of `post`; its byte range is reported too;
* the quoted line, from column `col` on, is the token text up to its first line break;
* the function never panics (`parent.substr(start..end)` is always inside the text on char
  boundaries) — after the repair 752c812 of the initial `end = 1`, whose only failing input was
  the empty text (`substr(0..1)` of ""): `location_empty_text` pins the repaired behaviour.

Deviations looked for and not found: CRLF (the `\n` of a CRLF yields an empty segment that no
token can start in except at the `\n` itself), a token right after `\r`, a token at the very end
of the text (with and without trailing newline), a token start *at* a line break character.
-/
import XehModel.Proofs.LexLoc

namespace Xeh.C17loc
open Xeh Xeh.Lex

/-- the location of a token starting right after `pre` in `pre ++ post` -/
theorem location_spec (pre post : List Char) :
    tokenLocation (pre ++ post) (utf8Len pre) =
      .ok (⟨countLF pre, (lastSeg pre).length, utf8Len pre - utf8Len (lastSeg pre),
            utf8Len pre + utf8Len (firstSeg post)⟩, lastSeg pre ++ firstSeg post) :=
  tokenLocation_eq pre post

/-- `lastSeg pre` is the text since the last line break: a break-free suffix of `pre` preceded by
    nothing or by a CR/LF -/
theorem lastSeg_spec (pre : List Char) :
    ∃ a, pre = a ++ lastSeg pre ∧ (∀ c ∈ lastSeg pre, isBreak c = false) ∧
      (a = [] ∨ ∃ a' b, a = a' ++ [b] ∧ isBreak b = true) := by
  have := lastSegAux_spec pre [] (by simp)
  simpa [lastSeg] using this

/-- `firstSeg post` is the text up to the next line break: a break-free prefix of `post` followed
    by nothing or by a CR/LF -/
theorem firstSeg_spec (post : List Char) :
    ∃ b, post = firstSeg post ++ b ∧ (∀ c ∈ firstSeg post, isBreak c = false) ∧
      (b = [] ∨ ∃ w b', b = w :: b' ∧ isBreak w = true) :=
  Lex.firstSeg_spec post

/-- the function is total: no source text and token start on a char boundary makes it panic -/
theorem location_total (pre post : List Char) :
    (tokenLocation (pre ++ post) (utf8Len pre)).isPanic = false := by
  rw [location_spec]; rfl

/-- the quoted line, from column `col` on, is the token's text up to its first line break -/
theorem location_points_at_token (pre post : List Char) :
    (lastSeg pre ++ firstSeg post).drop (lastSeg pre).length = firstSeg post := by
  simp

/-- the empty source (the repaired case): line 0, column 0, empty quoted line -/
theorem location_empty_text : tokenLocation [] 0 = .ok (⟨0, 0, 0, 0⟩, []) := by decide +kernel

/-! ### examples -/

-- CRLF: the token after `\r\n` is on line 1, column 0
example : tokenLocation "ab\r\ncd".toList 4 = .ok (⟨1, 0, 4, 6⟩, "cd".toList) := by decide +kernel
-- a lone CR resets the column but is not a line
example : tokenLocation "ab\rcd".toList 3 = .ok (⟨0, 0, 3, 5⟩, "cd".toList) := by decide +kernel
-- columns count characters, not bytes; tabs count 1
example : tokenLocation "é\t日x y\n".toList 7 = .ok (⟨0, 4, 0, 9⟩, "é\t日x y".toList) := by decide +kernel
-- a token at the very end of a text that ends in a newline
example : tokenLocation "x\n".toList 2 = .ok (⟨1, 0, 2, 2⟩, []) := by decide +kernel
-- a token start on the `\n` of a CRLF: an empty segment
example : tokenLocation "a\r\nb".toList 2 = .ok (⟨0, 0, 2, 2⟩, []) := by decide +kernel

end Xeh.C17loc
