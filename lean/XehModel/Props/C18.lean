/-
C18 — text encodings of binary data round-trip.

  "For every byte string, base32>, base32hex>, base64> and zero85> applied to the output of base32,
   base32hex, base64 and zero85 return the original bytes, for every length; decoding text that is
   not valid in the alphabet yields nil rather than an error or a wrong value, and encoding accepts
   the same inputs as >bitstr."

Property theorems only (helper lemmas live in Proofs/Enc*.lean). What the theorems talk about:

* `Model/Enc.lean` models the three dependency crates (base32-0.4.0, base64-0.21.2 STANDARD engine,
  z85-3.0.5) from their source as radix regrouping plus each crate's own padding / tail / leniency
  rules, and xeh's own part — the glue of src/base_ext.rs (`into_bitstr`, `Bitstr::bytestr`, nil on
  every decode failure, the `"#####"` guard in front of `z85::decode`). The crate models are
  validated against the compiled crates by the correspondence run; they are not extracted from the
  crates' source.
* byte strings are `List Nat` with every element `< 256`; the round-trip theorems hold for EVERY such
  list, hence for every length and every padding / tail case.
* word-level statements quantify over every stack `s` underneath and every hidden-prefix length
  `h ≤ |s|`.

Findings recorded as theorems: `z85_crate_panics` (the crate's decoder panics on a last chunk of five
padding marks — the reason for the guard) and `zero85_decode_never_panics` (with the guard, no text
can reach that path).
-/
import XehModel.Proofs.EncWords

set_option linter.unusedSimpArgs false

namespace Xeh.C18
open Xeh Prog Xeh.Enc

/-! ### the word table is what the theorems below talk about -/

theorem table_words :
    encWord "base32" = some (encodeWord base32Enc) ∧ encWord "base32>" = some (decodeWord base32Dec) ∧
    encWord "base32hex" = some (encodeWord base32hexEnc) ∧ encWord "base32hex>" = some (decodeWord base32hexDec) ∧
    encWord "base64" = some (encodeWord b64Encode) ∧ encWord "base64>" = some (decodeWord base64Dec) ∧
    encWord "zero85" = some (encodeWord z85Encode) ∧ encWord "zero85>" = some (decodeWord z85Guarded) := by
  simp [encWord, encTable, List.lookup]

/-! ### radix regrouping -/

/-- `k` big-endian digits in base `b` determine every number below `b^k` -/
theorem digits_roundtrip (b k n : Nat) (hn : n < b ^ k) : ofDigits b (toDigits b k n) = n := by
  rw [ofDigits_toDigits_mod, Nat.mod_eq_of_lt hn]

/-- … and every list of `k` digits is the digit list of its value -/
theorem digits_roundtrip_inv (b : Nat) (ds : List Nat) (hd : ∀ d ∈ ds, d < b) :
    toDigits b ds.length (ofDigits b ds) = ds :=
  toDigits_ofDigits b ds hd

/-! ### decode (encode bytes) = bytes, for every byte list (the crates' functions) -/

theorem base32_roundtrip (bytes : List Nat) (hb : ∀ x ∈ bytes, x < 256) :
    b32Decode rfcInv (b32Encode rfcAlphabet true bytes) = some bytes :=
  base32_roundtrip_fn bytes hb

theorem base32hex_roundtrip (bytes : List Nat) (hb : ∀ x ∈ bytes, x < 256) :
    b32Decode crockInv (b32Encode crockAlphabet false bytes) = some bytes :=
  base32hex_roundtrip_fn bytes hb

theorem base64_roundtrip (bytes : List Nat) (hb : ∀ x ∈ bytes, x < 256) :
    b64Decode (b64Encode bytes) = some bytes :=
  b64_roundtrip_fn bytes hb

/-- the crate alone … -/
theorem zero85_roundtrip (bytes : List Nat) (hb : ∀ x ∈ bytes, x < 256) :
    z85Decode (z85Encode bytes) = .bytes bytes :=
  z85_roundtrip_fn bytes hb

/-- … and behind xeh's guard (an encoder output never ends in a chunk of five `#`) -/
theorem zero85_roundtrip_guarded (bytes : List Nat) (hb : ∀ x ∈ bytes, x < 256) :
    z85Guarded (z85Encode bytes) = .bytes bytes :=
  z85_guarded_roundtrip_fn bytes hb

/-! ### the words: for EVERY operand that `>bitstr` turns into a whole number of bytes — string,
    vector of bytes / strings / bit-strings / nested vectors, bit-string — the encode word leaves a
    string and the decode word turns that string back into exactly the bits `>bitstr` yields -/

variable (c : Cell) (bits : List Bool) (s : List Cell) (h : Nat)

theorem base32_words_roundtrip (hc : bitstrConcat c = .ok bits) (hm : bits.length % 8 = 0) (hh : h ≤ s.length) :
    ∃ t, runStack (encodeWord base32Enc) h (c :: s) = .ok (.str t :: s) ∧
         runStack (decodeWord base32Dec) h (.str t :: s) = .ok (.bitstr bits :: s) :=
  words_roundtrip pair_base32 c bits hc hm s h hh

theorem base32hex_words_roundtrip (hc : bitstrConcat c = .ok bits) (hm : bits.length % 8 = 0) (hh : h ≤ s.length) :
    ∃ t, runStack (encodeWord base32hexEnc) h (c :: s) = .ok (.str t :: s) ∧
         runStack (decodeWord base32hexDec) h (.str t :: s) = .ok (.bitstr bits :: s) :=
  words_roundtrip pair_base32hex c bits hc hm s h hh

theorem base64_words_roundtrip (hc : bitstrConcat c = .ok bits) (hm : bits.length % 8 = 0) (hh : h ≤ s.length) :
    ∃ t, runStack (encodeWord b64Encode) h (c :: s) = .ok (.str t :: s) ∧
         runStack (decodeWord base64Dec) h (.str t :: s) = .ok (.bitstr bits :: s) :=
  words_roundtrip pair_base64 c bits hc hm s h hh

theorem zero85_words_roundtrip (hc : bitstrConcat c = .ok bits) (hm : bits.length % 8 = 0) (hh : h ≤ s.length) :
    ∃ t, runStack (encodeWord z85Encode) h (c :: s) = .ok (.str t :: s) ∧
         runStack (decodeWord z85Guarded) h (.str t :: s) = .ok (.bitstr bits :: s) :=
  words_roundtrip pair_zero85 c bits hc hm s h hh

/-- a bit-string operand that is a byte string (any alignment: the value level has no alignment) comes
    back unchanged -/
theorem bytes_words_roundtrip {enc : List Nat → List Nat} {dec : List Nat → Dec} (P : Pair enc dec)
    (bytes : List Nat) (_hb : ∀ x ∈ bytes, x < 256) (hh : h ≤ s.length) :
    ∃ t, runStack (encodeWord enc) h (.bitstr (bytesToBits bytes) :: s) = .ok (.str t :: s) ∧
         runStack (decodeWord dec) h (.str t :: s) = .ok (.bitstr (bytesToBits bytes) :: s) :=
  words_roundtrip P _ _ (by simp [bitstrConcat, Cell.value]) (by simp [bytesToBits_length]) s h hh

/-! ### what "valid in the alphabet" means for each decoder (bytes of the UTF-8 text) -/

theorem base32_valid_iff : ∀ b, b < 256 →
    ((b32Val rfcInv b).isSome = true ↔ (65 ≤ b ∧ b ≤ 90) ∨ (97 ≤ b ∧ b ≤ 122) ∨ (50 ≤ b ∧ b ≤ 55) ∨ b = 61) := by
  decide +kernel

/-- Crockford: digits, letters except `U`/`u` (`O`→0, `I`/`L`→1 accepted), no padding -/
theorem base32hex_valid_iff : ∀ b, b < 256 →
    ((b32Val crockInv b).isSome = true ↔
      (48 ≤ b ∧ b ≤ 57) ∨ (65 ≤ b ∧ b ≤ 90 ∧ b ≠ 85) ∨ (97 ≤ b ∧ b ≤ 122 ∧ b ≠ 117)) := by
  decide +kernel

theorem base64_valid_iff : ∀ b, b < 256 →
    ((b64Val b).isSome = true ↔ b ∈ b64Alphabet) := by
  decide +kernel

theorem zero85_valid_iff : ∀ b, b < 256 →
    ((z85Val b).isSome = true ↔ b ∈ z85Letters) := by
  decide +kernel

/-- the alphabets are injective and the decode tables invert them -/
theorem alphabets_inverted :
    (∀ d, d < 32 → b32Val rfcInv (alphaAt rfcAlphabet d) = some d) ∧
    (∀ d, d < 32 → b32Val crockInv (alphaAt crockAlphabet d) = some d) ∧
    (∀ d, d < 64 → b64Val (alphaAt b64Alphabet d) = some d) ∧
    (∀ d, d < 85 → z85Val (alphaAt z85Letters d) = some d) :=
  ⟨rfc_ok.val, crock_ok.val, fun d hd => (b64_alpha d hd).1, fun d hd => (z85_alpha d hd).1⟩

/-! ### invalid text decodes to nil: a byte outside alphabet ∪ padding anywhere in the string -/

variable (t : List Char)

theorem base32_invalid_is_nil (hc : c.toStr = .ok t) (hbad : ∃ b ∈ utf8Bytes t, b32Val rfcInv b = none)
    (hh : h ≤ s.length) : runStack (decodeWord base32Dec) h (c :: s) = .ok (.nil :: s) :=
  decode_invalid_nil _ c t hc (by simp [base32Dec, b32Decode_invalid rfcInv _ hbad, Dec.ofOption]) s h hh

theorem base32hex_invalid_is_nil (hc : c.toStr = .ok t) (hbad : ∃ b ∈ utf8Bytes t, b32Val crockInv b = none)
    (hh : h ≤ s.length) : runStack (decodeWord base32hexDec) h (c :: s) = .ok (.nil :: s) :=
  decode_invalid_nil _ c t hc (by simp [base32hexDec, b32Decode_invalid crockInv _ hbad, Dec.ofOption]) s h hh

theorem base64_invalid_is_nil (hc : c.toStr = .ok t) (hbad : ∃ b ∈ utf8Bytes t, b64Val b = none ∧ b ≠ 61)
    (hh : h ≤ s.length) : runStack (decodeWord base64Dec) h (c :: s) = .ok (.nil :: s) :=
  decode_invalid_nil _ c t hc (by simp [base64Dec, b64Decode_invalid _ hbad, Dec.ofOption]) s h hh

theorem zero85_invalid_is_nil (hc : c.toStr = .ok t) (hbad : ∃ b ∈ utf8Bytes t, z85Val b = none)
    (hh : h ≤ s.length) : runStack (decodeWord z85Guarded) h (c :: s) = .ok (.nil :: s) :=
  decode_invalid_nil _ c t hc (z85Guarded_invalid _ hbad) s h hh

/-! ### a decode word given a string never fails and never panics: nil or a bit-string of whole bytes,
    nothing else on the stack touched -/

theorem base32_decode_total (hc : c.toStr = .ok t) (hh : h ≤ s.length) :
    runStack (decodeWord base32Dec) h (c :: s) = .ok (.nil :: s) ∨
    ∃ l, base32Dec (utf8Bytes t) = .bytes l ∧
      runStack (decodeWord base32Dec) h (c :: s) = .ok (.bitstr (bytesToBits l) :: s) :=
  decode_total _ (by intro d p; unfold base32Dec; cases b32Decode rfcInv d <;> simp [Dec.ofOption]) c t hc s h hh

theorem base32hex_decode_total (hc : c.toStr = .ok t) (hh : h ≤ s.length) :
    runStack (decodeWord base32hexDec) h (c :: s) = .ok (.nil :: s) ∨
    ∃ l, base32hexDec (utf8Bytes t) = .bytes l ∧
      runStack (decodeWord base32hexDec) h (c :: s) = .ok (.bitstr (bytesToBits l) :: s) :=
  decode_total _ (by intro d p; unfold base32hexDec; cases b32Decode crockInv d <;> simp [Dec.ofOption]) c t hc s h hh

theorem base64_decode_total (hc : c.toStr = .ok t) (hh : h ≤ s.length) :
    runStack (decodeWord base64Dec) h (c :: s) = .ok (.nil :: s) ∨
    ∃ l, base64Dec (utf8Bytes t) = .bytes l ∧
      runStack (decodeWord base64Dec) h (c :: s) = .ok (.bitstr (bytesToBits l) :: s) :=
  decode_total _ (by intro d p; unfold base64Dec; cases b64Decode d <;> simp [Dec.ofOption]) c t hc s h hh

theorem zero85_decode_total (hc : c.toStr = .ok t) (hh : h ≤ s.length) :
    runStack (decodeWord z85Guarded) h (c :: s) = .ok (.nil :: s) ∨
    ∃ l, z85Guarded (utf8Bytes t) = .bytes l ∧
      runStack (decodeWord z85Guarded) h (c :: s) = .ok (.bitstr (bytesToBits l) :: s) :=
  decode_total _ z85Guarded_no_panic c t hc s h hh

/-- the crate by itself panics on a last chunk of five padding marks (C18 finding, repaired in the glue) -/
theorem z85_crate_panics : z85Decode [35, 35, 35, 35, 35] = .panic "z85 decode_tail: diff = 5" := by decide

/-- with the guard of `zero85_decode_res` no text at all reaches that path -/
theorem zero85_decode_never_panics (data : List Nat) (p : String) : z85Guarded data ≠ .panic p :=
  z85Guarded_no_panic data p

/-- the glue answers nil — not a type error, not a stack underflow — for a non-string operand and for
    an empty visible stack (`if let Ok(..) = decode2(xs) … else push NIL` swallows every failure) -/
theorem decode_words_swallow_failures (dec : List Nat → Dec) :
    (∀ e, c.toStr = .err e → h ≤ s.length → runStack (decodeWord dec) h (c :: s) = .ok (.nil :: s)) ∧
    runStack (decodeWord dec) s.length s = .ok (.nil :: s) :=
  ⟨fun e he hh => decode_nonstring_nil dec c e he s h hh, decode_empty_nil dec s⟩

/-! ### encoding accepts the same inputs as `>bitstr` (plus: a whole number of bytes) -/

/-- for every encoder of the table, every operand, every error: the encoder fails with `e` exactly when
    `>bitstr` fails with `e`, or `>bitstr` succeeds with a bit length that is not a multiple of 8 and
    `e` is ToBytestrError -/
theorem encode_accepts_like_bitstr (enc : List Nat → List Nat) (hh : h ≤ s.length) (e : Xerr) :
    runStack (encodeWord enc) h (c :: s) = .err e ↔
      (runStack wordIntoBitstr h (c :: s) = .err e ∨
       ∃ bits, runStack wordIntoBitstr h (c :: s) = .ok (.bitstr bits :: s) ∧ bits.length % 8 ≠ 0 ∧
         e = .toBytestrError) :=
  encode_fails_iff enc c s h hh e

/-- neither word panics; when `>bitstr` yields whole bytes the encoder yields the text of exactly those
    bytes -/
theorem encode_accepts_value (enc : List Nat → List Nat) (hh : h ≤ s.length) :
    (∀ bits, runStack wordIntoBitstr h (c :: s) = .ok (.bitstr bits :: s) → bits.length % 8 = 0 →
      runStack (encodeWord enc) h (c :: s) = .ok (.str (asciiStr (enc (bitsToBytes bits))) :: s)) ∧
    (∀ p, runStack wordIntoBitstr h (c :: s) ≠ .panic p ∧ runStack (encodeWord enc) h (c :: s) ≠ .panic p) :=
  ⟨fun bits hb hm => ((encode_accepts enc c s h hh).2.1 bits hb).1 hm, (encode_accepts enc c s h hh).2.2⟩

/-- `>bitstr` on an empty visible stack, and every encoder likewise: StackUnderflow -/
theorem encode_empty_stack (enc : List Nat → List Nat) :
    runStack (encodeWord enc) s.length s = .err .stackUnderflow ∧
    runStack wordIntoBitstr s.length s = .err .stackUnderflow := by
  constructor <;> (cases s <;> simp [encodeWord, wordIntoBitstr, runStack])

/-! ### non-vacuity: concrete instances meeting the hypotheses -/

-- the repository's own test vectors, through the model
example : b32Encode rfcAlphabet true [0x41, 0x31] = utf8Bytes "IEYQ====".toList := by decide
example : b32Encode crockAlphabet false [0x41, 0x31] = utf8Bytes "84RG".toList := by decide
example : b64Encode [0x41, 0x31] = utf8Bytes "QTE=".toList := by decide
example : z85Encode [0x86, 0x4F, 0xD2, 0x6F, 0xB5, 0x59, 0xF7, 0x5B] = utf8Bytes "HelloWorld".toList := by decide
-- a tail chunk: three bytes → one `#` + four letters, and back
example : z85Guarded (z85Encode [1, 2, 3]) = .bytes [1, 2, 3] := by decide
-- a mixed, nested, partly tagged vector is an operand `>bitstr` accepts with whole bytes
example : bitstrConcat (.vec (.cons (.str ['X']) (.cons (.vec (.cons (.int 0x1a) (.cons (.tagged (.bitstr [false, false, true, true]) .nil)
    (.cons (.bitstr [false, false, false, false]) .nil)))) .nil))) =
    .ok (bytesToBits [88, 0x1a, 0x30]) := by decide
-- invalid text: a back-quote is outside every alphabet
example : ∃ b ∈ utf8Bytes "``".toList, b32Val rfcInv b = none := ⟨96, by decide, by decide⟩
example : ∃ b ∈ utf8Bytes "JTK``".toList, z85Val b = none := ⟨96, by decide, by decide⟩
-- an operand that `>bitstr` rejects, and one with a bit length that is not a multiple of 8
example : bitstrConcat (.vec (.cons (.int 256) .nil)) = .err .integerOverflow := by decide
example : runStack (encodeWord b64Encode) 0 [.bitstr [true, false, true]] = .err .toBytestrError := by decide

end Xeh.C18
