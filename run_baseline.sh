#!/bin/sh
# Runs the repository's pinned test suite with the verification guard OFF (default features).
cd /repo && CARGO_NET_OFFLINE=true cargo test --workspace --no-fail-fast --offline 2>&1 | tail -15
