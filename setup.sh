#!/bin/sh
# Build the framework from files on disk only (offline).
set -e
cd /verif
export CARGO_NET_OFFLINE=true
[ -f tools/extract.py ] && python3 tools/extract.py || true
(cd lean && lake build 2>&1 | tail -3)
cp /repo/Cargo.lock harness/Cargo.lock
(cd harness && cargo build --offline --quiet 2>&1 | grep -v "^warning\|^  \|^$\|= note\|^help" | tail -5; cargo build --offline --quiet --release 2>&1 | grep -v "^warning\|^  \|^$\|= note\|^help" | tail -5)
echo setup done
