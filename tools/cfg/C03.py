CFG = {
    "n_quick": 400, "n_thorough": 40000,
    "release_too": False,
    "extra_modules": ["XehModel.Proofs.LeafBridge"],
    "extra_theorems": ["Xeh.LeafBridge.mutation_sites_match", "Xeh.LeafBridge.runtime_mutations_only_in_primitives"],
    "rule": "histories over a pool of interpreter copies (up to 12-20 operations): evaluate a source on one copy (generated programs, definitions, variable stores, vector/map updates, bit-string appends/inverts/slices on values shared between copies, late-bound words, output), clone (also clone of clone), drop, step/reverse-step a compiled program; 15% of histories load the d2 plugin (host objects). After every operation the canonical dump (stacks, frames, loops, heap with tags, variables, stdout, code/dict/debug-map lengths, host-object pixels) of every other copy must be unchanged; at the end two snapshots of one copy are given the same three sources, with unrelated activity on the origin in between, and must agree on results and dumps. Each evaluated source also goes to the model as a `C03 eval` request on the pre-operation machine. Non-trivial = a request whose source ran (not a build error); distinct = distinct request lines",
    "nontrivial": lambda op, imp: not imp.startswith("builderr"),
    "trusted_base_extra": ["PARTIAL: in the model interpreter states are immutable values; Rust-level aliasing (Rc, RefCell, rpds sharing) is reached only by the exploration"],
    "assumptions": ["sources exclude random, random-bits, read-all, write-all, exec-piped, include/require", "bit-string cursor words and printing words are outside the VM word table: their correspondence answers `unsupported` (counted as outside_model); they are still exercised by the implementation-side independence oracle"],
    "manifest": {
        "level": "proof",
        "text": "PARTIAL. Lean theorems (Props/C03.lean): the only storage two clones can both reach and the core can mutate is a bit-string buffer; on the reference-counted buffer-heap model no range operation, clone, drop or detach on one handle changes the bits another handle denotes (shared_buffer_reads_isolated, shared_buffer_detach_isolated), every in-place write goes through detach; rerun_deterministic: machines that agree on what a program can observe execute the same steps and agree after each one (all programs, all step counts). What no executable model can exhibit (deep Vec::clone, persistent rpds updates, absence of shared RefCells) is covered by exploration: histories over clone trees with adversarial sharing, dump of every other copy compared after every operation, snapshot/origin replay. Known finding reported and suppressed by signature only: host objects (Cell::AnyRc, d2 canvas) are shared by clone.",
        "note": "Partial by nature (stated in DESIGN §9 C03): isolation of append/insert/invert themselves is validated by C04's correspondence and oracle, not yet a theorem; the exploration is search, not proof.",
        "technique": "Lean 4 proof on a reference-counted buffer-heap model + VM determinism theorem; exploration of clone histories with a cross-copy dump oracle",
    },
}
