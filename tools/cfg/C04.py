CFG = {
    "extra_theorems": ["Xeh.LeafBridge.cutBits_matches_source", "Xeh.LeafBridge.cutBitsVal_bits", "Xeh.LeafBridge.bitMask_matches_source", "Xeh.LeafBridge.upperBoundIndex_matches_source"],
    "extra_modules": ["XehModel.Proofs.Leaf.Bits"],
    "n_quick": 5000, "n_thorough": 200000,
    "rule": "operation sequences (3..17 ops) over a pool of handles built by the histories fresh / slice with parent alive / slice with parent dropped / borrowed static (+slice) / result of append / result of invert / from_hex_str / from_bin_str; start and end alignments uniform over 0..7, lengths 0..320 bits with 127/128/129 forced; ~12 % of the position/length arguments malformed (out of range, usize::MAX, start>end); after EVERY operation the result and (start, len, bits) of EVERY live handle are compared with the model and with an independent Vec<bool> reference; plus direct representation independence: the same logical value at 8 alignments x 6 ownership situations must answer all 12 queries and all combining/consuming operations identically (thorough: exhaustive over lengths 0..24 x alignments x situations). A case = one sequence; distinct = distinct request lines"
        " Added after the fourth campaign: two views of ONE buffer holding the same bits at different places (and a third differing in one bit) compared with ==, eq_with and Cell equality; every eq of the sequences checks == against eq_with."
        " Added after the sixth campaign: the C API's byte export (xeh_bitstr_bytes / xeh_bitstr_len on a value popped bare, tagged, or out of a vector) for every variant of every value: the value's bytes or NULL, never freed memory.",
    "trusted_base_extra": [
        "heap model of Rc<Cow<'static,[u8]>>: strong counts, Rc::make_mut and Cow::to_mut are modelled by hand (Model/Bitstr.lean) and validated by the correspondence through the observable start() after detach/append/invert",
        "iterators are collected eagerly in the model (Rust's are lazy); the two agree on well-formed values, where no element access panics",
    ],
    "assumptions": [
        "bit-strings shorter than 2^32 bits; allocation failure not modelled",
        "slice() / is_u8_slice() are zero-copy accessors that are alignment-dependent BY CONTRACT (None unless byte aligned and byte multiple); the oracle checks their Some-ness against start()%8 and their content against the bit sequence",
        "seek/substr take absolute positions and start()/end() are public, so the offset is observable by design; the specification is stated relative to start()",
    ],
    "nontrivial": lambda op, imp: "panic" not in imp and op.count(";") >= 2,
    "manifest": {
        "level": "proof",
        "text": "Lean 4 refinement theorems (Props/C04.lean) over a representation-level model of bitstr.rs (buffer heap with reference counts and borrowed/owned flag, handles {start,end,buf}): for every heap and every well-formed handle — any start offset, any slack and stale bits after the end, borrowed or owned, shared or unique — each operation returns exactly what the plain List Bool operation returns and does not panic. Byte-level facts about cut_bits are a finite table (18 432 cases, decide +kernel) lifted by induction over chunks. The model is tied to /repo by differential execution of operation sequences over handle pools (state of every live handle compared after every operation) and an independent Vec<bool> oracle plus direct representation-independence checks on the implementation.",
        "note": "PROVED (Props/C04.lean, all heaps/offsets/ownership): iter8, bits, seek, peek, substr, read, split_at, detach (incl. the unique-owner and packed-copy paths), eq_with (byte-slice fast path and iter8 path), to_bytes, to_bytes_with_padding, bytestr, slice, to_hex_string, append (byte-aligned fast path and bit loop, after truncate+mask of the slack bits), insert (valid and out-of-range index), invert, from_hex_str and BitvecBuilder::from_bin_str against the list-level parsers (same bits, same error position); isolation of every other handle for seek/peek/substr/read/split_at/clone/drop/detach and, through the `Frame` of the heap, for append/insert/invert (in-place mutation only when the count is 1). Byte-level facts are finite tables (cut_bits 18 432 cases, or/xor/mask/nibble tables, decide +kernel) lifted by induction. Trusted: Lean kernel; axioms within {propext, Classical.choice, Quot.sound}; hand-written heap model of Rc/Cow validated by correspondence; iterators collected eagerly in the model; lengths < 2^32 bits. slice()/is_u8_slice() are alignment-dependent by contract; seek/substr positions are absolute by design.",
        "technique": "Lean 4 proof over executable model + differential correspondence with the Rust implementation",
    },
}
