CFG = {
    "n_quick": 20000, "n_thorough": 400000,
    "rule": "every width 1..128 x both byte orders x {0, 1, -1, 2^w-1, max/min signed, 2^(w-1), single-bit values, random i128 (values wider than the field included)}: Bitstr::from_int then to_uint/to_int with the field embedded at each of the 8 bit offsets of a larger buffer with random or all-ones surroundings (oracle: all 8 offsets; correspondence lines: all 8 offsets for the first values of each cell, 2 random offsets for the rest; thorough: all offsets, every single-bit value, 40 random values per cell); the language words uN/iN/int/uint and their ! packers (generic and fixed-width, default and explicit order) through eval for every width x order x signedness; widths 0 and 129..300 for model faithfulness only; f32/f64 bit patterns incl. signalling/quiet NaN payloads, infinities, subnormals through Bitstr::from_fNN/to_fNN (bit-exact) and through fN!/fN/float!/float (NaNs compared as a class there). distinct = distinct request lines",
    "trusted_base_extra": [
        "f32<->f64 conversion inside the words f32!/f32 is Model/SoftFloat.lean's correctly-rounded re-encoding, validated against the hardware by the correspondence, not proved against an IEEE formalisation; signalling-NaN quieting by `as` is not modelled (NaNs compared as a class on the word path only)",
        "the word layer of Driver/C05.lean (which word means which width/order/signedness, the 127/128-bit range checks of read_unsigned/read_signed) is hand-written and validated by correspondence only",
    ],
    "assumptions": [
        "bit-strings shorter than 2^32 bits",
        "the property's width range is 1..=128; from_int for wider fields (i128::wrapping_shr masks the shift count) is modelled and compared but carries no oracle",
        "the word `uint` refuses 128-bit fields with IntegerOverflow (the language integer is i128): treated as the specified behaviour of the word, the API-level to_uint is exact for 128 bits",
    ],
    "nontrivial": lambda op, imp: not imp.startswith("err") and "panic" not in imp,
    "manifest": {
        "level": "proof",
        "text": "Lean 4 theorems (Props/C05.lean) over the representation-level model of bitstr.rs: big-endian to_uint equals the MSB-first value of the denoted bit sequence and little-endian to_uint equals the byte-group value counted from the value's first bit, for every heap, offset, slack and ownership situation (hence offset independence).",
        "note": "PLACEHOLDER-NOTE",
        "technique": "Lean 4 proof over executable model + differential correspondence with the Rust implementation",
    },
}
