CFG = {
    "extra_theorems": ["Xeh.LeafBridge.cutBits_matches_source", "Xeh.LeafBridge.bitMask_matches_source", "Xeh.LeafBridge.upperBoundIndex_matches_source", "Xeh.LeafBridge.data_words_match"],
    "extra_modules": ["XehModel.Proofs.Leaf.Bits", "XehModel.Proofs.Tables.Data"],
    "n_quick": 20000, "n_thorough": 400000,
    "rule": "every width 1..128 x both byte orders x {0, 1, -1, 2^w-1, max/min signed, 2^(w-1), single-bit values, random i128 (values wider than the field included)}: Bitstr::from_int then to_uint/to_int with the field embedded at each of the 8 bit offsets of a larger buffer with random or all-ones surroundings (oracle: all 8 offsets; correspondence lines: all 8 offsets for the first values of each cell, 2 random offsets for the rest; thorough: all offsets, every single-bit value, 40 random values per cell); the language words uN/iN/int/uint and their ! packers (generic and fixed-width, default and explicit order) through eval for every width x order x signedness; widths 0 and 129..300 for model faithfulness only; f32/f64 bit patterns incl. signalling/quiet NaN payloads, infinities, subnormals through Bitstr::from_fNN/to_fNN (bit-exact) and through fN!/fN/float!/float (NaNs compared as a class there). distinct = distinct request lines"
        " Added after the sixth campaign: the words that name their byte order (u16le! … i64be, f32le! …) under both selected orders, packing under one and reading under the other.",
    "trusted_base_extra": [
        "f32<->f64 conversion inside the words f32!/f32 is Model/SoftFloat.lean's correctly-rounded re-encoding, validated against the hardware by the correspondence, not proved against an IEEE formalisation; signalling-NaN quieting by `as` is not modelled (NaNs compared as a class on the word path only)",
        "the word layer of Driver/C05.lean (which word means which width/order/signedness, the 127/128-bit range checks of read_unsigned/read_signed) is hand-written and validated by correspondence only",
    ],
    "assumptions": [
        "bit-strings shorter than 2^32 bits",
        "the property's width range is 1..=128; from_int for wider fields (i128::wrapping_shr masks the shift count) is modelled and compared but carries no oracle",
        "the word `uint` refuses 128-bit fields with IntegerOverflow (the language integer is i128): treated as the specified behaviour of the word, the API-level to_uint is exact for 128 bits",
    ],
    "nontrivial": lambda op, imp: not imp.startswith("err") and "panic" not in imp,
    "manifest": {
        "level": "proof",
        "text": "Lean 4 theorems (Props/C05.lean) over the representation-level model of bitstr.rs: big-endian to_uint equals the MSB-first value of the denoted bit sequence and little-endian to_uint equals the byte-group value counted from the value's first bit, for every heap, offset, slack and ownership situation (hence offset independence); to_int is the two's-complement reading for every width 1..128; from_int then to_uint returns the value mod 2^n and to_int its sign extension for EVERY Int value, every width up to 128 and both orders (identity inside the signed range); byte-multiple widths produce the standard little/big-endian byte lists; f32/f64 bit patterns round-trip exactly and float decoding depends on the bit sequence only. Tied to /repo by differential execution (every width x order x boundary/random values x 8 offsets, through the Bitstr API and through the language words) and an implementation-side oracle using Rust's to_le_bytes/to_be_bytes/from_*_bytes.",
        "note": "PROVED: toUint_be, toUint_le (+ exact for len <= 128), toUint/toInt/toFloat offset independence, toInt_spec, fromInt_wf, fromInt_bits_be, fromInt_toUint, fromInt_toInt, sext_mod_id, byte_layout_le/be, f32/f64_bits_roundtrip. VALIDATED ONLY: the language words (uN iN int uint fN float and the ! packers: thin layer in Driver/C05.lean), f64<->f32 conversion inside f32!/f32 (SoftFloat re-encoding vs hardware; NaNs compared as a class on that path; Bitstr::from_f32/to_f32 are bit-exact and proved). Out of the property's range and only compared, not proved: widths > 128 (i128::wrapping_shr masks the shift count, so from_int repeats low bytes there). Trusted: Lean kernel; axioms within {propext, Classical.choice, Quot.sound}; hand-written model validated by correspondence; lengths < 2^32 bits.",
        "technique": "Lean 4 proof over executable model + differential correspondence with the Rust implementation",
    },
}
