CFG = {
    "extra_theorems": ["Xeh.LeafBridge.cutBits_matches_source", "Xeh.LeafBridge.data_words_match", "Xeh.LeafBridge.range_ops_match_source"],
    "extra_modules": ["XehModel.Proofs.Leaf.Bits", "XehModel.Proofs.Tables.Data", "XehModel.Proofs.Tables.RangeOps"],
    "n_quick": 4000, "n_thorough": 400000,
    "rule": "sequences of 3..20 words — parsing words (bits bytes uN/iN/fN(+le/be) uint int float magic seek find remain nulbytestr cstr open-bitstr close-bitstr big little offset input) with ~10 % construction words mixed in (bitstr-append >bitstr emit output output-length uN!/iN!/fN!(+le/be) int! float!, output interception on) — run word by word with Xstate::eval on one booted interpreter, followed by close-bitstr until it fails; inputs are slices of longer buffers (start alignment 0..18, any end alignment, lengths 0..330 incl. 127/128/129); size arguments from {in-range, end-exact, end+1, 2^31, 2^61±1, 2^63, 2^64-8, 2^64-1, 2^64, 2^64+1, 2^126, i128::MAX, negative, wrong type, missing}; one PRNG seed; a sequence is non-trivial when at least one word succeeded and at least one failed or moved the offset; distinct = distinct request lines"
        " Added after the fourth campaign: 30 % of the open-bitstr steps go through the API (set_binary_input); ~6 % of the words run with the stack limit set just at / just above what the stack holds once the word has taken its arguments (tokens L=<n> … L=-; the cursor model carries the limit), plus an implementation-only oracle stream of reads refused by the stack limit (nothing moves; the same read succeeds once the limit is raised)."
        " Added after the sixth campaign: magics of 129…435 bits (not whole bytes, any alignment) that differ from the input in their first bit, around bit len−128, or in the last bit, and equal ones; whole-byte magics that are slices starting at bit k matched at a cursor that is at bit k of a byte, k = 0..7.",
    "nontrivial": lambda op, imp: (" | ok " in (" | " + imp)) and ("err:" in imp or " | ok 0 " not in (" | " + imp)),
    "trusted_base_extra": [
        "the cursor is modelled at the specification level over bit lists; the absolute buffer position of an input (`start()`, observable through offset/seek/find) is an environment parameter the harness reads from the implementation when a bit-string is opened; representation independence of bit-strings is C04/C05",
        "f32<->f64 conversion of the read words uses Model/SoftFloat.lean; NaNs are compared as a class",
    ],
    "assumptions": [
        "words are evaluated one per Xstate::eval call on a booted interpreter; arguments enter through push_data",
        "the variables input/offset/big? are changed only by the modelled words (no direct `!` on them)",
        "debug profile (overflow checks on); the thorough tier also runs the release profile",
        "int!/uint! are never given a width above 4096 bits (histogram tag skipped:int!-huge-width): Bitstr::from_int allocates width/8 bytes up front and a failed allocation aborts the process — a requested allocation size, excluded by C08's precondition (coordinator decision; `1 18446744073709551615 int!` is the witness)",
    ],
    "manifest": {
        "level": "proof",
        "text": "Lean 4 theorems (Props/C06.lean) over the executable model of the parsing cursor (Model/Cursor.lean, every parsing word of bitstr_ext.rs with explicit usize arithmetic): invariant offset-inside-input preserved by every word for arbitrary arguments, remain = end - offset, a successful read of n bits returns bits [offset, offset+n) and advances by exactly n with the rest of the stack untouched, every failing word leaves input/offset/stash untouched and the stack minus its own popped arguments, open/close restore input and offset in LIFO order for every balanced sequence. Tied to /repo by differential execution of word sequences (offset, remain, input and stack compared after every word) and an independent reference-cursor oracle in the harness.",
        "note": "Trusted: Lean kernel; axioms ⊆ {propext, Classical.choice, Quot.sound}; hand-written model validated by correspondence; bit-strings are bit lists at this level (buffer layout is C04/C05); the buffer position of an opened input is an environment parameter.",
        "technique": "Lean 4 proof over executable model + differential correspondence with the Rust implementation",
    },
}
