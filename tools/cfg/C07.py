CFG = {
    "extra_theorems": ["Xeh.LeafBridge.data_words_match", "Xeh.LeafBridge.range_ops_match_source"],
    "extra_modules": ["XehModel.Proofs.Tables.Data", "XehModel.Proofs.Tables.RangeOps"],
    "n_quick": 3000, "n_thorough": 100000,
    "rule": "exhaustive small scope first: every integer width 1..128 × signedness × byte order × start alignment 0..7 (one rotating boundary value per cell in the quick tier, ten in the thorough tier; fixed-width word forms for 8/16/32/64); then generated records of 0..12 typed fields (integers of every width 1..128 signed/unsigned in both byte orders through int!/uint! and the fixed-width uN!/iN!(le/be) words, f32/f64, raw bit-strings of any length, UTF-8 strings, byte lists, NUL-terminated byte strings; ~15 % records with one out-of-domain field), packed into a vector (35 % with a run of pieces wrapped into a nested vector) + >bitstr, parsed back with the matching read words, and emitted group by group for every single split position plus one random multi-split with output interception on; one PRNG seed; a case is non-trivial when the record has at least two fields; distinct = distinct request lines"
        " Added after the fourth campaign: the byte order the first read relies on is selected before the input is opened and an order word is only given where the order changes."
        " Added after the sixth campaign: every third record is parsed as a slice of a longer input (the packed bits cut out of a buffer with other bits before and behind them, as `bits` hands out a nested record).",
    "nontrivial": lambda op, imp: len(op.split(" /")[0].split()) >= 3,
    "trusted_base_extra": [
        "bit-strings are bit lists at this level (append/flatten at the buffer level is C04); number<->bits at the buffer level is C05; here from_int/to_uint are the list-level functions of Model/CursorBits.lean",
        "f64->f32->f64 reduction uses Model/SoftFloat.lean; NaNs are compared as a class in the correspondence (the oracle checks f64 fields bit-exactly)",
    ],
    "assumptions": [
        "pieces are collected into a vector through the Rust API (Xvec) instead of the `[ ]` words; every construction/parsing word runs through Xstate::eval",
        "int!/uint! are never given a width above 4096 bits (malformed widths stop at 300): Bitstr::from_int allocates width/8 bytes up front and a failed allocation aborts the process — a requested allocation size, excluded by C08's precondition (coordinator decision; `1 18446744073709551615 int!` is the witness)",
        "a NUL-terminated field is inside the round-trip domain only where the rest of the record is a whole number of bytes: cstr/nulbytestr refuse (ToBytestrError) unless the whole remaining input is a multiple of 8 bits (RecOk in Props/C07.lean says the same); records violating this are generated and compared with the model but not claimed",
    ],
    "manifest": {
        "level": "proof",
        "text": "Lean 4 theorems (Props/C07.lean) over the executable model of the construction words (uN!/iN!/int!/uint!/fN!/float!, >bitstr flattening, bitstr-append, emit/output/output-length): the packed record has length = sum of the field widths; parsing it with the matching read words returns every value reduced to its width, in order, and ends with remain = 0 (pack_parse_inverse), for every field list including byte-order switches so that fields start at every bit alignment; with interception on, output is the concatenation and output-length the total for every split of the field list across emit calls. Tied to /repo by differential execution of pack + parse + emit programs and an oracle using Rust's own integer/float byte layouts.",
        "note": "Trusted: Lean kernel; axioms ⊆ {propext, Classical.choice, Quot.sound}; hand-written model validated by correspondence; f32 rounding defined by Model/SoftFloat.lean (validated against hardware on every run); bit-string buffers abstracted to bit lists (C04/C05 cover the buffer level).",
        "technique": "Lean 4 proof over executable model + differential correspondence with the Rust implementation",
    },
}
