CFG = {
    "extra_theorems": ["Xeh.LeafBridge.arith_table_matches", "Xeh.LeafBridge.arith_words_registered", "Xeh.LeafBridge.arith_words_modelled"],
    "extra_modules": ["XehModel.Proofs.Tables.Arith"],
    "n_quick": 30000, "n_thorough": 1500000,
    "rule": "boundary×boundary integer pairs for every binary word, shift counts -2..130, every unary word on every boundary int/real, boundary real pairs, then random operand tuples over all operand-type combinations (one PRNG seed); a case is non-trivial when it is not a bare stack underflow; distinct = distinct request lines",
    "trusted_base_extra": ["Model/SoftFloat.lean defines IEEE-754 binary64 operations as exact-rational-then-round-to-nearest-even; it is validated against the hardware FPU (through Rust) by the correspondence on every run, not proved against an external IEEE formalisation", "NaN payloads are not modelled (NaNs compared as a class)"],
    "assumptions": ["operands are pushed through the public push_data API and the word is evaluated with Xstate::eval on a clone of a booted interpreter", "comparisons on NaN operands are excluded from the oracle (left unspecified by the property)"],
    "manifest": {
        "level": "proof",
        "text": "Lean 4 theorems (Props/C09.lean) over the executable model of arith.rs: + - * exact-or-wrapped for all i128 pairs, truncating / with DivisionByZero and the single overflow case characterised (div_overflow_iff), rem with the dividend's sign, neg/abs overflow, min/max/six comparisons against Int order, band/bor/bxor bit-by-bit in two's complement, bnot, bsl/bsr for counts 0..127, zero?/positive?/negative?, real-operand dispatch to the modelled IEEE operation, saturating >int, and for EVERY word of the table and EVERY stack: no panic and a type error quotes one of the two top cells. The model is tied to /repo by differential execution (≈57k cases quick) and an independent implementation-side oracle using Rust's checked i128 arithmetic and the hardware FPU.",
        "note": "Trusted: Lean kernel; axioms ⊆ {propext, Classical.choice, Quot.sound}; hand-written model validated by correspondence; IEEE-754 results are defined by Model/SoftFloat.lean (exact rational + round-to-nearest-even) and validated against the hardware on every run, not proved against an external IEEE formalisation; NaN payloads not modelled; `random` outside the model.",
        "technique": "Lean 4 proof over executable model + differential correspondence with the Rust implementation",
    },
}
