CFG = {
    "extra_modules": ["XehModel.Proofs.Leaf.Literals"],
    "extra_theorems": ["Xeh.LeafBridge.loadI64_guard_matches_source", "Xeh.LeafBridge.loadI64_payload_matches_source"],
    "n_quick": 3000, "n_thorough": 300000,
    "rule": "(B) every dictionary word from word_list() at run time (170 after excluding the five tag words, print println .s concat join str>number newline emit, random random-bits read-all write-all exec-piped include require exit dump dump-at see and all immediate words), arity 0..3, operand tuples from typed shapes (70 %) or arbitrary values, every single argument position tagged and all positions tagged, tags = plain / #fmt / empty tag map / tags on tags, applied down to nesting depth 3 (elements, map keys and values); a 64-byte binary input is installed so the reading words succeed; (A) n typed cases over the modelled words (arith.rs, collection words, type predicates) sent to the model once untagged and once tagged; (C) the tag words: insert-tag/get-tag/remove-tag/tags/with-tags laws on values of every type. Relation checked: same success/failure (same error variant) and result stacks `==` (tag-blind equality; NaN / host objects compared after stripping). Distinct = distinct request lines."
        " Added after the fourth campaign: copies_and_case — selector / candidate / both tagged against neither over `dup equal?`, variables read twice, locals, vectors and maps of copies and `case … of` in both roles, with NaN and values holding one; the C host's view (xeh_is_*, lengths, xeh_vector_at) of tagged against untagged values."
        " Added after the fifth campaign: the formatting words keep every other tag; offset/input/remain carry no tags after a seek with a tagged argument; the generated tag maps include the tags the read words attach (big, len)."
        " Added after the sixth campaign: insert-tag of a value equal to the stored one but differently tagged (get-tag gives back exactly what was inserted last); tagged numbers stored in the variables that words consult (`big?`, `offset`) select what the bare number selects."
        " Tagged values inlined by the compiler (block results, constants) answer `tags` / `get-tag` / print like the value computed in place.",
    "trusted_base_extra": [
        "tag-blindness is proved as equality after recursive untagging (`strip`), which implies `equal?` of results except on NaN / host objects",
        "NaN payloads are compared as a class for arithmetic words (as in C09)",
    ],
    "assumptions": [
        "tags never nest directly (with_tags stores value()): hypothesis StackWF of tag_blind",
        "tag maps and map arguments are generated with keys of one comparable class (ints or strings); other key mixes are the C12 known finding",
        "dictionary oracle: for words outside the modelled arith/collection tables every integer operand is clamped to |i| <= 4096, because a width/size operand such as `1 4723101305825007081 int!` is a requested allocation of that many bits and aborts the process (excluded by C08's precondition on allocation sizes); modelled words get the full i128 boundary set",
        "words outside the model (bit-string, cursor, encoding words …) are covered by the implementation-side oracle only",
    ],
    "manifest": {
        "level": "proof",
        "text": "Lean 4 theorems (Props/C13.lean) over the executable model: tag_blind_arith / tag_blind_coll — for EVERY word of arith.rs and every collection / type-predicate word except the printing words concat join and the tag words, and for EVERY well-formed stack, the run on the stack and on its recursively untagged copy agree on success/failure, on the error variant and payload up to tags, and on the results after untagging (tag_blind: any two taggings of the same stack); fresh_untagged_arith / fresh_untagged_coll — every computing word pushes an untagged result (listed exceptions >real >int get nth unbox, shown to be real by fresh_untagged_exceptions); tags_map_laws — value unchanged by with-tags / insert-tag / remove-tag, tags/with-tags round trip, word = map operation, get-tag∘insert-tag (same / other key) and get-tag∘remove-tag under the KeysComparable guard. Tie: differential execution of the same request tagged / untagged (~18k lines quick) + the metamorphic oracle over all 170 eligible dictionary words × argument positions (~36k checks quick).",
        "note": "Stack words (dup drop swap rot over depth), I J K, equal? assert assert-eq are modelled in Model/Words.lean by another slice and not covered by tag_blind here; words outside the model are covered by the oracle only. The get-tag laws are _partial under the C12 guard because a tag map is an Xmap with the same unlawful Ord.",
        "technique": "Lean 4 proof over executable model + differential correspondence + metamorphic oracle over the whole dictionary",
    },
}
