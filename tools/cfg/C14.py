CFG = {
    "extra_theorems": ["Xeh.LeafBridge.limit_comparisons_match_source", "Xeh.LeafBridge.mutation_sites_match", "Xeh.LeafBridge.runtime_mutations_only_in_primitives"],
    "extra_modules": ["XehModel.Proofs.LeafBridge"],
    "n_quick": 1500, "n_thorough": 60000,
    "rule": "generated programs including structurally endless loops and stack-flooding programs, run step by step under random instruction / stack limits N, S in {none, 0, 1, small, medium}; after a limit error both limits are removed and stepping continues; every full dump compared with the model; heap limit exercised at the API level with `var` definitions. Non-trivial = at least one step executed; distinct = distinct request lines",
    "nontrivial": lambda op, imp: imp.count("@") > 2,
    "trusted_base_extra": ["the stack-limit theorem is about push_data; that no other site pushes onto data_stack except reverse_changes (which restores an earlier depth) is Tie B's mutation-site table"],
    "assumptions": ["variables are allocated while building (alloc_heap), never by a running instruction; the heap-limit part of the correspondence is therefore oracle-only until the session layer (L7) is modelled", "set_insn_limit resets the meter (modelled by the `li=` script command)"],
    "manifest": {
        "level": "proof",
        "text": "Lean 4 theorems (Props/C14.lean): for every program, word table and machine: insn_fail_atomic (the fetch that would exceed N fails before any state change), meter_bound and insn_count_bound (n successful steps advance the meter by at least n and never past N: at most N instructions execute after set_insn_limit), stack_bound / run_bounds (no step - successful or failing midway - and no run makes the data stack longer than max(S, depth when the limit was set)), push_fail_atomic, heap_len_step (no running instruction allocates), alloc_bound (allocation respects H and fails atomically), resume_after_raise (the interrupted machine is untouched, so raising the limit resumes exactly there). Correspondence: real bytecode stepped under random limits, all dumps equal; implementation-only monitor of meter/depth/heap bounds after every step and of normal operation after the limit is raised.",
        "note": "Trusted: Lean kernel; hand model validated by correspondence; `calc_limit` feature assumed on (default). One genuine defect repaired in /repo (zero-distance jump fell through an empty loop body, letting `begin repeat` escape the limit with Ok).",
        "technique": "Lean 4 proof (frame/bound invariant carried through every primitive, program and opcode) + differential correspondence + runtime monitor",
    },
}
