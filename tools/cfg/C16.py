def _nontrivial(op, imp):
    """a lexing case is non-trivial when it produced at least one non-blank token or an error;
    a location/print case when it produced an answer"""
    if " lex " in op or " nonws " in op:
        return any(not t.startswith("W@") and t != "eof" for t in imp.split(" "))
    return imp.startswith("ok")

CFG = {
    "n_quick": 20000, "n_thorough": 1000000,
    "extra_modules": ["XehModel.Props.C17loc"],
    "extra_theorems": ["Xeh.C17loc.location_spec", "Xeh.C17loc.lastSeg_spec", "Xeh.C17loc.firstSeg_spec", "Xeh.C17loc.location_total",
                       "Xeh.C17loc.location_points_at_token", "Xeh.C17loc.location_empty_text"],
    "rule": "lex.rs's own test snippets; every text of length ≤ 3 (thorough: ≤ 4, and ≤ 5 over 12 symbols) over {\\ ( ) space LF CR \" | 0 1 x b - . _ é}; n generated texts (55 % token soups over the booted dictionary with integer/real/string/bit-string/comment spellings, 30 % arbitrary UTF-8 incl. \\x0B \\x0C NBSP U+2028 astral chars and control chars, 15 % malformed: unterminated/ill-escaped strings, broken bit-strings, odd comment markers, odd numerals), a quarter of them again through next_nonws; n single literals generated *from* a value (integers up to and beyond ±2^127 in decimal/0x/0b/leading-zero hex with signs and underscores, reals incl. shortest-round-trip prints of random doubles, strings with both quote styles and every escape, bit-strings spelled with mixed hex/x/./blanks); every boundary integer in 5 spellings; n/4 values (ints, bit-strings ≤ 300 bits, nested vectors/maps of those) printed by format_cell, re-lexed and re-evaluated; n/8 prints under non-default flags; n/2 location queries over texts with LF/CRLF/CR/tab/multi-byte mixes at every kind of offset (one PRNG seed). Non-trivial = at least one non-blank token or an error; distinct = distinct request lines",
    "nontrivial": _nontrivial,
    "trusted_base_extra": [
        "decimal → double conversion is a parameter of the theorems (a real literal is the text handed to str::parse::<f64>, plus the modelled acceptance grammar); the driver's exact-rational conversion (Model/LexReal.lean over SoftFloat.roundRat) is compared with Rust's parser on every run, not proved",
        "the printer model excludes reals, functions, `any`, the fitscreen elisions and strings outside printable ASCII + \\n \\r \\t \\\\ \\\" \\0 (Rust's escape_debug tables)",
        "print → read of vectors/maps is proved at token level (the token list of the print); that `[ … ]` / `{ v k … }` rebuild the value is checked on the implementation only (format_cell → eval → == and equal?)",
    ],
    "assumptions": [
        "texts are valid UTF-8 (Xstr); the lexer is driven through the public Lex::new / next / next_nonws / last_substr API",
        "print → read is claimed for the default format flags (base 10); maps are generated with integer keys only (non-integer keys collapse under `Ord for Cell`, the C12 finding)",
        "token_location is queried with tokens that start on a char boundary of their source",
    ],
    "manifest": {
        "level": "proof",
        "text": "Lean 4 theorems (Props/C16.lean, Props/C17loc.lean) over a character-by-character executable model of Lex::next (whitespace, both quote styles and the five escapes, bit-string literals, numerals with sign / 0x / 0b / leading-zero hex / `_` / dot detection, `\\` and `\\( … \\)` comments with their quirks, words) that is total by construction: every token consumes ≥ 1 byte (next_progress), the token texts tile the input up to the first error (next_tiling, tokens_concat), integer spellings denote their mathematical value or are rejected (radix_value, underscore_ignored, overflow_rejected), the decimal print of every i128 reads back as itself (int_print_read), escapes decode as documented, the print of EVERY bit list reads back as that bit list (bitstr_print_read), vectors/maps of those print to the expected token list; token_location returns the number of LFs before the token, the chars since the last line break and the maximal break-free run around the token start for every non-empty text (location_spec). The model is tied to /repo by differential execution (≈ 100k cases quick) and by implementation-side oracles (tiling/progress on Lex::next/last_substr, generated-from-value literal spellings, str::parse::<f64>, format_cell → eval → equal?, independent line/column recount).",
        "note": "Trusted: Lean kernel; axioms ⊆ {propext, Classical.choice, Quot.sound}; hand-written model validated by correspondence; decimal→double conversion is a parameter of the theorems and is compared with Rust's parser on every run; printer model excludes reals/functions/non-ASCII strings/fitscreen.",
        "technique": "Lean 4 proof over executable model + differential correspondence with the Rust implementation",
    },
}
