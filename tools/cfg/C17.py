CFG = {
    "n_quick": 2500, "n_thorough": 200000,
    "extra_modules": ["XehModel.Props.C17loc", "XehModel.Proofs.LeafBridge"],
    "extra_theorems": ["Xeh.C17loc.location_spec", "Xeh.C17loc.location_total", "Xeh.C17loc.location_points_at_token",
                       "Xeh.C17loc.lastSeg_spec", "Xeh.C17loc.firstSeg_spec", "Xeh.LeafBridge.immediates_match"],
    "rule": "histories of 1-4 sources on one interpreter (25% repeat an earlier text verbatim), each = random prefix of comment/blank lines mixing LF, CRLF, CR, tabs and multi-byte characters + a generated program with an injected failure (unknown word anywhere, failing word at top level / inside a called definition invoked from a loop / inside nested control flow, unbalanced closer); the real error kind, blamed token index, buffer name, line, column and quoted line are compared with the model (flow-stack compiler debug map + VM + token_location). Non-trivial = the source failed; distinct = distinct request lines",
    "nontrivial": lambda op, imp: imp.startswith("err") or imp.startswith("builderr"),
    "trusted_base_extra": ["token byte ranges come from the real lexer (its correspondence with the lexer model is C16's check)"],
    "assumptions": ["lexer errors (bad literals) are located by the lexer itself and are covered by C16; an error raised inside a word defined by an earlier source is reported in that earlier buffer and is checked by the implementation-side oracle only (the request carries the debug map of the current source)", "included files are outside the model"],
    "manifest": {
        "level": "proof",
        "text": "Lean 4 theorems: debugMap_aligned (debug map stays parallel to the code through every compiler step, every token list), debugMap_origin / immediate_origin / word_origin (every opcode is attributed to the token being compiled when it was emitted; backpatching never re-attributes), runtime_error_ip (a failing instruction - any opcode, any native word - leaves ip on itself, so debug_map[ip] is the failing word, also inside called definitions and loops), and the location theorems of Props/C17loc.lean (line/column/quoted line are the true position of the token for every text with any mix of LF/CRLF/CR, tabs, multi-byte chars; total after repair 752c812). Correspondence: failing multi-source histories, every location field compared; implementation-only oracle re-counts line/column independently, checks the quoted line, that an unknown word is blamed on itself and an injected failing word on itself.",
        "note": "Trusted: Lean kernel; hand models of the compiler (state.rs 407-470, 1514-2262) and VM validated by correspondence (also by C01/C02); two defects repaired in /repo (token_filename compared source text by content; token_location panicked on an empty text).",
        "technique": "Lean 4 proof (compiler invariants by induction over the token list, VM step shape) + differential correspondence of error locations + independent re-count oracle",
    },
}
