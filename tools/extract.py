#!/usr/bin/env python3
"""Tie B translator (DESIGN.md §4.2):  <root>/src/*.rs  ->  lean/XehModel/Generated/{Leaf,Tables}.lean

usage: extract.py [SOURCE_ROOT (default /repo)] [OUTPUT_DIR (default <verif>/lean/XehModel/Generated)]

Re-reads the Rust sources on every run and regenerates Lean *data*:

  Generated/Leaf.lean    deep-embedded ASTs (Xeh.MI.FnAst, Model/MachineInt.lean) of the pure integer
                         leaf functions and constants, located by name
  Generated/Tables.lean  word registration table, arithmetic operator table, data-word table,
                         limit comparisons, direct state-mutation sites

The bridge theorems of Proofs/LeafBridge.lean are stated over these definitions, so a change of one
of the translated functions / tables breaks a proof obligation of `lake build`.

The accepted Rust subset is deliberately tiny (see `Parser`).  Anything outside it, or a function
that can no longer be found, is a hard failure: exit status 1 and a message naming the function.
Output is deterministic (no timestamps, no absolute paths); files are rewritten only when their
content changes so that an unchanged tree keeps `lake build` a no-op.  Standard library only.
"""
import os
import re
import sys

# --------------------------------------------------------------------------------------------
# what to translate
# --------------------------------------------------------------------------------------------

LEAF_FUNCTIONS = [          # (file, impl type or None, function name, Lean name)
    ("bitstr.rs", None, "upper_bound_index", "src_upper_bound_index"),
    ("bitstr.rs", None, "bit_mask", "src_bit_mask"),
    ("bitstr.rs", None, "cut_bits", "src_cut_bits"),
    ("opcodes.rs", "RelativeJump", "from_to", "src_from_to"),
    ("opcodes.rs", "RelativeJump", "calculate", "src_calculate"),
    ("state.rs", None, "relative_index", "src_relative_index"),
    ("state.rs", None, "slicing_index", "src_slicing_index"),
    ("fmt_flags.rs", "FmtFlags", "default", "src_fmt_default"),
]
FMT_CONSTANTS = ["FMT_BASE_MASK", "FMT_PREFIX_BIT", "FMT_TAGS_BIT", "FMT_FITSCREEN_BIT", "FMT_UPCASE_BIT"]
LIMIT_FUNCTIONS = ["check_stack_limit", "check_heap_limit", "insn_meter_increase"]
STATE_FIELDS = ["data_stack", "return_stack", "loops", "special", "heap", "code", "debug_map", "dict",
                "flow_stack", "nested", "input"]
RUNTIME_FIELDS = ["data_stack", "return_stack", "loops", "special", "heap"]
# methods of Vec / slices that only read; a call of ANY other method on one of the fields is
# reported as a mutation site (so an unknown method alarms instead of slipping through)
READONLY_METHODS = ["len", "is_empty", "iter", "get", "last", "first", "clone", "contains", "to_vec", "as_slice",
                    "capacity", "binary_search", "binary_search_by", "starts_with", "ends_with", "windows",
                    "chunks", "split_at", "concat", "join", "to_owned", "as_ptr", "as_ref", "split_first",
                    "split_last", "rchunks", "chunks_exact", "iter_rev", "eq", "ne", "cmp", "partial_cmp"]
# the scalar bookkeeping of the three resource limits: every place that writes one of them (assignment, compound
# assignment, or a mutable borrow) is listed, so that a new writer — a helper that resets the meter, a word that hands
# instructions back — shows up as a difference
LIMIT_FIELDS = ["insn_meter", "insn_limit", "stack_limit", "heap_limit"]
# who calls the functions that throw state away: the unwinding of a rejected build, the forgetting of what a build left in
# the reverse log, the clearing of the last error
CALLEES = ["build_unwind", "forget_build_log", "clear_last_error", "abort_run"]
SKIPPED_CFG = ['cfg(test)', 'cfg(feature="verif_hooks")']

PRIM_TYPES = ["u8", "u16", "u32", "u64", "u128", "usize", "i8", "i16", "i32", "i64", "i128", "isize", "bool"]


class ExtractError(Exception):
    pass


def fail(what, msg):
    raise ExtractError(f"{what}: {msg}")


# --------------------------------------------------------------------------------------------
# lexer
# --------------------------------------------------------------------------------------------

PUNCT3 = ["<<=", ">>=", "...", "..="]
PUNCT2 = ["::", "->", "=>", "==", "!=", "<=", ">=", "&&", "||", "<<", ">>", "+=", "-=", "*=", "/=", "%=", "^=",
          "&=", "|=", ".."]


class Tok:
    __slots__ = ("kind", "text", "pos", "line")

    def __init__(self, kind, text, pos, line):
        self.kind, self.text, self.pos, self.line = kind, text, pos, line

    def __repr__(self):
        return f"{self.kind}:{self.text!r}@{self.line}"


def lex(src, fname):
    toks = []
    i, n, line = 0, len(src), 1
    while i < n:
        c = src[i]
        if c == "\n":
            line += 1; i += 1; continue
        if c.isspace():
            i += 1; continue
        if src.startswith("//", i):
            j = src.find("\n", i)
            i = n if j < 0 else j
            continue
        if src.startswith("/*", i):
            depth, j = 1, i + 2
            while j < n and depth:
                if src.startswith("/*", j): depth += 1; j += 2
                elif src.startswith("*/", j): depth -= 1; j += 2
                else:
                    if src[j] == "\n": line += 1
                    j += 1
            i = j
            continue
        # raw strings  r"..."  r#"..."#  br#"..."#
        m = re.match(r'b?r(#*)"', src[i:i + 12])
        if m:
            close = '"' + m.group(1)
            j = src.find(close, i + m.end())
            if j < 0: fail(fname, f"unterminated raw string at line {line}")
            text = src[i:j + len(close)]
            toks.append(Tok("str", text, i, line)); line += text.count("\n"); i = j + len(close)
            continue
        if c == '"' or (c == "b" and i + 1 < n and src[i + 1] == '"'):
            j = i + (2 if c == "b" else 1)
            while j < n and src[j] != '"':
                j += 2 if src[j] == "\\" else 1
            if j >= n: fail(fname, f"unterminated string at line {line}")
            text = src[i:j + 1]
            toks.append(Tok("str", text, i, line)); line += text.count("\n"); i = j + 1
            continue
        if c == "'" or (c == "b" and i + 1 < n and src[i + 1] == "'"):
            k = i + (1 if c == "b" else 0)
            # char literal or lifetime
            m = re.match(r"'(\\x[0-9a-fA-F]{2}|\\u\{[0-9a-fA-F_]+\}|\\.|[^\\'])'", src[k:k + 14])
            if m:
                toks.append(Tok("char", src[i:k + m.end()], i, line)); i = k + m.end(); continue
            m = re.match(r"'[A-Za-z_][A-Za-z0-9_]*", src[k:])
            if m and c == "'":
                toks.append(Tok("lifetime", m.group(0), i, line)); i += m.end(); continue
            fail(fname, f"cannot lex quote at line {line}")
        if c.isdigit():
            m = re.match(r"0x[0-9a-fA-F_]+|0b[01_]+|0o[0-7_]+|[0-9][0-9_]*", src[i:])
            j = i + m.end()
            kind = "int"
            # fraction / exponent (a float literal) -- but not `1..2` and not `1.max(2)`
            if (not m.group(0).startswith("0x") and j < n and src[j] == "." and j + 1 < n and src[j + 1].isdigit()):
                m2 = re.match(r"\.[0-9_]+([eE][+-]?[0-9_]+)?", src[j:])
                j += m2.end(); kind = "float"
            elif (not m.group(0).startswith("0x") and j < n and src[j] == "."
                  and not (j + 1 < n and (src[j + 1] == "." or src[j + 1].isalpha() or src[j + 1] == "_"))):
                j += 1; kind = "float"
            m3 = re.match(r"[A-Za-z_][A-Za-z0-9_]*", src[j:])
            if m3:
                j += m3.end()
                if m3.group(0) in ("f32", "f64"): kind = "float"
            toks.append(Tok(kind, src[i:j], i, line)); i = j
            continue
        if c.isalpha() or c == "_":
            m = re.match(r"[A-Za-z_][A-Za-z0-9_]*", src[i:])
            toks.append(Tok("ident", m.group(0), i, line)); i += m.end()
            continue
        for table, k in ((PUNCT3, 3), (PUNCT2, 2)):
            if src[i:i + k] in table:
                toks.append(Tok("punct", src[i:i + k], i, line)); i += k
                break
        else:
            toks.append(Tok("punct", c, i, line)); i += 1
    return toks


OPEN = {"(": ")", "[": "]", "{": "}"}
CLOSE = {")", "]", "}"}


def matching(toks, i):
    """index of the bracket matching toks[i]"""
    depth = 0
    for j in range(i, len(toks)):
        t = toks[j]
        if t.kind == "punct":
            if t.text in OPEN: depth += 1
            elif t.text in CLOSE:
                depth -= 1
                if depth == 0: return j
    raise ExtractError(f"unbalanced bracket at line {toks[i].line}")


def text_of(toks):
    """normalised text of a token run: single spaces only where two word-like tokens meet"""
    out = []
    prev = None
    for t in toks:
        if prev is not None and (prev.kind in ("ident", "int", "float", "lifetime")) and (t.kind in ("ident", "int", "float", "lifetime")):
            out.append(" ")
        out.append(t.text)
        prev = t
    return "".join(out)


# --------------------------------------------------------------------------------------------
# source files: tokens, skipped regions (#[cfg(test)], verif_hooks), function items
# --------------------------------------------------------------------------------------------

class Fn:
    __slots__ = ("name", "impl", "start", "params", "ret", "body", "file")


class Source:
    def __init__(self, root, fname):
        self.fname = fname
        self.path = os.path.join(root, "src", fname)
        if not os.path.exists(self.path):
            fail(fname, "source file not found")
        self.text = open(self.path, encoding="utf-8").read()
        self.toks = lex(self.text, fname)
        self.skipped = self._skipped_regions()
        self.fns = self._functions()

    def _item_end(self, i):
        """end (inclusive) of the item that starts at token i (after its attributes)"""
        toks = self.toks
        depth = 0
        j = i
        while j < len(toks):
            t = toks[j]
            if t.kind == "punct":
                if t.text == "{" and depth == 0:
                    return matching(toks, j)
                if t.text in ("(", "["): depth += 1
                elif t.text in (")", "]"): depth -= 1
                elif t.text == ";" and depth == 0:
                    return j
            j += 1
        return len(toks) - 1

    def _skipped_regions(self):
        toks = self.toks
        regions = []
        i = 0
        while i < len(toks) - 1:
            if toks[i].text == "#" and toks[i + 1].text == "[":
                e = matching(toks, i + 1)
                attr = text_of(toks[i + 2:e]).replace(" ", "")
                if attr in SKIPPED_CFG:
                    j = e + 1
                    while j < len(toks) - 1 and toks[j].text == "#" and toks[j + 1].text == "[":
                        j = matching(toks, j + 1) + 1
                    end = self._item_end(j)
                    regions.append((i, end))
                    i = end + 1
                    continue
                i = e + 1
                continue
            i += 1
        return regions

    def is_skipped(self, i):
        return any(a <= i <= b for a, b in self.skipped)

    def _functions(self):
        toks = self.toks
        fns = []
        impl_stack = []     # (type name, closing index)
        i = 0
        while i < len(toks):
            while impl_stack and i > impl_stack[-1][1]:
                impl_stack.pop()
            t = toks[i]
            if t.kind == "ident" and t.text == "impl" and not self.is_skipped(i):
                j = i + 1
                names = []
                depth = 0
                while j < len(toks) and not (toks[j].text == "{" and depth == 0):
                    if toks[j].text == "<": depth += 1
                    elif toks[j].text == ">": depth -= 1
                    elif toks[j].kind == "ident" and depth == 0: names.append(toks[j].text)
                    j += 1
                if j < len(toks):
                    ty = names[names.index("for") + 1] if "for" in names and names.index("for") + 1 < len(names) else (names[0] if names else "?")
                    impl_stack.append((ty, matching(toks, j)))
                    i = j + 1
                    continue
            if t.kind == "ident" and t.text == "fn" and i + 1 < len(toks) and toks[i + 1].kind == "ident" \
                    and i + 2 < len(toks) and toks[i + 2].text in ("(", "<"):
                f = Fn()
                f.name = toks[i + 1].text
                f.impl = impl_stack[-1][0] if impl_stack else None
                f.start = i
                f.file = self.fname
                j = i + 2
                if toks[j].text == "<":      # generics: skip to the parameter list
                    depth = 0
                    while True:
                        if toks[j].text == "<": depth += 1
                        elif toks[j].text == ">": depth -= 1
                        elif toks[j].text == ">>": depth -= 2
                        j += 1
                        if depth <= 0: break
                pe = matching(toks, j)
                f.params = (j + 1, pe)
                k = pe + 1
                depth = 0
                while k < len(toks) and not (toks[k].text in ("{", ";") and depth == 0):
                    if toks[k].text in ("(", "[", "<"): depth += 1
                    elif toks[k].text in (")", "]", ">"): depth -= 1
                    k += 1
                f.ret = (pe + 1, k)
                if k < len(toks) and toks[k].text == "{":
                    f.body = (k, matching(toks, k))
                    fns.append(f)
                # nested functions / closures stay attributed to the outermost fn item: do not
                # skip the body, but remember the span
                i = k + 1
                continue
            i += 1
        return fns

    def find_fn(self, name, impl=None, what=None):
        what = what or (f"{impl}::{name}" if impl else name)
        c = [f for f in self.fns if f.name == name and (impl is None or f.impl == impl) and not self.is_skipped(f.start)]
        if not c:
            fail(what, f"function not found in src/{self.fname}")
        if len(c) > 1:
            fail(what, f"{len(c)} functions of that name in src/{self.fname}; the translator needs exactly one")
        return c[0]

    def enclosing_fn(self, i):
        """outermost-to-innermost: the innermost *named fn item* whose body contains token i"""
        best = None
        for f in self.fns:
            if f.body[0] <= i <= f.body[1]:
                if best is None or f.body[0] >= best.body[0]:
                    best = f
        return best


# --------------------------------------------------------------------------------------------
# the expression subset  ->  Lean `Xeh.MI.Expr`
# --------------------------------------------------------------------------------------------

BINOPS = {  # text -> (precedence, Lean constructor)
    "*": (11, "BinOp.mul"), "/": (11, "BinOp.div"), "%": (11, "BinOp.rem"),
    "+": (10, "BinOp.add"), "-": (10, "BinOp.sub"),
    "<<": (9, "BinOp.shl"), ">>": (9, "BinOp.shr"),
    "&": (8, "BinOp.band"), "^": (7, "BinOp.bxor"), "|": (6, "BinOp.bor"),
    "==": (5, "BinOp.eq"), "!=": (5, "BinOp.ne"), "<": (5, "BinOp.lt"), "<=": (5, "BinOp.le"),
    ">": (5, "BinOp.gt"), ">=": (5, "BinOp.ge"),
    "&&": (4, "and"), "||": (3, "or"),
}
AS_PREC = 12
METH1 = {"abs": "Meth1.abs", "unsigned_abs": "Meth1.unsignedAbs", "wrapping_neg": "Meth1.wrappingNeg"}
METH2 = {"min": "Meth2.min", "max": "Meth2.max", "wrapping_add": "Meth2.wrappingAdd",
         "wrapping_sub": "Meth2.wrappingSub", "wrapping_mul": "Meth2.wrappingMul",
         "wrapping_shl": "Meth2.wrappingShl", "wrapping_shr": "Meth2.wrappingShr"}


def lean_str(s):
    return '"' + s.replace("\\", "\\\\").replace('"', '\\"').replace("\n", "\\n").replace("\t", "\\t") + '"'


def lean_int(v):
    return str(v) if v >= 0 else f"({v})"


class Translator:
    """collects translated functions/constants (in dependency order) for one run"""

    def __init__(self, root):
        self.root = root
        self.sources = {}
        self.defs = []          # (lean name, text) in emission order
        self.done = {}          # (file, impl, name) -> lean name
        self.aliases = None

    def source(self, fname):
        if fname not in self.sources:
            self.sources[fname] = Source(self.root, fname)
        return self.sources[fname]

    def type_aliases(self):
        if self.aliases is None:
            self.aliases = {}
            for fn in sorted(os.listdir(os.path.join(self.root, "src"))):
                if fn.endswith(".rs"):
                    s = self.source(fn)
                    t = s.toks
                    for i in range(len(t) - 4):
                        if t[i].text == "type" and t[i + 1].kind == "ident" and t[i + 2].text == "=" \
                                and t[i + 3].text in PRIM_TYPES and t[i + 4].text == ";" and not s.is_skipped(i):
                            self.aliases[t[i + 1].text] = t[i + 3].text
        return self.aliases

    def prim(self, name, what):
        name = self.type_aliases().get(name, name)
        if name not in PRIM_TYPES:
            fail(what, f"type `{name}` is outside the translated subset")
        return name

    def struct_field(self, src, sname, what):
        """`struct Name(T);` -> T"""
        t = src.toks
        for i in range(len(t) - 5):
            if t[i].text == "struct" and t[i + 1].text == sname and t[i + 2].text == "(":
                e = matching(t, i + 2)
                inner = [x for x in t[i + 3:e] if x.text != "pub"]
                if len(inner) == 1:
                    return self.prim(inner[0].text, what)
                fail(what, f"struct {sname} is not a one-field tuple struct of an integer type")
        fail(what, f"struct {sname} not found in src/{src.fname}")

    # -- items ---------------------------------------------------------------------------------

    def translate_fn(self, fname, impl, name, lean_name=None):
        key = (fname, impl, name)
        if key in self.done:
            return self.done[key]
        what = f"{impl}::{name}" if impl else name
        src = self.source(fname)
        f = src.find_fn(name, impl, what)
        lean_name = lean_name or ("src_" + name)
        toks = src.toks
        # parameters
        params = []
        ptoks = toks[f.params[0]:f.params[1]]
        for grp in split_commas(ptoks):
            if not grp: continue
            txt = [g.text for g in grp]
            if txt[-1] == "self" and all(x in ("&", "mut", "self") for x in txt):
                if not f.impl: fail(what, "self parameter outside an impl")
                params.append(("self.0", self.struct_field(src, f.impl, what)))
                continue
            if txt and txt[0] == "mut": grp = grp[1:]; txt = txt[1:]
            if len(grp) == 3 and grp[0].kind == "ident" and txt[1] == ":" and grp[2].kind == "ident":
                params.append((txt[0], self.prim(txt[2], what)))
            else:
                fail(what, f"parameter `{text_of(grp)}` is outside the translated subset")
        # return type
        rt = toks[f.ret[0]:f.ret[1]]
        if not rt or rt[0].text != "->":
            fail(what, "a translated function must return a value")
        ret = self.ret_type(src, f, rt[1:], what)
        p = Parser(self, src, toks, f.body[0], f.body[1], [n for n, _ in params], what, f.impl)
        body = p.parse_block_at(f.body[0])
        self.emit(lean_name, what, params, ret, body)
        self.done[key] = lean_name
        return lean_name

    def ret_type(self, src, f, rt, what):
        txt = [t.text for t in rt]
        if len(txt) == 1:
            if txt[0] == "Self" or (txt[0][0].isupper() and txt[0] not in self.type_aliases()):
                return [self.struct_field(src, f.impl if txt[0] == "Self" else txt[0], what)]
            return [self.prim(txt[0], what)]
        if txt[0] == "(" and txt[-1] == ")":
            return [self.prim(g[0].text, what) if len(g) == 1 else fail(what, "nested tuple type") for g in split_commas(rt[1:-1])]
        if txt[0] == "Option" and txt[1] == "<" and txt[-1] == ">" and len(txt) == 4:
            return ["bool", self.prim(txt[2], what)]
        fail(what, f"return type `{text_of(rt)}` is outside the translated subset")

    def translate_const(self, fname, name):
        key = (fname, None, "const " + name)
        if key in self.done:
            return self.done[key]
        src = self.source(fname)
        t = src.toks
        for i in range(len(t) - 4):
            if t[i].text == "const" and t[i + 1].text == name and t[i + 2].text == ":" and not src.is_skipped(i):
                ty = self.prim(t[i + 3].text, name)
                if t[i + 4].text != "=":
                    fail(name, "constant type is outside the translated subset")
                j = i + 5
                while t[j].text != ";": j += 1
                p = Parser(self, src, t, i + 5, j, [], name, None)
                e = p.parse_expr_range(i + 5, j)
                lean_name = "src_" + name
                self.emit(lean_name, name, [], [ty], e)
                self.done[key] = lean_name
                return lean_name
        fail(name, f"constant not found in src/{fname}")

    def translate_guard(self, fname, fn_name, lean_guard, lean_payload):
        """`match val { Cell::Int(i) if <guard> => { Opcode::LoadI64(<payload>) } …` in load_value_opcode"""
        what = f"{fn_name} (i64 range test)"
        src = self.source(fname)
        f = src.find_fn(fn_name, None, what)
        t = src.toks
        for i in range(f.body[0], f.body[1] - 6):
            if [x.text for x in t[i:i + 4]] == ["Cell", "::", "Int", "("] and t[i + 4].kind == "ident" \
                    and t[i + 5].text == ")" and t[i + 6].text == "if":
                var = t[i + 4].text
                j = i + 7
                depth = 0
                while not (t[j].text == "=>" and depth == 0):
                    if t[j].text in OPEN: depth += 1
                    elif t[j].text in CLOSE: depth -= 1
                    j += 1
                    if j >= f.body[1]: fail(what, "guard without `=>`")
                ty = self.prim("Xint", what)
                p = Parser(self, src, t, i + 7, j, [var], what, None)
                guard = p.parse_expr_range(i + 7, j)
                self.emit(lean_guard, what, [(var, ty)], ["bool"], guard)
                # arm body: `{ Opcode::LoadI64(<expr>) }` or without braces
                k = j + 1
                if t[k].text == "{": k += 1
                if [x.text for x in t[k:k + 4]] != ["Opcode", "::", "LoadI64", "("]:
                    fail(what, "the guarded arm no longer builds Opcode::LoadI64(..)")
                e = matching(t, k + 3)
                p = Parser(self, src, t, k + 4, e, [var], what, None)
                payload = p.parse_expr_range(k + 4, e)
                self.emit(lean_payload, what + " payload", [(var, ty)], ["i64"], payload)
                return
        fail(what, "arm `Cell::Int(i) if …` not found")

    def emit(self, lean_name, rust_name, params, ret, body):
        ps = ", ".join(f"({lean_str(n)}, Ty.{t})" for n, t in params)
        rs = ", ".join(f"Ty.{t}" for t in ret)
        text = (f"/-- `{rust_name}` -/\n"
                f"def {lean_name} : FnAst where\n"
                f"  name := {lean_str(rust_name)}\n"
                f"  params := [{ps}]\n"
                f"  ret := [{rs}]\n"
                f"  body :=\n{indent(body, 4)}\n")
        self.defs.append((lean_name, text))


def indent(s, n):
    return "\n".join(" " * n + l for l in s.split("\n"))


def split_commas(toks):
    groups, cur, depth = [], [], 0
    in_closure_params = False
    for t in toks:
        if t.kind == "punct" and t.text == "|" and depth == 0 and (not cur or in_closure_params):
            in_closure_params = not in_closure_params     # |a, b| at the start of an argument
            cur.append(t)
            continue
        if in_closure_params:
            cur.append(t)
            continue
        if t.kind == "punct":
            if t.text in OPEN or t.text == "<": depth += 1
            elif t.text in CLOSE or t.text == ">": depth -= 1
            elif t.text == "," and depth == 0:
                groups.append(cur); cur = []
                continue
        cur.append(t)
    if cur: groups.append(cur)
    return groups


class Parser:
    """Pratt parser for the translated subset:

       block   := '{' ( 'let' ['mut'] IDENT '=' expr ';' )* expr '}'
       expr    := literal | IDENT | CONST | T::MIN | T::MAX | 'self' '.' '0' | '(' expr ')' | '(' expr ',' expr … ')'
                | 'if' expr block 'else' (block | if-expr)
                | '-' expr | '!' expr | expr OP expr | expr 'as' TYPE
                | expr '.' METHOD '(' [expr] ')' | FN '(' args ')' | 'Some' '(' expr ')' | 'None'
                | 'Self' '(' expr ')' | STRUCT '(' expr ')'
       Output is Lean source text of an `Xeh.MI.Expr`; variables are de Bruijn indices computed from
       the scope (and re-checked in Lean by `Expr.wellScoped`)."""

    def __init__(self, tr, src, toks, lo, hi, scope, what, impl):
        self.tr, self.src, self.toks, self.lo, self.hi = tr, src, toks, lo, hi
        self.scope = list(scope)
        self.what = what
        self.impl = impl
        self.i = lo

    def err(self, msg):
        t = self.toks[min(self.i, len(self.toks) - 1)]
        fail(self.what, f"{msg} (src/{self.src.fname} line {t.line}, near `{t.text}`) — outside the translated Rust subset")

    def peek(self, k=0):
        j = self.i + k
        return self.toks[j] if j < self.end else Tok("eof", "", -1, -1)

    def eat(self, text=None):
        t = self.peek()
        if text is not None and t.text != text:
            self.err(f"expected `{text}`")
        self.i += 1
        return t

    # entry points
    def parse_expr_range(self, lo, hi):
        self.i, self.end = lo, hi
        e = self.expr(0)
        if self.i != hi: self.err("unexpected token after expression")
        return e

    def parse_block_at(self, lo):
        self.i, self.end = lo, matching(self.toks, lo) + 1
        e = self.block()
        return e

    def block(self):
        self.eat("{")
        depth0 = len(self.scope)
        lets = []
        while self.peek().text == "let":
            self.eat()
            if self.peek().text == "mut": self.eat()
            name = self.eat()
            if name.kind != "ident": self.err("pattern in `let`")
            if self.peek().text == ":": self.err("type annotation in `let`")
            self.eat("=")
            v = self.expr(0)
            self.eat(";")
            lets.append((name.text, v))
            self.scope.append(name.text)
        if self.peek().text == "}":
            self.err("block without a result expression")
        e = self.expr(0)
        if self.peek().text == ";": self.err("statement")
        self.eat("}")
        del self.scope[depth0:]
        for name, v in reversed(lets):
            e = f"Expr.letE {lean_str(name)} ({v})\n({e})"
        return e

    def expr(self, min_prec):
        lhs = self.unary()
        while True:
            t = self.peek()
            if t.text == "as" and AS_PREC >= min_prec:
                self.eat()
                ty = self.eat()
                if ty.kind != "ident": self.err("cast target")
                lhs = f"Expr.cast ({lhs}) Ty.{self.tr.prim(ty.text, self.what)}"
                continue
            if t.kind == "punct" and t.text in BINOPS and BINOPS[t.text][0] >= min_prec:
                prec, ctor = BINOPS[t.text]
                self.eat()
                rhs = self.expr(prec + 1)
                if ctor == "and": lhs = f"Expr.andE ({lhs}) ({rhs})"
                elif ctor == "or": lhs = f"Expr.orE ({lhs}) ({rhs})"
                else: lhs = f"Expr.bin {ctor} ({lhs}) ({rhs})"
                if prec == 5 and self.peek().text in BINOPS and BINOPS[self.peek().text][0] == 5:
                    self.err("chained comparison")
                continue
            return lhs

    def unary(self):
        t = self.peek()
        if t.kind == "punct" and t.text == "-":
            self.eat(); return f"Expr.un UnOp.neg ({self.unary()})"
        if t.kind == "punct" and t.text == "!":
            self.eat(); return f"Expr.un UnOp.not ({self.unary()})"
        if t.kind == "punct" and t.text in ("&", "*", "&&"):
            self.err("reference / dereference")
        return self.postfix(self.primary())

    def postfix(self, e):
        while self.peek().text == ".":
            m = self.peek(1)
            if m.kind == "ident" and self.peek(2).text == "(":
                self.eat(); self.eat(); self.eat("(")
                args = []
                while self.peek().text != ")":
                    args.append(self.expr(0))
                    if self.peek().text == ",": self.eat()
                self.eat(")")
                if m.text in METH1 and len(args) == 0:
                    e = f"Expr.m1 {METH1[m.text]} ({e})"
                elif m.text in METH2 and len(args) == 1:
                    e = f"Expr.m2 {METH2[m.text]} ({e}) ({args[0]})"
                else:
                    self.i -= 1
                    self.err(f"method `.{m.text}` with {len(args)} argument(s)")
            else:
                self.err("field access")
        return e

    def var(self, name):
        for k in range(len(self.scope) - 1, -1, -1):
            if self.scope[k] == name:
                return f"Expr.var {len(self.scope) - 1 - k} {lean_str(name)}"
        return None

    def args_expr(self, args):
        if not args: return "Expr.unit"
        e = args[-1]
        for a in reversed(args[:-1]):
            e = f"Expr.pair ({a}) ({e})"
        return e

    def call_args(self):
        self.eat("(")
        args = []
        while self.peek().text != ")":
            args.append(self.expr(0))
            if self.peek().text == ",": self.eat()
            elif self.peek().text != ")": self.err("expected `,` or `)`")
        self.eat(")")
        return args

    def primary(self):
        t = self.peek()
        if t.kind == "int":
            self.eat()
            m = re.match(r"^(0x[0-9a-fA-F_]+|0b[01_]+|0o[0-7_]+|[0-9][0-9_]*?)_?([iu](?:8|16|32|64|128|size))?$", t.text)
            if not m: self.err("integer literal")
            v = int(m.group(1).replace("_", ""), 0)
            ty = m.group(2) or "lit"
            return f"Expr.lit {lean_int(v)} Ty.{ty}"
        if t.kind in ("float", "str", "char"):
            self.err("non-integer literal")
        if t.text == "(":
            self.eat()
            items = [self.expr(0)]
            tuple_ = False
            while self.peek().text == ",":
                self.eat(); tuple_ = True
                if self.peek().text != ")": items.append(self.expr(0))
            self.eat(")")
            if not tuple_: return items[0]
            return self.args_expr(items)
        if t.text == "if":
            self.eat()
            c = self.expr(0)
            a = self.block()
            if self.peek().text != "else": self.err("`if` without `else`")
            self.eat()
            b = self.primary() if self.peek().text == "if" else self.block()
            return f"Expr.ite ({c})\n({a})\n({b})"
        if t.text == "{":
            return self.block()
        if t.kind == "ident":
            name = t.text
            # self.0
            if name == "self":
                if self.peek(1).text == "." and self.peek(2).text == "0" and self.peek(3).text != "(":
                    self.eat(); self.eat(); self.eat()
                    v = self.var("self.0")
                    if v is None: self.err("`self.0` without a self parameter")
                    return v
                self.err("use of `self`")
            if name in ("true", "false"):
                self.err("boolean literal")
            # paths  T::MIN / T::MAX
            if self.peek(1).text == "::":
                ty, item = name, self.peek(2).text
                if item in ("MIN", "MAX") and self.peek(3).text != "(":
                    self.eat(); self.eat(); self.eat()
                    p = self.tr.prim(ty, self.what)
                    return f"Expr.tmin Ty.{p}" if item == "MIN" else f"Expr.tmax Ty.{p}"
                self.err(f"path `{ty}::{item}`")
            self.eat()
            if self.peek().text == "(":
                if name == "Some":
                    args = self.call_args()
                    if len(args) != 1: self.err("Some(..)")
                    return f"Expr.some ({args[0]})"
                if name == "Self" or name[0].isupper():
                    # tuple-struct constructor of a one-field struct: the value itself (its type is
                    # checked against the struct's field type when the function returns)
                    sname = self.impl if name == "Self" else name
                    if sname is None: self.err("Self outside an impl")
                    self.tr.struct_field(self.src, sname, self.what)
                    args = self.call_args()
                    if len(args) != 1: self.err(f"{name}(..)")
                    return args[0]
                # call of another function of the same file
                args = self.call_args()
                callee = self.tr.translate_fn(self.src.fname, None, name)
                return f"Expr.callFn {callee} ({self.args_expr(args)})"
            if name == "None":
                return "Expr.none"
            v = self.var(name)
            if v is not None:
                return v
            if re.fullmatch(r"[A-Z][A-Z0-9_]*", name):
                c = self.tr.translate_const(self.src.fname, name)
                return f"Expr.callFn {c} (Expr.unit)"
            self.i -= 1
            self.err(f"unknown identifier `{name}`")
        self.err("expression")


# --------------------------------------------------------------------------------------------
# tables
# --------------------------------------------------------------------------------------------

def str_lit_value(tok_text):
    """value of a plain "…" literal (escapes: \\\\ \\" \\n \\t)"""
    assert tok_text.startswith('"') and tok_text.endswith('"')
    s = tok_text[1:-1]
    return s.replace('\\"', '"').replace("\\n", "\n").replace("\\t", "\t").replace("\\\\", "\\")


def parse_macros(src):
    """macro_rules! NAME { ($a:ident, $b:expr) => { BODY }; }  ->  {NAME: ([a, b], body tokens)}"""
    t = src.toks
    macros = {}
    for i in range(len(t) - 3):
        if t[i].text == "macro_rules" and t[i + 1].text == "!" and t[i + 2].kind == "ident" and not src.is_skipped(i):
            name = t[i + 2].text
            o = i + 3
            c = matching(t, o)
            # first rule only
            j = o + 1
            if t[j].text != "(": continue
            pe = matching(t, j)
            params = [t[k + 1].text for k in range(j + 1, pe) if t[k].text == "$" and t[k + 1].kind == "ident"]
            k = pe + 1
            if t[k].text != "=>": continue
            b0 = k + 1
            b1 = matching(t, b0)
            macros[name] = (params, t[b0 + 1:b1], (i, c))
    return macros


def word_name(src, toks, what):
    """first argument of defword/def_immediate: "lit" or concat!("a", 8, "b")"""
    if len(toks) == 1 and toks[0].kind == "str":
        return str_lit_value(toks[0].text)
    if len(toks) >= 4 and toks[0].text == "concat" and toks[1].text == "!" and toks[2].text == "(":
        parts = []
        for g in split_commas(toks[3:-1]):
            if len(g) == 1 and g[0].kind == "str": parts.append(str_lit_value(g[0].text))
            elif len(g) == 1 and g[0].kind == "int": parts.append(g[0].text)
            else: fail(what, f"cannot evaluate `{text_of(toks)}` (src/{src.fname} line {toks[0].line})")
        return "".join(parts)
    fail(what, f"word name `{text_of(toks)}` is not a literal (src/{src.fname} line {toks[0].line})")


def registrations(src, toks, lo, hi, macros, what, depth=0):
    """(name, immediate, impl tokens) for every defword / def_immediate / macro invocation in toks[lo:hi]"""
    out = []
    i = lo
    while i < hi:
        t = toks[i]
        if t.kind == "ident" and t.text in ("defword", "def_immediate") and i > lo and toks[i - 1].text == "." \
                and i + 1 < hi and toks[i + 1].text == "(":
            e = matching_in(toks, i + 1)
            args = split_commas(toks[i + 2:e])
            if len(args) != 2:
                fail(what, f"`{t.text}` with {len(args)} arguments (src/{src.fname} line {t.line})")
            out.append((word_name(src, args[0], what), t.text == "def_immediate", args[1]))
            i = e + 1
            continue
        if t.kind == "ident" and t.text in macros and i + 2 < hi and toks[i + 1].text == "!" and toks[i + 2].text == "(":
            if depth > 3: fail(what, "macro recursion")
            e = matching_in(toks, i + 2)
            args = split_commas(toks[i + 3:e])
            params, body, _ = macros[t.text]
            if len(args) != len(params):
                fail(what, f"macro `{t.text}!` arity (src/{src.fname} line {t.line})")
            sub = dict(zip(params, args))
            exp = []
            k = 0
            while k < len(body):
                if body[k].text == "$" and k + 1 < len(body) and body[k + 1].text in sub:
                    exp.extend(sub[body[k + 1].text]); k += 2
                else:
                    exp.append(body[k]); k += 1
            out.extend(registrations(src, exp, 0, len(exp), macros, what, depth + 1))
            i = e + 1
            continue
        i += 1
    return out


def matching_in(toks, i):
    depth = 0
    for j in range(i, len(toks)):
        t = toks[j]
        if t.kind == "punct":
            if t.text in OPEN: depth += 1
            elif t.text in CLOSE:
                depth -= 1
                if depth == 0: return j
    raise ExtractError(f"unbalanced bracket at line {toks[i].line}")


def load_order(tr):
    """[(file, function)] in the order `State::boot()` registers words"""
    st = tr.source("state.rs")

    def calls(fn_name):
        f = st.find_fn(fn_name, "State", f"State::{fn_name}")
        t = st.toks
        out = []
        i = f.body[0]
        while i < f.body[1]:
            if t[i].text == "load_core" and t[i + 1].text == "(":
                out.append(("state.rs", "load_core"))
            elif t[i].text == "crate" and t[i + 1].text == "::" and t[i + 3].text == "::" and t[i + 4].text == "load":
                out.append((t[i + 2].text + ".rs", "load"))
            elif t[i].text == "Self" and t[i + 1].text == "::" and t[i + 2].text == "core" and t[i + 3].text == "(":
                out.extend(calls("core"))
            i += 1
        return out
    order = calls("boot")
    if not order or order[0] != ("state.rs", "load_core"):
        fail("State::boot", "cannot determine the module load order")
    return order


def word_table(tr):
    words = []      # (name, immediate, file, impl tokens)
    for fname, fn in load_order(tr):
        src = tr.source(fname)
        f = src.find_fn(fn, None, f"{fname}:{fn}")
        macros = parse_macros(src)
        regs = registrations(src, src.toks, f.body[0], f.body[1], macros, f"{fname}:{fn}")
        if not regs:
            fail(f"{fname}:{fn}", "no defword/def_immediate registrations found")
        for name, imm, impl in regs:
            words.append((name, imm, fname, impl))
    return words


# ---- arithmetic operator table ----------------------------------------------------------------

ARITH_NOISE_METHODS = {"pop_data", "push_data", "top_data", "value", "ok_or_else", "clone", "unwrap", "into"}
ARITH_NOISE_PATHS = {("Cell", "from"), ("Cell", "Int"), ("Cell", "Real"), ("Cell", "from_any")}
RUST_KEYWORDS = {"if", "else", "match", "return", "let", "in", "while", "for", "loop", "mut", "ref", "move", "as", "break"}
ARITH_NOISE_CALLS = {"Ok", "Err", "Some", "None", "OK"}
OPERATOR_TOKENS = {"+", "-", "*", "/", "%", "==", "!=", "<", ">", "<=", ">=", "!", "&", "|", "^", "<<", ">>", "&&", "||"}


def ops_of(toks, params=()):
    """the operator / method / error vocabulary of a token run, in source order"""
    out = []
    n = len(toks)
    i = 0
    while i < n:
        t = toks[i]
        prev = toks[i - 1] if i > 0 else None
        nxt = toks[i + 1] if i + 1 < n else None
        if t.kind == "punct" and t.text == "|" and (prev is None or prev.text in ("(", ",", "=")):
            # closure parameter list |a, b|
            j = i + 1
            while j < n and toks[j].text != "|": j += 1
            i = j + 1
            continue
        if t.kind == "punct" and t.text in OPERATOR_TOKENS:
            binary = prev is not None and ((prev.kind == "ident" and prev.text not in RUST_KEYWORDS)
                                           or prev.kind in ("int", "float") or prev.text in (")", "]", "?"))
            if binary:
                out.append(t.text)
            elif t.text == "-": out.append("neg")
            elif t.text == "!": out.append("not")
            # unary * and & are (de)references
            i += 1
            continue
        if t.kind == "ident":
            # path  A::B::<T>::c
            if nxt is not None and nxt.text == "::":
                segs = [t.text]
                j = i + 1
                while j + 1 < n and toks[j].text == "::":
                    if toks[j + 1].text == "<":
                        d, j2 = 0, j + 1
                        while True:
                            if toks[j2].text == "<": d += 1
                            elif toks[j2].text == ">": d -= 1
                            j2 += 1
                            if d == 0: break
                        j = j2
                        continue
                    segs.append(toks[j + 1].text); j += 2
                i = j
                if tuple(segs[-2:]) in ARITH_NOISE_PATHS:
                    continue
                if segs[0] == "Xerr":
                    out.append(segs[-1])
                elif segs[0] in ("Xint", "Xreal"):
                    out.append(segs[-1])
                elif segs[0] == "std" and len(segs) >= 2:
                    out.append("::".join(segs[-2:]))
                elif segs[0] == "Ordering":
                    out.append("::".join(segs))
                else:
                    out.append("::".join(segs))
                continue
            if prev is not None and prev.text == "." and nxt is not None and nxt.text == "(":
                if t.text not in ARITH_NOISE_METHODS:
                    out.append(t.text)
                i += 1
                continue
            if t.text == "as" and nxt is not None and nxt.kind == "ident":
                out.append("as " + nxt.text); i += 2
                continue
            if t.text in params and nxt is not None and nxt.text == "(":
                e = matching_in(toks, i + 1)
                out.append(t.text + "(" + text_of(toks[i + 2:e]) + ")")
                i = e + 1
                continue
            if nxt is not None and nxt.text == "(" and (prev is None or prev.text not in (".", "fn")) \
                    and t.text not in ARITH_NOISE_CALLS and t.text not in RUST_KEYWORDS:
                out.append(t.text + "()")
                i += 1
                continue
        if t.kind in ("int", "float") and prev is not None and prev.text in ("==", "!=", "<", ">", "<=", ">="):
            out.append(t.text)
        i += 1
    return out


def match_arms(toks, lo, hi):
    """{'Int': tokens, 'Real': tokens} of the first `match` in toks[lo:hi] that has a Cell::Int arm"""
    i = lo
    while i < hi:
        if toks[i].text == "match":
            j = i
            while toks[j].text != "{": j += 1
            e = matching_in(toks, j)
            arms = {}
            k = j + 1
            while k < e:
                # pattern up to =>
                p0 = k
                depth = 0
                while not (toks[k].text == "=>" and depth == 0):
                    if toks[k].text in OPEN: depth += 1
                    elif toks[k].text in CLOSE: depth -= 1
                    k += 1
                pat = text_of(toks[p0:k])
                k += 1
                if toks[k].text == "{":
                    be = matching_in(toks, k)
                    body = toks[k + 1:be]
                    k = be + 1
                else:
                    b0 = k
                    depth = 0
                    while k < e and not (toks[k].text == "," and depth == 0):
                        if toks[k].text in OPEN: depth += 1
                        elif toks[k].text in CLOSE: depth -= 1
                        k += 1
                    body = toks[b0:k]
                if k < e and toks[k].text == ",": k += 1
                m = re.match(r"Cell::(Int|Real)\((?!_\))", pat)
                if m: arms[m.group(1)] = body
            if "Int" in arms:
                return arms, (i, e)
            i = e + 1
            continue
        i += 1
    return None, None


def arith_table(tr, words):
    src = tr.source("arith.rs")
    t = src.toks
    local_fns = {f.name: f for f in src.fns if not src.is_skipped(f.start)}
    rows = []

    def body_of(impl):
        """token run implementing a word: closure body or named function body; plus fn-typed params"""
        if impl and impl[0].text == "|":
            j = 1
            while impl[j].text != "|": j += 1
            b = impl[j + 1:]
            if b and b[0].text == "{": b = b[1:-1]
            return b, None
        if len(impl) == 1 and impl[0].kind == "ident":
            if impl[0].text not in local_fns:
                fail(f"arith word implementation `{impl[0].text}`", "function not found in src/arith.rs")
            f = local_fns[impl[0].text]
            return t[f.body[0] + 1:f.body[1]], f
        fail("arith table", f"implementation `{text_of(impl)}` is neither a function name nor a closure")

    def analyse(b, what):
        # 1. delegation to a helper with operator arguments
        for i, x in enumerate(b):
            if x.kind == "ident" and x.text in ("arithmetic_ops_real", "arithmetic_ops_int") and b[i + 1].text == "(":
                e = matching_in(b, i + 1)
                args = split_commas(b[i + 2:e])
                if x.text == "arithmetic_ops_real" and len(args) == 3:
                    return ["int:"] + ops_of(args[1]) + ["real:"] + ops_of(args[2])
                if x.text == "arithmetic_ops_int" and len(args) == 2:
                    return ["int:"] + ops_of(args[1])
                fail(what, f"unexpected arguments of {x.text}")
        # 2. own dispatch on the operand type
        arms, span = match_arms(b, 0, len(b))
        if arms:
            rest = b[:span[0]] + b[span[1] + 1:]
            return ops_of(rest) + ["int:"] + ops_of(arms["Int"]) + (["real:"] + ops_of(arms.get("Real", [])) if "Real" in arms else [])
        # 3. a helper of this file that dispatches (compare_cells), then the rest
        for i, x in enumerate(b):
            if x.kind == "ident" and x.text in local_fns and i + 1 < len(b) and b[i + 1].text == "(" \
                    and (i == 0 or b[i - 1].text != "."):
                f = local_fns[x.text]
                hb = t[f.body[0] + 1:f.body[1]]
                arms, span = match_arms(hb, 0, len(hb))
                if arms:
                    e = matching_in(b, i + 1)
                    rest = b[:i] + b[e + 1:]
                    return ["int:"] + ops_of(arms["Int"]) + (["real:"] + ops_of(arms.get("Real", [])) if "Real" in arms else []) + ["then:"] + ops_of(rest)
        return ops_of(b)

    for name, imm, fname, impl in words:
        if fname != "arith.rs":
            continue
        b, f = body_of(impl)
        rows.append((name, " ".join(analyse(b, f"arith word `{name}`"))))
    # the two shared helpers: operand order and conversions
    for h in ("arithmetic_ops_int", "arithmetic_ops_real", "compare_cells", "compare_reals"):
        if h not in local_fns:
            fail(h, "helper not found in src/arith.rs")
        f = local_fns[h]
        hb = t[f.body[0] + 1:f.body[1]]
        params = [g[0].text for g in split_commas(t[f.params[0]:f.params[1]]) if g]
        arms, span = match_arms(hb, 0, len(hb))
        if arms:
            rest = hb[:span[0]] + hb[span[1] + 1:]
            ops = ops_of(rest, params) + ["int:"] + ops_of(arms["Int"], params) + ["real:"] + ops_of(arms.get("Real", []), params)
        else:
            ops = ops_of(hb, params)
        rows.append(("fn " + h, " ".join(ops)))
    return rows


# ---- limit comparisons --------------------------------------------------------------------------

def limit_checks(tr):
    src = tr.source("state.rs")
    t = src.toks
    rows, effects = [], []
    for name in LIMIT_FUNCTIONS:
        f = src.find_fn(name, "State", name)
        lo, hi = f.body
        # let limit = <def>;
        limit_def = None
        for i in range(lo, hi):
            if t[i].text == "let" and t[i + 1].text == "limit" and t[i + 2].text == "=":
                j = i + 3
                while t[j].text != ";": j += 1
                limit_def = text_of(t[i + 3:j])
                break
        if limit_def is None:
            fail(name, "`let limit = …;` not found")
        cmp_row = None
        for i in range(lo, hi):
            if t[i].text == "if":
                j = i + 1
                depth = 0
                while not (t[j].text == "{" and depth == 0):
                    if t[j].text in ("(", "["): depth += 1
                    elif t[j].text in (")", "]"): depth -= 1
                    j += 1
                cond = t[i + 1:j]
                ops = [k for k, x in enumerate(cond) if x.kind == "punct" and x.text in ("==", "!=", "<", ">", "<=", ">=")]
                if len(ops) != 1:
                    fail(name, f"condition `{text_of(cond)}` is not a single comparison")
                k = ops[0]
                be = matching(t, j)
                body = t[j + 1:be]
                outcome = "other"
                for q in range(len(body)):
                    if body[q].text == "return":
                        r = q + 1
                        head = []
                        while r < len(body) and body[r].text != ";":
                            head.append(body[r]); r += 1
                        txt = text_of(head)
                        m = re.match(r"(Err\(Xerr::[A-Za-z]+)", txt)
                        outcome = "return " + (m.group(1) + "(..))" if m and "(" in txt[len(m.group(1)):] else txt)
                        break
                cmp_row = (name, text_of(cond[:k]), cond[k].text, text_of(cond[k + 1:]), limit_def, outcome)
                # statements after the `if` in the same block that assign to self.<field>
                q = be + 1
                while q < hi:
                    if t[q].text == "self" and t[q + 1].text == "." and t[q + 3].text in ("+=", "-=", "="):
                        r = q
                        while t[r].text != ";": r += 1
                        effects.append((name, text_of(t[q:r])))
                        q = r
                    q += 1
                break
        if cmp_row is None:
            fail(name, "no `if` comparison found")
        rows.append(cmp_row)
    return rows, effects


# ---- direct mutation sites ----------------------------------------------------------------------

def state_field_visibility(tr):
    """{field: is_pub} of `pub struct State { … }` in state.rs"""
    src = tr.source("state.rs")
    t = src.toks
    for i in range(len(t) - 2):
        if t[i].text == "struct" and t[i + 1].text == "State" and t[i + 2].text == "{" and not src.is_skipped(i):
            e = matching(t, i + 2)
            vis = {}
            for g in split_commas(t[i + 3:e]):
                names = [x.text for x in g]
                if ":" in names:
                    k = names.index(":")
                    vis[names[k - 1]] = "pub" in names[:k - 1]
            missing = [f for f in STATE_FIELDS if f not in vis]
            if missing:
                fail("struct State", f"field(s) {missing} not found (renamed?)")
            return vis
    fail("struct State", "definition not found in src/state.rs")


def mutation_sites(tr):
    root = tr.root
    sites = []
    vis = state_field_visibility(tr)
    for fname in sorted(os.listdir(os.path.join(root, "src"))):
        if not fname.endswith(".rs"):
            continue
        src = tr.source(fname)
        t = src.toks
        n = len(t)
        for i in range(1, n - 1):
            x = t[i]
            if x.kind != "ident" or x.text not in STATE_FIELDS or t[i - 1].text != ".":
                continue
            if i < 2 or t[i - 2].kind != "ident":
                continue
            if src.is_skipped(i):
                continue
            if fname != "state.rs" and not vis[x.text]:
                continue        # a private field of State cannot be named outside state.rs: another struct's field
            recv = t[i - 2].text
            kind = None
            nx = t[i + 1]
            # &mut recv.field
            if i >= 4 and t[i - 3].text == "mut" and t[i - 4].text in ("&", "&&"):
                kind = "&mut"
            elif nx.text == "." and i + 3 < n and t[i + 2].kind == "ident" and t[i + 3].text == "(" \
                    and t[i + 2].text not in READONLY_METHODS:
                kind = t[i + 2].text
            elif nx.text == "[":
                e = matching(t, i + 1)
                # x[..] = v   /   x[..].f = v   /   x[..] += v
                j = e + 1
                while j + 1 < n and t[j].text == "." and t[j + 1].kind in ("ident", "int") and t[j + 2].text != "(":
                    j += 2
                if t[j].text in ("=", "+=", "-=", "*=", "/=", "%=", "^=", "&=", "|=", "<<=", ">>="):
                    kind = "[]="
            elif nx.text in ("=", "+=", "-="):
                kind = "="
            if kind is None:
                continue
            f = src.enclosing_fn(i)
            fn_name = f.name if f else "<top level>"
            sites.append((f"{x.text}.{kind}", fn_name, fname, recv))
    return sites


def limit_field_writes(tr):
    """every write of a limit field outside cfg(test) / verif_hooks: (statement, enclosing function), source order"""
    root = tr.root
    rows = []
    for fname in sorted(os.listdir(os.path.join(root, "src"))):
        if not fname.endswith(".rs"):
            continue
        src = tr.source(fname)
        t = src.toks
        n = len(t)
        for i in range(2, n - 1):
            x = t[i]
            if x.kind != "ident" or x.text not in LIMIT_FIELDS or t[i - 1].text != "." or t[i - 2].kind != "ident":
                continue
            if src.is_skipped(i):
                continue
            nx = t[i + 1].text
            borrowed = i >= 4 and t[i - 3].text == "mut" and t[i - 4].text in ("&", "&&")
            assigned = nx in ("=", "+=", "-=", "*=", "/=", "%=", "^=", "&=", "|=", "<<=", ">>=")
            method = nx == "." and i + 3 < n and t[i + 2].kind == "ident" and t[i + 3].text == "(" \
                and t[i + 2].text in ("take", "replace", "insert", "get_or_insert", "get_or_insert_with", "as_mut", "map_or_else")
            if not (borrowed or assigned or method):
                continue
            # the statement: back to the previous `;` `{` `}`, forward to the next `;`
            a = i - 2
            while a > 0 and t[a - 1].text not in (";", "{", "}"):
                a -= 1
            b = i
            depth = 0
            while b < n and not (t[b].text == ";" and depth == 0):
                if t[b].text in ("(", "[", "{"): depth += 1
                elif t[b].text in (")", "]", "}"): depth -= 1
                b += 1
            f = src.enclosing_fn(i)
            rows.append((text_of(t[a:b]), f.name if f else "<top level>", fname))
    return rows


def call_sites(tr):
    """(callee, enclosing function, file) of every call `.<callee>(` of a function in CALLEES, source order"""
    root = tr.root
    rows = []
    for fname in sorted(os.listdir(os.path.join(root, "src"))):
        if not fname.endswith(".rs"):
            continue
        src = tr.source(fname)
        t = src.toks
        for i in range(1, len(t) - 1):
            if t[i].kind == "ident" and t[i].text in CALLEES and t[i + 1].text == "(" and t[i - 1].text in (".", "::") and not src.is_skipped(i):
                f = src.enclosing_fn(i)
                rows.append((t[i].text, f.name if f else "<top level>", fname))
    return rows


def fn_statements(src, f):
    """the top-level statements of a function body as texts (a block statement such as `if … { … }` is one statement)"""
    t = src.toks
    lo, hi = f.body
    if t[lo].text == "{":
        lo += 1
    out, cur, depth = [], [], 0
    i = lo
    while i < hi:
        x = t[i]
        cur.append(x)
        if x.text in ("(", "[", "{"): depth += 1
        elif x.text in (")", "]", "}"):
            depth -= 1
            if depth == 0 and x.text == "}" and cur and cur[0].text in ("if", "while", "for", "match", "loop") \
                    and not (i + 1 < hi and t[i + 1].text in ("else", ".", "?", ";")):
                out.append(text_of(cur)); cur = []
        elif x.text == ";" and depth == 0:
            out.append(text_of(cur[:-1])); cur = []
        i += 1
    if cur:
        out.append(text_of(cur))
    return out


def build_routes(tr):
    """the two routes into the compiler, statement by statement; the argument lists of `intern_source` are masked (the
    text and its name are what differs between a text and a file)"""
    src = tr.source("state.rs")
    rows = {}
    for name in ("build_from_source", "build_from_file"):
        f = src.find_fn(name, "State", name)
        st = fn_statements(src, f)
        st = [re.sub(r"self\.intern_source\(.*\)\?$", "self.intern_source(_)?", x) for x in st]
        rows[name] = st
    return rows


RANGE_OPS = ["seek", "read", "peek", "substr", "split_at"]


def range_ops(tr):
    """the range operations of bitstr.rs (every read word goes through them), statement by statement: (function, statement)"""
    src = tr.source("bitstr.rs")
    rows = []
    for name in RANGE_OPS:
        f = src.find_fn(name, "Bitstr", name)
        for st in fn_statements(src, f):
            rows.append((name, st))
    return rows


def reverse_log_sites(tr):
    """every access of `reverse_log` that can change it: (operation, enclosing function), source order (state.rs only:
    the field is public, other files are scanned too)"""
    root = tr.root
    rows = []
    for fname in sorted(os.listdir(os.path.join(root, "src"))):
        if not fname.endswith(".rs"):
            continue
        src = tr.source(fname)
        t = src.toks
        n = len(t)
        for i in range(2, n - 1):
            if t[i].kind != "ident" or t[i].text != "reverse_log" or t[i - 1].text != "." or src.is_skipped(i):
                continue
            nx = t[i + 1].text
            kind = None
            if i >= 4 and t[i - 3].text == "mut" and t[i - 4].text in ("&", "&&"):
                kind = "&mut"
            elif nx in ("=", "+=", "-="):
                kind = "="
            elif nx == "." and i + 3 < n and t[i + 2].kind == "ident" and t[i + 3].text == "(" and t[i + 2].text not in ("as_ref", "is_some", "is_none", "clone", "iter"):
                # what is done with the log that was borrowed: the method calls on the closure / if-let binding up to the end of the statement or block
                kind = t[i + 2].text
                j = i + 3
                depth = 0
                ops = []
                while j < n:
                    if t[j].text in ("(", "[", "{"): depth += 1
                    elif t[j].text in (")", "]", "}"):
                        depth -= 1
                        if depth < 0: break
                    if t[j].text == "." and t[j + 1].kind == "ident" and t[j + 2].text == "(" and t[j - 1].text == "log":
                        ops.append(t[j + 1].text)
                    if t[j].text == ";" and depth == 0 and ops: break
                    j += 1
                kind = kind + ":" + "+".join(ops)
            if kind is None:
                continue
            f = src.enclosing_fn(i)
            rows.append((kind, f.name if f else "<top level>", fname))
    return rows


# --------------------------------------------------------------------------------------------
# output
# --------------------------------------------------------------------------------------------

HEADER = ("-- GENERATED by tools/extract.py from the Rust sources (src/*.rs). Do not edit: it is rewritten on\n"
          "-- every check; the bridge theorems in XehModel/Proofs/LeafBridge.lean are stated over these definitions.\n")


def lean_list(items, per_line=1, ind="  "):
    if not items:
        return "[]"
    lines = []
    for k in range(0, len(items), per_line):
        lines.append(ind + ", ".join(items[k:k + per_line]))
    return "[\n" + ",\n".join(lines) + "\n]"


def write_if_changed(path, content):
    old = None
    if os.path.exists(path):
        old = open(path, encoding="utf-8").read()
    if old == content:
        return False
    tmp = path + ".tmp." + str(os.getpid())
    with open(tmp, "w", encoding="utf-8") as f:
        f.write(content)
    os.replace(tmp, path)
    return True


def main(argv):
    here = os.path.dirname(os.path.abspath(__file__))
    root = argv[1] if len(argv) > 1 else "/repo"
    outdir = argv[2] if len(argv) > 2 else os.path.join(os.path.dirname(here), "lean", "XehModel", "Generated")
    if not os.path.isdir(os.path.join(root, "src")):
        print(f"extract.py: {root}/src not found", file=sys.stderr)
        return 2
    tr = Translator(root)
    # one item at a time: what cannot be translated any more becomes a stub (a function that takes nothing and returns
    # nothing / an empty table), so that exactly the theorems that rest on it stop checking — and the properties that
    # do not rest on it are not alarmed
    broken = []

    def stub(lean_name, why):
        tr.defs = [(n, t) for n, t in tr.defs if n != lean_name]
        tr.defs.append((lean_name, f"/-- NOT TRANSLATED: {why} -/\ndef {lean_name} : FnAst where\n  name := {lean_str('untranslated: ' + why)}\n  params := []\n  ret := []\n  body := Expr.unit\n"))

    for fname, impl, name, lean_name in LEAF_FUNCTIONS:
        try:
            tr.translate_fn(fname, impl, name, lean_name)
        except ExtractError as e:
            broken.append(str(e)); stub(lean_name, str(e))
    for c in FMT_CONSTANTS:
        try:
            tr.translate_const("fmt_flags.rs", c)
        except ExtractError as e:
            broken.append(str(e)); stub("src_" + c, str(e))
    try:
        tr.translate_guard("state.rs", "load_value_opcode", "src_load_i64_guard", "src_load_i64_payload")
    except ExtractError as e:
        broken.append(str(e)); stub("src_load_i64_guard", str(e)); stub("src_load_i64_payload", str(e))

    def table(f, *a, empty=()):
        try:
            return f(*a)
        except ExtractError as e:
            broken.append(str(e))
            return empty
    words = table(word_table, tr, empty=[])
    arith = table(arith_table, tr, words, empty=[])
    limits, effects = table(limit_checks, tr, empty=([], []))
    sites = table(mutation_sites, tr, empty=[])
    lwrites = table(limit_field_writes, tr, empty=[])
    calls = table(call_sites, tr, empty=[])
    rlog = table(reverse_log_sites, tr, empty=[])
    routes = table(build_routes, tr, empty={"build_from_source": [], "build_from_file": []})
    rops = table(range_ops, tr, empty=[])

    leaf = [HEADER, "import XehModel.Model.MachineInt\n", "namespace Xeh.Generated\nopen Xeh.MI\n"]
    for _, text in tr.defs:
        leaf.append(text)
    leaf.append("/-- every translated function and constant (for the scope check) -/\n"
                "def src_all_fns : List FnAst := " + lean_list([n for n, _ in tr.defs], 4) + "\n")
    leaf.append("end Xeh.Generated\n")

    tab = [HEADER, "namespace Xeh.Generated\n"]
    tab.append("/-- every `defword` / `def_immediate` registration of `State::boot()` in registration order: (name, immediate) -/\n"
               "def src_words : List (String × Bool) := "
               + lean_list([f"({lean_str(n)}, {'true' if imm else 'false'})" for n, imm, _, _ in words], 4) + "\n")
    tab.append("/-- the immediate (compile-time) words among them, same order -/\n"
               "def src_immediates : List String := "
               + lean_list([lean_str(n) for n, imm, _, _ in words if imm], 10) + "\n")
    tab.append("/-- the words registered by arith.rs (all non-immediate), registration order -/\n"
               "def src_arith_words : List String := "
               + lean_list([lean_str(n) for n, imm, fn, _ in words if fn == "arith.rs" and not imm], 10) + "\n")
    tab.append("/-- the source file that registers each word, same order -/\n"
               "def src_word_files : List (String × String) := "
               + lean_list([f"({lean_str(n)}, {lean_str(fn)})" for n, _, fn, _ in words], 4) + "\n")
    data = [(n, text_of(impl)) for n, _, fn, impl in words if fn == "bitstr_ext.rs" and re.fullmatch(r"[uif](8|16|32|64)(le|be)?!?", n)]
    tab.append("/-- the macro-generated `uN/iN/fN` data words of bitstr_ext.rs with their implementation: (name, closure) -/\n"
               "def src_data_words : List (String × String) := "
               + lean_list([f"({lean_str(n)}, {lean_str(i)})" for n, i in data], 1) + "\n")
    tab.append("/-- arith.rs: for each word the operators / methods / errors of its implementation, integer arm then real arm;\n"
               "    last the four shared helpers (operand order and conversions) -/\n"
               "def src_arith : List (String × String) := "
               + lean_list([f"({lean_str(n)}, {lean_str(o)})" for n, o in arith], 1) + "\n")
    tab.append("/-- the three resource-limit tests of state.rs: (function, left operand, comparison, right operand, definition of `limit`, outcome when true) -/\n"
               "def src_limit_checks : List (String × String × String × String × String × String) := "
               + lean_list(["(" + ", ".join(lean_str(x) for x in r) + ")" for r in limits], 1) + "\n")
    tab.append("/-- assignments to interpreter fields that follow a passed limit test: (function, statement) -/\n"
               "def src_limit_effects : List (String × String) := "
               + lean_list([f"({lean_str(a)}, {lean_str(b)})" for a, b in effects], 1) + "\n")
    tab.append("/-- every direct mutation of an interpreter stack / table outside `#[cfg(test)]` and the verif_hooks block,\n"
               "    in source order (files by name): (field.operation, enclosing function) -/\n"
               "def src_mutation_sites : List (String × String) := "
               + lean_list([f"({lean_str(a)}, {lean_str(b)})" for a, b, _, _ in sites], 1) + "\n")
    tab.append("/-- every write of the limit bookkeeping (" + " ".join(LIMIT_FIELDS) + ") outside `#[cfg(test)]` and the\n"
               "    verif_hooks block, in source order: (statement, enclosing function, file) -/\n"
               "def src_limit_field_writes : List (String × String × String) := "
               + lean_list([f"({lean_str(a)}, {lean_str(b)}, {lean_str(c)})" for a, b, c in lwrites], 1) + "\n")
    tab.append("/-- every call of " + ", ".join(CALLEES) + " outside `#[cfg(test)]` and the verif_hooks block, in source\n"
               "    order: (callee, enclosing function, file) -/\n"
               "def src_call_sites : List (String × String × String) := "
               + lean_list([f"({lean_str(a)}, {lean_str(b)}, {lean_str(c)})" for a, b, c in calls], 1) + "\n")
    tab.append("/-- every access of the reverse log that can change it: (how — the method taken on the field and what is then done\n"
               "    with the borrowed log —, enclosing function, file) -/\n"
               "def src_reverse_log_sites : List (String × String × String) := "
               + lean_list([f"({lean_str(a)}, {lean_str(b)}, {lean_str(c)})" for a, b, c in rlog], 1) + "\n")
    tab.append("/-- the range operations of `Bitstr` (bitstr.rs: " + " ".join(RANGE_OPS) + "), statement by statement: (function, statement) -/\n"
               "def src_range_ops : List (String × String) := "
               + lean_list([f"({lean_str(a)}, {lean_str(b)})" for a, b in rops], 1) + "\n")
    tab.append("/-- `State::build_from_source` (eval / compile / evalxstr of a text), statement by statement -/\n"
               "def src_build_from_source : List String := " + lean_list([lean_str(x) for x in routes["build_from_source"]], 1) + "\n")
    tab.append("/-- `State::build_from_file` (eval_file / compile_file), statement by statement -/\n"
               "def src_build_from_file : List String := " + lean_list([lean_str(x) for x in routes["build_from_file"]], 1) + "\n")
    runtime = []
    for a, b, _, _ in sites:
        if a.split(".")[0] in RUNTIME_FIELDS and b not in runtime:
            runtime.append(b)
    tab.append("/-- the functions that contain a direct mutation of a *run-time* stack (" + " ".join(RUNTIME_FIELDS) + "),\n"
               "    each once, in source order -/\n"
               "def src_runtime_mutators : List String := "
               + lean_list([lean_str(x) for x in runtime], 6) + "\n")
    tab.append("/-- the file of each mutation site, same order -/\n"
               "def src_mutation_files : List String := "
               + lean_list([lean_str(c) for _, _, c, _ in sites], 8) + "\n")
    tab.append("end Xeh.Generated\n")

    os.makedirs(outdir, exist_ok=True)
    ch1 = write_if_changed(os.path.join(outdir, "Leaf.lean"), "\n".join(leaf))
    ch2 = write_if_changed(os.path.join(outdir, "Tables.lean"), "\n".join(tab))
    for b in broken:
        print(f"extract.py: TIE B: not translated — {b}", file=sys.stderr)
    print(f"extract.py: {len(tr.defs)} functions/constants, {len(words)} words, {len(arith)} arith rows, "
          f"{len(limits)} limit tests, {len(sites)} mutation sites"
          f" -> {outdir} ({'Leaf.lean ' if ch1 else ''}{'Tables.lean ' if ch2 else ''}{'rewritten' if ch1 or ch2 else 'unchanged'})")
    return 0


if __name__ == "__main__":
    sys.exit(main(sys.argv))
