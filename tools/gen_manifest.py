#!/usr/bin/env python3
"""Regenerates MANIFEST.json from tools/cfg/Cxx.py (claimed iff CFG has a "manifest" entry)."""
import json, os, sys
ROOT = os.path.dirname(os.path.dirname(os.path.abspath(__file__)))
sys.path.insert(0, os.path.join(ROOT, "tools"))
from propcfg import PROPS
props = [json.loads(l) for l in open(os.path.join(ROOT, "properties.jsonl"))]
NA = json.load(open(os.path.join(ROOT, "tools", "not_applicable.json")))
checks = []
claimed = []
for p in props:
    pid = p["id"]
    cfg = PROPS.get(pid)
    if not cfg or "manifest" not in cfg:
        continue
    m = cfg["manifest"]
    claimed.append(pid)
    checks.append({
        "property_id": pid,
        "quick_cmd": f"./check {pid} --tier quick",
        "thorough_cmd": f"./check {pid} --tier thorough",
        "evidence_file": f"/verif/evidence/{pid}.json",
        "replay_cmd_template": f"./check {pid} --replay {{path}}",
        "engine": "lean-proof+correspondence",
        "level_claimed": {"category": m.get("level", "proof"), "text": m["text"], "design_ref": f"DESIGN.md §9 {pid}"},
        "level_note": m["note"],
        "technique": m["technique"],
    })
na = [{"property_id": p["id"], "reason": NA.get(p["id"], "not yet built in this session (design in DESIGN.md §9); will be claimed when its model layer, theorems and correspondence pass")} for p in props if p["id"] not in claimed]
man = {
    "version": 1,
    "setup_cmd": "./setup.sh",
    "hooks": {"guard": "verif_hooks", "enable": "cargo feature: xeh = { path = \"/repo\", features = [\"verif_hooks\"] } (harness/Cargo.toml)",
              "baseline_off_cmd": "/verif/run_baseline.sh", "source_commits": json.load(open(os.path.join(ROOT, "tools", "hook_commits.json"))), "add_only": True},
    "engines": [{"name": "lean-proof+correspondence", "path": "/verif/tools/orchestrate.py", "serves_properties": claimed,
                 "kind_free_text": "Lean 4 model + theorems (lean/), Rust differential harness (harness/), orchestrator applying DESIGN §5"}],
    "checks": checks,
    "not_applicable": na,
    "notes": "Properties are claimed one by one as their model layer, theorems and correspondence land; see DESIGN.md.",
}
json.dump(man, open(os.path.join(ROOT, "MANIFEST.json"), "w"), indent=1)
print("claimed:", " ".join(claimed))
