#!/usr/bin/env python3
"""Decision procedure of every check (DESIGN.md §5).

  P  proofs: `lake build` of Props/<id> (+ helper modules) succeeds, no sorry/admit/axiom/native_decide,
     `#print axioms` of every property theorem ⊆ {propext, Classical.choice, Quot.sound}
  B  Tie B: bridge theorems over Generated/*.lean (regenerated from /repo on this run) check
  A  Tie A: corpus + generated cases, model output == implementation output
  O  implementation-side oracle finds no input on which the property statement fails

  P∧B∧A∧O → exit 0.  ¬O → VIOLATION with the failing input as replay.
  (¬P ∨ ¬B ∨ ¬A) ∧ O → widen the search (more seeds); failing input found → as above, otherwise
  VIOLATION … no-failing-input-found, replay naming the theorem / bridge / correspondence case.
"""
import fcntl, json, os, re, subprocess, sys, time, hashlib

ROOT = os.path.dirname(os.path.dirname(os.path.abspath(__file__)))
LEAN = f"{ROOT}/lean"
HARNESS = f"{ROOT}/harness"
WORK = f"{ROOT}/work"
ALLOWED_AXIOMS = {"propext", "Classical.choice", "Quot.sound"}
FORBIDDEN = re.compile(r"\b(sorry|admit|native_decide|bv_decide|implemented_by)\b|^\s*axiom\s|^\s*unsafe\s|maxHeartbeats\s+0", re.M)

sys.path.insert(0, f"{ROOT}/tools")
from propcfg import PROPS  # per-property configuration


def sh(cmd, cwd=None, timeout=None, env=None):
    e = dict(os.environ)
    e.update({"CARGO_NET_OFFLINE": "true", "RUST_BACKTRACE": "0"})
    if env:
        e.update(env)
    p = subprocess.run(cmd, cwd=cwd, shell=isinstance(cmd, str), stdout=subprocess.PIPE, stderr=subprocess.STDOUT, text=True, timeout=timeout, env=e)
    return p.returncode, p.stdout


class Lock:
    def __init__(self, name):
        os.makedirs(WORK, exist_ok=True)
        self.f = open(f"{WORK}/.{name}.lock", "w")
    def __enter__(self):
        fcntl.flock(self.f, fcntl.LOCK_EX)
    def __exit__(self, *a):
        fcntl.flock(self.f, fcntl.LOCK_UN)


def strip_comments(src):
    src = re.sub(r"/-.*?-/", "", src, flags=re.S)
    src = re.sub(r"--.*", "", src)
    return src


def theorem_names(path):
    src = strip_comments(open(path).read())
    ns = []
    names = []
    for line in src.splitlines():
        m = re.match(r"\s*namespace\s+(\S+)", line)
        if m:
            ns.append(m.group(1)); continue
        m = re.match(r"\s*end\s+(\S+)", line)
        if m and ns and ns[-1] == m.group(1):
            ns.pop(); continue
        m = re.match(r"\s*(?:@\[[^\]]*\]\s*)?(?:private\s+|protected\s+)?theorem\s+([^\s:({\[]+)", line)
        if m:
            names.append(".".join(ns + [m.group(1)]))
    return names


def proofs(pid, cfg, report):
    """P and B: build, forbidden-token scan, axiom audit."""
    mods = [f"XehModel.Props.{pid}"] + cfg.get("extra_modules", [])
    with Lock("lake"):
        rc, out = sh(["lake", "build"] + mods + ["xehdriver"], cwd=LEAN, timeout=3000)
    report["lake_build_rc"] = rc
    if rc != 0:
        errs = [l for l in out.splitlines() if "error" in l][:20]
        report["proof_failures"].append({"kind": "lake build failed", "modules": mods, "errors": errs})
        # which theorem? best effort: first error line location
        return False
    # forbidden tokens in every Lean source of the project
    bad = []
    for dp, _, fns in os.walk(f"{LEAN}/XehModel"):
        for fn in fns:
            if fn.endswith(".lean"):
                src = strip_comments(open(os.path.join(dp, fn)).read())
                for m in FORBIDDEN.finditer(src):
                    bad.append(f"{os.path.join(dp, fn)}: {m.group(0).strip()}")
    if bad:
        report["proof_failures"].append({"kind": "forbidden token", "where": bad[:10]})
    names = theorem_names(f"{LEAN}/XehModel/Props/{pid}.lean")
    os.makedirs(f"{WORK}/{pid}", exist_ok=True)
    audit = f"{WORK}/{pid}/Audit.lean"
    with open(audit, "w") as f:
        f.write(f"import XehModel.Props.{pid}\n")
        for m in cfg.get("extra_modules", []):
            f.write(f"import {m}\n")
        for n in names:
            f.write(f"#print axioms {n}\n")
        for n in cfg.get("extra_theorems", []):
            f.write(f"#print axioms {n}\n")
    rc, out = sh(["lake", "env", "lean", audit], cwd=LEAN, timeout=600)
    ok_names = []
    flat = re.sub(r"\n\s+", " ", out)
    for n in names + cfg.get("extra_theorems", []):
        m = re.search(r"'" + re.escape(n) + r"' (does not depend on any axioms|depends on axioms: \[([^\]]*)\])", flat)
        if not m:
            report["proof_failures"].append({"kind": "axiom audit: theorem not found", "theorem": n})
            continue
        axs = set(a.strip() for a in (m.group(2) or "").split(",") if a.strip())
        if axs - ALLOWED_AXIOMS:
            report["proof_failures"].append({"kind": "disallowed axiom", "theorem": n, "axioms": sorted(axs)})
        else:
            ok_names.append(n)
    report["obligations"] = len(names) + len(cfg.get("extra_theorems", []))
    report["discharged"] = len(ok_names)
    report["theorems"] = ok_names
    if report.get("tier") == "thorough":
        # independent re-check of the compiled proofs of the property's module by the toolchain's leanchecker
        rc, out = sh(["lake", "env", "leanchecker", f"XehModel.Props.{pid}"], cwd=LEAN, timeout=1800)
        report["leanchecker_rc"] = rc
        if rc != 0:
            report["proof_failures"].append({"kind": "leanchecker rejected the compiled module", "module": f"XehModel.Props.{pid}", "output": out[-600:]})
    return not report["proof_failures"]


def build_harness(release, report):
    with Lock("cargo"):
        if not os.path.exists(f"{HARNESS}/Cargo.lock") or open(f"{HARNESS}/Cargo.lock").read() != open("/repo/Cargo.lock").read().replace('name = "xeh"', 'name = "xeh"'):
            pass
        sh(["cp", "/repo/Cargo.lock", f"{HARNESS}/Cargo.lock.repo"])
        if not os.path.exists(f"{HARNESS}/Cargo.lock"):
            sh(["cp", "/repo/Cargo.lock", f"{HARNESS}/Cargo.lock"])
        cmd = ["cargo", "build", "--offline", "--quiet"] + (["--release"] if release else [])
        rc, out = sh(cmd, cwd=HARNESS, timeout=3000)
    if rc != 0:
        report["harness_build_error"] = out[-3000:]
    return rc == 0


def build_repl_binary(report):
    """C10 speaks about REPL lines, C03 about snapshots (the REPL's /snapshot and /rollback are the ones users take): the `xeh` binary itself (src/main.rs + src/repl.rs, glue that no library call reaches) is
    built from /repo's working tree into the harness's target directory and handed to the harness, which pipes sessions
    into it and compares them with its mirror of `run_line` (harness/src/props/c10.rs repl_binary)."""
    tdir = f"{HARNESS}/target/repl"
    with Lock("cargo"):
        rc, out = sh(["cargo", "build", "--offline", "--quiet", "--bin", "xeh", "--manifest-path", "/repo/Cargo.toml", "--target-dir", tdir], timeout=3000)
    if rc != 0:
        report["repl_binary_build_error"] = out[-3000:]
        os.environ.pop("VERIF_XEH_BIN", None)
        return False
    os.environ["VERIF_XEH_BIN"] = f"{tdir}/debug/xeh"
    return True


def run_cases(pid, seed, n, tier, release, report, tagsuffix="", model=True):
    """emit cases, run driver, diff. returns (stats, disagreements[list], ncases, ops, imp).
    model=False: only the implementation side (harness + oracle) is run — used by the widening search, which looks
    for a concrete failing input on the implementation and does not need the model's answers"""
    wd = f"{WORK}/{pid}"
    os.makedirs(wd, exist_ok=True)
    binp = f"{HARNESS}/target/{'release' if release else 'debug'}/xeh-verif-harness"
    # a check that normally takes seconds is given minutes; an implementation that no longer terminates (e.g. an
    # instruction limit that has stopped limiting) is reported as a violation with the input it hangs on, not waited for
    emit_timeout = int(os.environ.get("VERIF_EMIT_TIMEOUT", "0")) or (900 if tier == "quick" else 3000)
    suffix = ".release" if release else ""
    base = f"{wd}/{pid}{suffix}"
    try:
        os.remove(f"{wd}/{pid}.progress")
    except OSError:
        pass
    try:
        rc, out = sh([binp, "emit", pid, str(seed), str(n), wd, tier], timeout=emit_timeout)
    except subprocess.TimeoutExpired:
        last = ""
        try:
            last = open(f"{wd}/{pid}.progress").read()[-2000:]
        except OSError:
            pass
        report["harness_run_error"] = (f"the implementation did not terminate within {emit_timeout} s "
                                       f"(seed {seed}, tier {tier}); it was last given: {last or '(no progress note)'}")
        return None
    if rc != 0:
        last = ""
        try:
            last = open(f"{wd}/{pid}.progress").read()[-2000:]
        except OSError:
            pass
        report["harness_run_error"] = (f"rc={rc} (a crash/abort of the implementation process?)\n{out[-2000:]}"
                                       + (f"\nit was last given: {last}" if last else ""))
        return None
    stats = json.load(open(f"{base}.stats.json"))
    if not model:
        return {"stats": stats, "disagreements": [], "ops": [], "imp": [], "unsupported": 0}
    with open(f"{base}.ops") as fi, open(f"{base}.model", "w") as fo:
        p = subprocess.run([f"{LEAN}/.lake/build/bin/xehdriver"], stdin=fi, stdout=fo, stderr=subprocess.PIPE, text=True, timeout=3000)
    if p.returncode != 0:
        report["driver_error"] = p.stderr[-2000:]
        return None
    ops = open(f"{base}.ops").read().split("\n")
    imp = open(f"{base}.impl").read().split("\n")
    mod = open(f"{base}.model").read().split("\n")
    if ops and ops[-1] == "": ops.pop()
    if imp and imp[-1] == "": imp.pop()
    if mod and mod[-1] == "": mod.pop()
    dis = []
    unsupported = 0
    if not (len(ops) == len(imp) == len(mod)):
        report["driver_error"] = f"line count mismatch ops={len(ops)} impl={len(imp)} model={len(mod)}"
        return None
    for o, i, m in zip(ops, imp, mod):
        if m == "unsupported" or m.startswith("unsupported:"):
            unsupported += 1
            why = m[12:] or "-"
            stats.setdefault("hist", {})
            stats["hist"]["outside-model:" + why] = stats["hist"].get("outside-model:" + why, 0) + 1
        elif i != m:
            dis.append({"case": o, "impl": i, "model": m})
    return {"stats": stats, "disagreements": dis, "ops": ops, "imp": imp, "unsupported": unsupported}


def load_known():
    p = f"{ROOT}/known_findings.json"
    if not os.path.exists(p):
        return []
    return json.load(open(p)).get("entries", [])


def matches_known(pid, text, known):
    for k in known:
        if k.get("kind") == "finding" and k.get("property") == pid:
            if re.search(k["match"], text):
                return k
    return None


def main():
    if len(sys.argv) < 2:
        print("usage: check <Cxx> [--tier quick|thorough] [--seed N] [--replay file]"); sys.exit(2)
    pid = sys.argv[1]
    tier = os.environ.get("VERIF_TIER", "quick")
    seed = int(os.environ.get("VERIF_SEED", "1"))
    args = sys.argv[2:]
    replay = None
    while args:
        a = args.pop(0)
        if a == "--tier": tier = args.pop(0)
        elif a == "--seed": seed = int(args.pop(0))
        elif a == "--replay": replay = args.pop(0)
    if pid not in PROPS:
        print(f"unknown property {pid}"); sys.exit(2)
    cfg = PROPS[pid]
    t0 = time.time()
    report = {"proof_failures": [], "obligations": 0, "discharged": 0, "theorems": [], "tier": tier}
    known = load_known()
    # Tie B: regenerate Generated/*.lean from /repo's working tree
    if os.path.exists(f"{ROOT}/tools/extract.py"):
        rc, out = sh([sys.executable, f"{ROOT}/tools/extract.py"], timeout=300)
        if rc != 0:
            report["proof_failures"].append({"kind": "Tie B translator failed", "output": out[-1500:]})
        # what could not be translated any more became a stub: exactly the theorems that rest on it stop checking
        notes = [l.strip() for l in out.splitlines() if "TIE B: not translated" in l]
        if notes:
            report["tie_b_not_translated"] = notes
    p_ok = proofs(pid, cfg, report)
    violations = []   # (text, replay dict)
    runs = []
    h_ok = build_harness(False, report)
    if pid in ("C10", "C03") and h_ok:
        h_ok = build_repl_binary(report)
        if not h_ok:
            report["harness_build_error"] = "the xeh binary did not build: " + report.get("repl_binary_build_error", "")
    n = cfg["n_thorough"] if tier == "thorough" else cfg["n_quick"]
    profiles = [False] + ([True] if tier == "thorough" and cfg.get("release_too", True) and build_harness(True, report) else [])
    total_cases = 0; distinct = set(); hist = {}; oracle_checks = 0; samples = []; disagreements = []; oracle_failures = []; unsupported = 0
    if replay:
        rp = json.load(open(replay))
        # replay a stored case against implementation and model
        seed = rp.get("seed", seed); tier = rp.get("tier", tier)
    if h_ok and os.path.exists(f"{LEAN}/.lake/build/bin/xehdriver"):
        for release in profiles:
            r = run_cases(pid, seed, n, tier, release, report)
            if r is None:
                break
            runs.append(r)
            st = r["stats"]
            total_cases += st["cases"]; oracle_checks += st["oracle_checks"]
            for k, v in st["hist"].items(): hist[k] = hist.get(k, 0) + v
            for o, i in zip(r["ops"], r["imp"]):
                if cfg["nontrivial"](o, i): distinct.add(o)
            if not samples: samples = [{"request": o, "implementation": i} for o, i in list(zip(r["ops"], r["imp"]))[:: max(1, len(r["ops"]) // 6)][:6]]
            disagreements += r["disagreements"]; unsupported += r["unsupported"]
            oracle_failures += st["oracle_failures"]
    infra_broken = (not h_ok) or ("harness_run_error" in report) or ("driver_error" in report)
    # ---- decision
    out_lines = []
    rc = 0
    new_of = []
    for f in oracle_failures:
        k = matches_known(pid, f["case"] + " " + f["observed"], known)
        if k:
            out_lines.append(f"KNOWN-FINDING: property={pid} {k['what']}")
        else:
            new_of.append(f)
    out_lines = sorted(set(out_lines))
    os.makedirs(f"{ROOT}/replays", exist_ok=True)
    def write_replay(kind, body):
        h = hashlib.sha1(json.dumps(body, sort_keys=True).encode()).hexdigest()[:8]
        path = f"{ROOT}/replays/{pid}-{seed}-{h}.json"
        body = dict(body); body.update({"property": pid, "seed": seed, "tier": tier, "kind": kind,
                    "how_to_replay": f"cd {ROOT} && VERIF_SEED={seed} ./check {pid} --tier {tier}   # or: echo '<case>' | lean/.lake/build/bin/xehdriver"})
        json.dump(body, open(path, "w"), indent=1)
        return path
    if "harness_run_error" in report:
        # the implementation process died (abort / stack overflow / OOM) — that is itself a C08-style failure of this run
        hung = ("did not terminate" in report["harness_run_error"] and "(no progress note)" not in report["harness_run_error"]) \
            or "it was last given: " in report["harness_run_error"]
        path = write_replay("implementation did not terminate, or its process died, on the input named in `detail`" if hung else "implementation process died",
                            {"detail": report["harness_run_error"]})
        print(f"VIOLATION property={pid} replay={path}" + ("" if hung else " no-failing-input-found")); rc = 1
    if new_of:
        path = write_replay("implementation-side oracle failure (concrete failing input)", {"failing_inputs": new_of[:10],
                            "model_disagreements": disagreements[:5]})
        print(f"VIOLATION property={pid} replay={path}"); rc = 1
    elif (not p_ok) or disagreements or (infra_broken and "harness_run_error" not in report):
        # widen the search for a concrete failing input with other seeds
        found = []
        if h_ok and not infra_broken:
            # bounded: a few times the quick size, whatever the tier (the thorough sizes are too large to repeat)
            wn = min(n * 2, max(4 * cfg["n_quick"], 2000))
            for extra in range(1, 4):
                r = run_cases(pid, seed + 1000 * extra, wn, "quick", False, report, model=False)
                if r is None: break
                fs = [f for f in r["stats"]["oracle_failures"] if not matches_known(pid, f["case"] + " " + f["observed"], known)]
                if fs:
                    found = fs; break
        if found:
            path = write_replay("implementation-side oracle failure found while widening the search", {"failing_inputs": found[:10], "model_disagreements": disagreements[:5], "proof_failures": report["proof_failures"]})
            print(f"VIOLATION property={pid} replay={path}"); rc = 1
        else:
            body = {"no_longer_checks": []}
            for pf in report["proof_failures"]:
                body["no_longer_checks"].append({"proof_obligation": pf})
            if disagreements:
                body["no_longer_checks"].append({"correspondence": f"Tie A {pid}: model vs implementation", "count": len(disagreements), "minimal_cases": sorted(disagreements, key=lambda d: len(d["case"]))[:8]})
            for key in ("harness_build_error", "driver_error", "tie_b_not_translated"):
                if key in report: body["no_longer_checks"].append({key: report[key]})
            path = write_replay("proof obligation or correspondence no longer checks", body)
            print(f"VIOLATION property={pid} replay={path} no-failing-input-found"); rc = 1
    for l in out_lines: print(l)
    wall = time.time() - t0
    ev = {
        "property_id": pid, "tier": tier, "seed": seed, "level": cfg.get("level", "proof"),
        "coverage": {
            "obligations": max(1, report["obligations"]), "discharged": report["discharged"],
            "checker_cmd": f"cd {LEAN} && lake build XehModel.Props.{pid} && lake env lean {WORK}/{pid}/Audit.lean   # #print axioms on every property theorem",
            "trusted_base": cfg["trusted_base"],
            "theorems": report["theorems"],
            "proof_failures": report["proof_failures"],
            "evaluations": max(1, total_cases), "distinct_nontrivial": len(distinct),
            "rule": cfg["rule"], "samples": samples or ["(no case ran: build failure)"],
            "oracle_checks": oracle_checks, "oracle_failures": len(oracle_failures),
            "model_impl_disagreements": len(disagreements), "outside_model": unsupported,
            "histogram": hist, "profiles": ["debug"] + (["release"] if len(profiles) > 1 else []),
            "known_findings_reported": out_lines,
        },
        "assumptions": cfg["assumptions"], "wall_s": round(wall, 2), "violations": 1 if rc else 0,
    }
    os.makedirs(f"{ROOT}/evidence", exist_ok=True)
    json.dump(ev, open(f"{ROOT}/evidence/{pid}.json", "w"), indent=1)
    print(f"{pid} {tier}: theorems {report['discharged']}/{report['obligations']}, cases {total_cases}, distinct non-trivial {len(distinct)}, "
          f"disagreements {len(disagreements)}, oracle checks {oracle_checks} failures {len(oracle_failures)}, {wall:.1f}s -> {'FAIL' if rc else 'ok'}")
    sys.exit(rc)


if __name__ == "__main__":
    main()
