"""Per-property configuration of the orchestrator: one file per property in tools/cfg/Cxx.py defining CFG."""
import importlib.util, os, glob

COMMON_TB = [
    "Lean 4.33.0 kernel (lake build); axioms of every property theorem audited with #print axioms against {propext, Classical.choice, Quot.sound}; no sorry/admit/native_decide/bv_decide/own axioms",
    "the hand-written executable Lean model is tied to /repo by Tie A (differential execution through the Rust harness on this run) and, for leaf functions and word tables, Tie B (tools/extract.py + bridge theorems)",
    "harness generators, canonicalisation (harness/src/canon.rs = lean/XehModel/Driver/Codec.lean) and the compiled Lean driver",
]

def nt_default(op, imp):
    """a case is non-trivial unless it is a bare stack underflow"""
    return not imp.startswith("err StackUnderflow")

PROPS = {}
_here = os.path.dirname(os.path.abspath(__file__))
for _f in sorted(glob.glob(os.path.join(_here, "cfg", "C*.py"))):
    _spec = importlib.util.spec_from_file_location(os.path.basename(_f)[:-3], _f)
    _m = importlib.util.module_from_spec(_spec)
    _m.COMMON_TB = COMMON_TB
    _m.nt_default = nt_default
    _spec.loader.exec_module(_m)
    _cfg = _m.CFG
    _cfg.setdefault("nontrivial", nt_default)
    _cfg["trusted_base"] = COMMON_TB + _cfg.get("trusted_base_extra", [])
    PROPS[os.path.basename(_f)[:-3]] = _cfg
