"""Per-property configuration of the orchestrator."""

COMMON_TB = [
    "Lean 4.33.0 kernel (lake build); axioms of every property theorem audited with #print axioms against {propext, Classical.choice, Quot.sound}; no sorry/admit/native_decide/bv_decide/own axioms",
    "the hand-written executable Lean model is tied to /repo by Tie A (differential execution through /verif/harness, this run) and, for leaf functions and word tables, Tie B (tools/extract.py + bridge theorems)",
    "harness generators, canonicalisation (harness/src/canon.rs = lean/XehModel/Driver/Codec.lean) and the compiled Lean driver",
]

def _nt_default(op, imp):
    return not imp.startswith("err StackUnderflow")

PROPS = {
    "C09": {
        "n_quick": 30000, "n_thorough": 1500000,
        "nontrivial": _nt_default,
        "rule": "boundary×boundary integer pairs for every binary word, shift counts -2..130, every unary word on every boundary int/real, boundary real pairs, then random operand tuples over all operand-type combinations (one PRNG seed); a case is non-trivial when it is not a bare stack underflow; distinct = distinct request lines",
        "trusted_base": COMMON_TB + ["Model/SoftFloat.lean defines IEEE-754 binary64 operations as exact-rational-then-round-to-nearest-even; it is validated against the hardware FPU (through Rust) by the correspondence on every run, not proved against an external IEEE formalisation", "NaN payloads are not modelled (NaNs compared as a class)"],
        "assumptions": ["operands are pushed through the public push_data API and the word is evaluated with Xstate::eval on a clone of a booted interpreter", "comparisons on NaN operands are excluded from the oracle (left unspecified by the property)"],
    },
}
