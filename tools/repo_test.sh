#!/bin/sh
# run the pinned suite (guard off) and print a one-line summary
cd /repo && CARGO_NET_OFFLINE=true cargo test --workspace --no-fail-fast --offline 2>&1 | grep -E "^test result|FAILED|panicked|^error" | head -8
