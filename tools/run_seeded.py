#!/usr/bin/env python3
"""Run the registered checks against the seeded property-breaking changes kept under /verif/seeded/<id>/<n>/.

For each change: `git -C /repo apply patch.diff`, run the pinned test suite (must still pass, otherwise the change
is not a valid seed), run `./check <id> --tier quick` (and, with --all, every other check), record whether a
VIOLATION was reported and by which part of the machinery (proof obligation / Tie B, model-implementation
correspondence, implementation-side oracle), then `git -C /repo checkout -- .`.
Writes /verif/seeded/RESULTS.json and prints one line per change. /repo is left exactly as it was found.
"""
import json, os, subprocess, sys, glob, re, time

ROOT = os.path.dirname(os.path.dirname(os.path.abspath(__file__)))
REPO = "/repo"


def sh(cmd, cwd=None, timeout=3600):
    p = subprocess.run(cmd, shell=True, cwd=cwd, stdout=subprocess.PIPE, stderr=subprocess.STDOUT, text=True, timeout=timeout)
    return p.returncode, p.stdout


def clean():
    sh("git checkout -- . && git clean -fdq -e target", cwd=REPO)


def main():
    only = [a for a in sys.argv[1:] if not a.startswith("--")]
    run_tests = "--no-tests" not in sys.argv
    others = "--all" in sys.argv
    rc, st = sh("git status --porcelain", cwd=REPO)
    if st.strip():
        print("refusing to run: /repo has uncommitted changes"); sys.exit(2)
    results = []
    dirs = sorted(glob.glob(os.path.join(ROOT, "seeded", "C*", "*", "patch.diff")))
    for patch in dirs:
        d = os.path.dirname(patch)
        pid = os.path.basename(os.path.dirname(d)); n = os.path.basename(d)
        if only and pid not in only and f"{pid}/{n}" not in only:
            continue
        meta = {}
        try: meta = json.load(open(os.path.join(d, "meta.json")))
        except Exception: pass
        rec = {"property": pid, "n": n, "summary": meta.get("summary", "")}
        if meta.get("invalidated_by"):
            rec["status"] = "invalidated by repair " + meta["invalidated_by"]; results.append(rec); print(pid, n, rec["status"]); continue
        rc, out = sh(f"git apply --check {patch}", cwd=REPO)
        if rc != 0:
            rec["status"] = "patch-does-not-apply"; results.append(rec); print(pid, n, rec["status"]); continue
        sh(f"git apply {patch}", cwd=REPO)
        try:
            if run_tests:
                rc, out = sh(os.path.join(ROOT, "tools", "repo_test.sh"))
                rec["tests_pass"] = ("144 passed; 0 failed" in out)
            t0 = time.time()
            # the evidence file describes the UNCHANGED tree: keep it (a check run on a changed tree rewrites it)
            evf = os.path.join(ROOT, "evidence", f"{pid}.json")
            saved = open(evf).read() if os.path.exists(evf) else None
            rc, out = sh(f"./check {pid} --tier quick", cwd=ROOT)
            if saved is not None:
                open(evf, "w").write(saved)
            rec["check_rc"] = rc
            rec["seconds"] = round(time.time() - t0, 1)
            vio = [l for l in out.splitlines() if l.startswith("VIOLATION")]
            rec["violation"] = bool(vio)
            rec["no_failing_input"] = any(l.endswith("no-failing-input-found") for l in vio)
            rec["summary_line"] = (out.strip().splitlines() or [""])[-1]
            m = re.search(r"replay=(\S+)", vio[0]) if vio else None
            if m and os.path.exists(m.group(1)):
                rp = json.load(open(m.group(1)))
                kinds = []
                for k in rp.get("no_longer_checks", []):
                    kinds += list(k.keys())
                if rp.get("oracle_failures") or rp.get("oracle_failure") or "oracle" in json.dumps(rp)[:4000]:
                    kinds.append("oracle")
                rec["caught_by"] = sorted(set(kinds)) or [rp.get("kind", "?")]
                rec["replay_kind"] = rp.get("kind")
            if others:
                also = []
                for cfg in sorted(glob.glob(os.path.join(ROOT, "tools", "cfg", "C*.py"))):
                    q = os.path.basename(cfg)[:-3]
                    if q == pid: continue
                    rc2, out2 = sh(f"./check {q} --tier quick", cwd=ROOT)
                    if rc2 != 0: also.append(q)
                rec["also_caught_by_checks"] = also
        finally:
            clean()
        results.append(rec)
        print(pid, n, "CAUGHT" if rec.get("violation") else "missed", rec.get("caught_by", ""), "tests_pass=%s" % rec.get("tests_pass"), "|", rec.get("summary", "")[:100], flush=True)
    outp = os.path.join(ROOT, "seeded", "RESULTS.json")
    old = []
    if only and os.path.exists(outp):
        old = [r for r in json.load(open(outp)) if not any(r["property"] == x["property"] and r["n"] == x["n"] for x in results)]
    json.dump(sorted(old + results, key=lambda r: (r["property"], r["n"])), open(outp, "w"), indent=1)


if __name__ == "__main__":
    main()
