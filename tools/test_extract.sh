#!/usr/bin/env bash
# Self-test of Tie B (tools/extract.py + the bridge theorems of lean/XehModel/Proofs/Leaf*.lean).
#
# In a scratch `git worktree` of /repo and a scratch copy of the Lean project (both under /tmp;
# neither /repo's working tree nor /verif is written to) it
#   1. checks that the unchanged tree translates and `lake build XehModel.Proofs.LeafBridge` passes,
#   2. applies one-line mutations of the Rust source, one at a time, and checks that each is caught:
#      either extract.py fails loudly (exit 1, message naming the function) or it succeeds and a
#      bridge theorem no longer checks (lake build fails),
#   3. checks that a harmless edit (comment + renamed local variable elsewhere) is NOT reported,
#   4. removes the worktree and the scratch directory.
# Exit status 0 iff every expectation held.
set -u
HERE="$(cd "$(dirname "$0")" && pwd)"
VERIF="$(dirname "$HERE")"
REPO="${REPO:-/repo}"
SCRATCH="$(mktemp -d /tmp/tieb-selftest.XXXXXX)"
WT="$SCRATCH/repo"
LEAN="$SCRATCH/lean"
GEN="$LEAN/XehModel/Generated"
FAILED=0

cleanup() {
  git -C "$REPO" worktree remove --force "$WT" >/dev/null 2>&1
  git -C "$REPO" worktree prune >/dev/null 2>&1
  rm -rf "$SCRATCH"
}
trap cleanup EXIT

git -C "$REPO" worktree add --detach "$WT" HEAD >/dev/null 2>&1 || { echo "cannot create worktree"; exit 2; }
# scratch copy of the Lean project (with its build cache, so only the bridge modules are re-checked)
mkdir -p "$LEAN"
rsync -a "$VERIF/lean/" "$LEAN/"

run_tie() {   # -> 0 when extract + build pass; 1 extract failed; 2 build failed.  Output in $SCRATCH/out
  python3 "$HERE/extract.py" "$WT" "$GEN" >"$SCRATCH/out" 2>&1 || return 1
  (cd "$LEAN" && lake build XehModel.Proofs.LeafBridge) >>"$SCRATCH/out" 2>&1 || return 2
  return 0
}

reset_wt() { git -C "$WT" checkout -q -- . ; }

expect_pass() {   # name
  local t0=$SECONDS
  run_tie; local rc=$?
  if [ $rc -eq 0 ]; then echo "PASS  $1: translated and all bridge theorems check ($((SECONDS - t0)) s)"
  else echo "FAIL  $1: expected success, got rc=$rc"; sed -n '1,25p' "$SCRATCH/out" | cut -c1-220; FAILED=1; fi
}

expect_caught() {   # name, file, sed expression
  reset_wt
  sed -i -E "$3" "$WT/src/$2"
  if git -C "$WT" diff --quiet; then echo "FAIL  $1: the mutation did not change src/$2 (pattern stale)"; FAILED=1; return; fi
  local t0=$SECONDS
  run_tie; local rc=$?
  local what
  case $rc in
    0) echo "FAIL  $1: mutation NOT detected"; git -C "$WT" diff | grep '^[-+][^-+]' | cut -c1-160; FAILED=1; return ;;
    1) what="$(grep -m1 "TIE B BROKEN" "$SCRATCH/out" | cut -c1-220)" ;;
    2) what="lake build: $(grep -m1 -E '^error' "$SCRATCH/out" | cut -c1-200)" ;;
  esac
  echo "PASS  $1: caught ($((SECONDS - t0)) s) — $what"
  git -C "$WT" diff | grep '^[-+][^-+]' | cut -c1-150 | sed 's/^/        /'
}

echo "== unchanged tree"
expect_pass "baseline"

echo "== mutations (each must be caught)"
expect_caught "limit test >= -> >" state.rs \
  's/if self\.data_stack\.len\(\) >= limit/if self.data_stack.len() > limit/'
expect_caught "cut_bits 8 -> 7" bitstr.rs \
  's/\(end - start\)\.min\(8 - start_bit\)/(end - start).min(7 - start_bit)/'
expect_caught "word + uses wrapping_sub" arith.rs \
  '/^fn core_word_add/,/^}/ s/Xint::wrapping_add/Xint::wrapping_sub/'
expect_caught "extra data_stack.push in a word" state.rs \
  's/^fn core_word_depth\(xs: &mut State\) -> Xresult \{/&\n    xs.data_stack.push(Cell::Nil);/'
expect_caught "from_to remaps distance 0 again" opcodes.rs \
  's/^        Self\(i as i32\)/        Self(if i == 0 { 1 } else { i as i32 })/'
expect_caught "relative_index off by one" state.rs \
  '/^fn relative_index/,/^}/ s/if ridx > len/if ridx >= len/'
expect_caught "slicing_index renamed (function missing)" state.rs \
  's/^fn slicing_index\(/fn slicing_index2(/'
expect_caught "calculate rewritten outside the subset" opcodes.rs \
  's/\(ip as isize \+ self\.0 as isize\) as usize/ip.checked_add_signed(self.0 as isize).unwrap()/'
expect_caught "a word becomes immediate" state.rs \
  's/self\.defword\("dup", core_word_dup\)/self.def_immediate("dup", core_word_dup)/'
expect_caught "FMT_TAGS_BIT moved" fmt_flags.rs \
  's/const FMT_TAGS_BIT: usize = 0b00010_00000000;/const FMT_TAGS_BIT: usize = 0b10000_00000000;/'

echo "== harmless edit (must NOT be reported)"
reset_wt
sed -i -E 's/^fn core_word_depth\(xs: &mut State\) -> Xresult \{/\/\/ a comment that mentions self.data_stack.push( and >= limit\n&/' "$WT/src/state.rs"
sed -i -E '/^pub fn upper_bound_index/,/^}/ s/\bn\b/extra/g' "$WT/src/bitstr.rs"
git -C "$WT" diff --quiet && { echo "FAIL  harmless edit did not apply"; FAILED=1; }
expect_pass "comment + renamed local in upper_bound_index"

reset_wt
if [ $FAILED -eq 0 ]; then echo "SELF-TEST OK"; else echo "SELF-TEST FAILED"; fi
exit $FAILED
