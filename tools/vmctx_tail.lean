
/-! ### hand-written tail (tools/vmctx_tail.lean): `step`, `next`, `run` -/

namespace NormC

/-- what the relation keeps of the context -/
theorem ctx_eq : ∀ a b : Mach, normC a = normC b →
    a.ctx.ip = b.ctx.ip ∧ a.ctx.ssPtr = b.ctx.ssPtr ∧ a.ctx.mode = b.ctx.mode ∧ a.ctx.dsLen = b.ctx.dsLen ∧
    a.ctx.rsLen = b.ctx.rsLen ∧ a.ctx.lsLen = b.ctx.lsLen ∧ a.meter = b.meter ∧ a.log = b.log ∧ a.out = b.out ∧
    a.aboutToStop = b.aboutToStop ∧ a.stackLimit = b.stackLimit ∧ a.heapLimit = b.heapLimit := by
  intro a b h
  rcases a with ⟨c1, hp1, ds1, rs1, lp1, sp1, ⟨q11, q21, q31, q41, q51, q61, q71, q81, q91, q101⟩, mt1, il1, sl1, hl1, lg1, o1, st1, di1⟩
  rcases b with ⟨c2, hp2, ds2, rs2, lp2, sp2, ⟨q12, q22, q32, q42, q52, q62, q72, q82, q92, q102⟩, mt2, il2, sl2, hl2, lg2, o2, st2, di2⟩
  simp only [normC, Mach.mk.injEq, Ctx.mk.injEq, true_and, and_true, and_assoc] at h
  simp_all

/-- the relation from its description: the same machine with another context that agrees on what the VM reads -/
theorem of_ctx (m : Mach) (c : Ctx) (h : c.ip = m.ctx.ip ∧ c.ssPtr = m.ctx.ssPtr ∧ c.mode = m.ctx.mode ∧ c.dsLen = m.ctx.dsLen ∧
    c.rsLen = m.ctx.rsLen ∧ c.lsLen = m.ctx.lsLen) : normC { m with ctx := c } = normC m := by
  obtain ⟨h1, h2, h3, h4, h5, h6⟩ := h
  rcases m with ⟨c1, hp1, ds1, rs1, lp1, sp1, ⟨q11, q21, q31, q41, q51, q61, q71, q81, q91, q101⟩, mt1, il1, sl1, hl1, lg1, o1, st1, di1⟩
  rcases c with ⟨q12, q22, q32, q42, q52, q62, q72, q82, q92, q102⟩
  simp only at h1 h2 h3 h4 h5 h6
  subst_vars
  rfl

theorem meterIncrease_sim : ∀ a b : Mach, normC a = normC b → SimR a.meterIncrease b.meterIncrease := by
  intro a b h
  rcases a with ⟨c1, hp1, ds1, rs1, lp1, sp1, ⟨q11, q21, q31, q41, q51, q61, q71, q81, q91, q101⟩, mt1, il1, sl1, hl1, lg1, o1, st1, di1⟩
  rcases b with ⟨c2, hp2, ds2, rs2, lp2, sp2, ⟨q12, q22, q32, q42, q52, q62, q72, q82, q92, q102⟩, mt2, il2, sl2, hl2, lg2, o2, st2, di2⟩
  simp only [normC, Mach.mk.injEq, Ctx.mk.injEq, true_and, and_true, and_assoc] at h
  repeat (obtain ⟨h1, h⟩ := h; subst h1)
  subst h
  simp only [SimR, meterIncrease, normC]
  split <;> (try split) <;> simp

theorem setCode_sim (c : List Op) : ∀ a b : Mach, normC a = normC b →
    normC { a with code := c } = normC { b with code := c } := by
  intro a b h
  rcases a with ⟨c1, hp1, ds1, rs1, lp1, sp1, ⟨q11, q21, q31, q41, q51, q61, q71, q81, q91, q101⟩, mt1, il1, sl1, hl1, lg1, o1, st1, di1⟩
  rcases b with ⟨c2, hp2, ds2, rs2, lp2, sp2, ⟨q12, q22, q32, q42, q52, q62, q72, q82, q92, q102⟩, mt2, il2, sl2, hl2, lg2, o2, st2, di2⟩
  simp only [normC, Mach.mk.injEq, Ctx.mk.injEq, true_and, and_true, and_assoc] at h ⊢
  simp_all

theorem patchCode_sim (ip : Nat) (op : Op) : ∀ a b : Mach, normC a = normC b →
    normC (a.patchCode ip op) = normC (b.patchCode ip op) := by
  intro a b h
  obtain ⟨_, _, _, _, _, _, hcode, _⟩ := ds_eq a b h
  obtain ⟨_, _, hm, _⟩ := ctx_eq a b h
  unfold patchCode
  rw [hm, hcode]
  split
  · exact h
  · exact setCode_sim _ a b h

theorem step_sim (np : String → Option Prog) (a b : Mach) (h : normC a = normC b) :
    SimR (step np a) (step np b) := by
  obtain ⟨_, _, _, _, _, _, hcode, hdict, _⟩ := ds_eq a b h
  obtain ⟨hip, _⟩ := ctx_eq a b h
  unfold step
  simp only
  rw [hip]
  have hs := meterIncrease_sim a b h
  revert hs
  generalize a.meterIncrease = ra
  generalize b.meterIncrease = rb
  obtain ⟨oa, ma⟩ := ra
  obtain ⟨ob, mb⟩ := rb
  rintro ⟨h1, h2⟩
  simp only at h1 h2
  subst h1
  cases oa with
  | err e => exact ⟨rfl, h2⟩
  | panic s => exact ⟨rfl, h2⟩
  | ok u =>
    simp only
    obtain ⟨_, _, _, _, _, _, hcode2, hdict2, _⟩ := ds_eq ma mb h2
    rw [hcode2]
    split
    · exact ⟨rfl, h2⟩
    · rename_i name hop
      have hr : ma.resolveOp name = mb.resolveOp name := by simp [resolveOp, hdict2]
      rw [hr]
      split
      · exact ⟨rfl, h2⟩
      · exact ⟨rfl, h2⟩
      · rename_i op hres
        have h3 := patchCode_sim b.ctx.ip op ma mb h2
        have hs := meterIncrease_sim _ _ h3
        revert hs
        generalize Mach.meterIncrease (ma.patchCode b.ctx.ip op) = ra
        generalize Mach.meterIncrease (mb.patchCode b.ctx.ip op) = rb
        obtain ⟨oa, ma2⟩ := ra
        obtain ⟨ob, mb2⟩ := rb
        rintro ⟨g1, g2⟩
        simp only at g1 g2
        subst g1
        cases oa with
        | err e => exact ⟨rfl, g2⟩
        | panic s => exact ⟨rfl, g2⟩
        | ok u => exact exec_sim np _ op ma2 mb2 g2
    · rename_i op _ hop
      exact exec_sim np _ op ma mb h2

theorem isRunning_eq (a b : Mach) (h : normC a = normC b) : a.isRunning = b.isRunning := by
  obtain ⟨_, _, _, _, _, _, hcode, _⟩ := ds_eq a b h
  obtain ⟨hip, _⟩ := ctx_eq a b h
  simp [isRunning, hip, hcode]

/-- the relation between the results of two runs -/
def RunR : Option (R Unit) → Option (R Unit) → Prop
  | none, none => True
  | some ra, some rb => SimR ra rb
  | _, _ => False

theorem run_sim (np : String → Option Prog) (fuel : Nat) : ∀ a b : Mach, normC a = normC b →
    RunR (run np fuel a) (run np fuel b) := by
  induction fuel with
  | zero =>
    intro a b h
    simp only [run, isRunning_eq a b h]
    split
    · trivial
    · exact ⟨rfl, h⟩
  | succ fuel ih =>
    intro a b h
    simp only [run, isRunning_eq a b h]
    split
    · have hs := step_sim np a b h
      revert hs
      generalize step np a = ra
      generalize step np b = rb
      obtain ⟨oa, ma⟩ := ra
      obtain ⟨ob, mb⟩ := rb
      rintro ⟨h1, h2⟩
      simp only at h1 h2
      subst h1
      cases oa with
      | ok u => exact ih ma mb h2
      | err e => exact ⟨rfl, h2⟩
      | panic s => exact ⟨rfl, h2⟩
    · exact ⟨rfl, h⟩

/-- the VM only ever writes the instruction pointer of the context -/
theorem ctx_same_up_to_ip (a b : Mach) (h : normC a = normC b) (h0 : a.ctx.csLen = b.ctx.csLen ∧ a.ctx.fsLen = b.ctx.fsLen ∧
    a.ctx.diLen = b.ctx.diLen ∧ a.ctx.dsOpen = b.ctx.dsOpen) : a = b := by
  obtain ⟨g1, g2, g3, g4⟩ := h0
  rcases a with ⟨c1, hp1, ds1, rs1, lp1, sp1, ⟨q11, q21, q31, q41, q51, q61, q71, q81, q91, q101⟩, mt1, il1, sl1, hl1, lg1, o1, st1, di1⟩
  rcases b with ⟨c2, hp2, ds2, rs2, lp2, sp2, ⟨q12, q22, q32, q42, q52, q62, q72, q82, q92, q102⟩, mt2, il2, sl2, hl2, lg2, o2, st2, di2⟩
  simp only [normC, Mach.mk.injEq, Ctx.mk.injEq, true_and, and_true, and_assoc] at h
  simp only at g1 g2 g3 g4
  simp_all

end NormC
