
/-! ### hand-written tail (tools/vmghost_tail.lean): `step`, `next`, `run` -/

namespace Ghost

variable {pre : List Char}

theorem limit_eq (a b : Mach) (h : normA a = normB pre b) : a.insnLimit = b.insnLimit ∧ a.log = b.log ∧ a.out = pre ++ b.out := by
  cases a; cases b
  simp only [normA, normB, Mach.mk.injEq, true_and, and_true] at h
  obtain ⟨h1, h2, h3, h4, h5, h6, h7, h8, h9, h10, h11, h12, h13⟩ := h
  subst_vars
  simp

theorem meterIncrease_sim : ∀ a b : Mach, normA a = normB pre b → a.insnLimit = none →
    SimR pre a.meterIncrease b.meterIncrease := by
  intro a b h hl
  cases a; cases b
  simp only [normA, normB, Mach.mk.injEq, true_and, and_true] at h
  simp only at hl
  obtain ⟨h1, h2, h3, h4, h5, h6, h7, h8, h9, h10, h11, h12, h13⟩ := h
  subst_vars
  simp [SimR, meterIncrease, normA, normB]

theorem setCode_sim (c : List Op) : ∀ a b : Mach, normA a = normB pre b →
    normA { a with code := c } = normB pre { b with code := c } := by
  intro a b h
  cases a; cases b
  simp only [normA, normB, Mach.mk.injEq, true_and, and_true] at h ⊢
  obtain ⟨h1, h2, h3, h4, h5, h6, h7, h8, h9, h10, h11, h12, h13⟩ := h
  subst_vars
  simp

theorem patchCode_sim (ip : Nat) (op : Op) : ∀ a b : Mach, normA a = normB pre b →
    normA (a.patchCode ip op) = normB pre (b.patchCode ip op) := by
  intro a b h
  obtain ⟨_, hctx, _, _, _, _, hcode, _⟩ := ds_eq a b h
  have hm : a.ctx.mode = b.ctx.mode := by rw [hctx]
  unfold patchCode
  rw [hm, hcode]
  split
  · exact h
  · exact setCode_sim _ a b h

theorem meterIncrease_limit (a : Mach) : a.meterIncrease.2.insnLimit = a.insnLimit := by
  unfold meterIncrease; split <;> (try split) <;> rfl

/-- without an instruction limit, `step` does not depend on the meter, the stop flag, or what has been printed before -/
theorem step_sim (np : String → Option Prog) (a b : Mach) (h : normA a = normB pre b) (hl : a.insnLimit = none) :
    SimR pre (step np a) (step np b) := by
  obtain ⟨_, hctx, _, _, _, _, hcode, hdict, _⟩ := ds_eq a b h
  unfold step
  simp only
  rw [hctx]
  have hs := meterIncrease_sim a b h hl
  have hl1 := meterIncrease_limit a
  revert hs hl1
  generalize a.meterIncrease = ra
  generalize b.meterIncrease = rb
  obtain ⟨oa, ma⟩ := ra
  obtain ⟨ob, mb⟩ := rb
  rintro ⟨h1, h2⟩ hl1
  simp only at h1 h2 hl1
  subst h1
  cases oa with
  | err e => exact ⟨rfl, h2⟩
  | panic s => exact ⟨rfl, h2⟩
  | ok u =>
    simp only
    obtain ⟨_, _, _, _, _, _, hcode2, hdict2, _⟩ := ds_eq ma mb h2
    rw [hcode2]
    split
    · exact ⟨rfl, h2⟩
    · rename_i name hop
      have hr : ma.resolveOp name = mb.resolveOp name := by simp [resolveOp, hdict2]
      rw [hr]
      split
      · exact ⟨rfl, h2⟩
      · exact ⟨rfl, h2⟩
      · rename_i op hres
        have h3 := patchCode_sim b.ctx.ip op ma mb h2
        have hpl : (ma.patchCode b.ctx.ip op).insnLimit = ma.insnLimit := by unfold patchCode; split <;> rfl
        have hs := meterIncrease_sim _ _ h3 (by rw [hpl]; show ma.insnLimit = none; rw [hl1, hl])
        revert hs
        generalize Mach.meterIncrease (ma.patchCode b.ctx.ip op) = ra
        generalize Mach.meterIncrease (mb.patchCode b.ctx.ip op) = rb
        obtain ⟨oa, ma2⟩ := ra
        obtain ⟨ob, mb2⟩ := rb
        rintro ⟨g1, g2⟩
        simp only at g1 g2
        subst g1
        cases oa with
        | err e => exact ⟨rfl, g2⟩
        | panic s => exact ⟨rfl, g2⟩
        | ok u => exact exec_sim np _ op ma2 mb2 g2
    · rename_i op _ hop
      exact exec_sim np _ op ma mb h2

theorem isRunning_eq (a b : Mach) (h : normA a = normB pre b) : a.isRunning = b.isRunning := by
  obtain ⟨_, hctx, _, _, _, _, hcode, _⟩ := ds_eq a b h
  simp [isRunning, hctx, hcode]

theorem next_sim (np : String → Option Prog) (a b : Mach) (h : normA a = normB pre b) (hl : a.insnLimit = none) :
    SimR pre (next np a) (next np b) := by
  unfold next
  rw [isRunning_eq a b h]
  split
  · exact step_sim np a b h hl
  · exact ⟨rfl, h⟩

/-- the relation between the results of two runs: both time out, or both end with the same outcome in related machines -/
def RunR (pre : List Char) : Option (R Unit) → Option (R Unit) → Prop
  | none, none => True
  | some ra, some rb => SimR pre ra rb
  | _, _ => False

/-- `run` with the same fuel -/
theorem run_sim (np : String → Option Prog) (fuel : Nat) : ∀ a b : Mach, normA a = normB pre b → a.insnLimit = none →
    RunR pre (run np fuel a) (run np fuel b) := by
  induction fuel with
  | zero =>
    intro a b h hl
    simp only [run, isRunning_eq a b h]
    split
    · trivial
    · exact ⟨rfl, h⟩
  | succ fuel ih =>
    intro a b h hl
    simp only [run, isRunning_eq a b h]
    split
    · have hs := step_sim np a b h hl
      have hk := (step_mle np a).limit
      revert hs hk
      generalize step np a = ra
      generalize step np b = rb
      obtain ⟨oa, ma⟩ := ra
      obtain ⟨ob, mb⟩ := rb
      rintro ⟨h1, h2⟩ hk
      simp only at h1 h2 hk
      subst h1
      cases oa with
      | ok u => exact ih ma mb h2 (by rw [hk, hl])
      | err e => exact ⟨rfl, h2⟩
      | panic s => exact ⟨rfl, h2⟩
    · exact ⟨rfl, h⟩

end Ghost
